/*
** h_iter.c - C11: iteration agrees with len and get, forwards and backwards, for the
** containers, for Range and for the views Slice / reverse / Zip / enumerate / Filter / Map
** and for compositions of views (exhaustive grids, no sampling).
**
** Every case is an *iterable expression* (a small tree: leaves are containers or Ranges,
** inner nodes are views).  The expression is built with the library's own stack macros
** (range(), slice(), reverse(), zip(), enumerate(), filter(), map(), tuple()) in
** continuation-passing style, so that every compound literal is alive while the case is
** evaluated.  For every node a reference sequence is computed from the definition in the
** property text; the real object is then walked forwards (iter_init/iter_next) and
** backwards (iter_last/iter_prev) under a horizon, asked for len() and for get(i), and
** everything is compared with the reference.
**
** Items are never dereferenced blindly: every pointer an iterator yields is looked up in a
** registry of the pointers that are legitimate in the current case (elements of the
** underlying containers, Range cursors, Zip value tuples, Map images).  Anything else is
** "FOREIGN" and ends the walk (a cursor that left its container).
**
** A composite is judged only in those aspects (fwd/bwd/len/get) for which all the
** component aspects it is defined through conform when the component is walked on its
** own; otherwise the failure is the component's (reported at its own, shorter case) and
** the composite aspect is counted as masked.
**
** Parameters:  phase=base|range|slice|zip|filter|map|compose|heap
**              kinds=all|array,list,tuple,htuple,table,tree,range   maxn=N  amax=N  rmax=N
**              zmax=N (zip child length bound)  flmax=N (filter length bound)  cset=small|wide
*/

#include "vf.h"

/* ---- limits ---------------------------------------------------------------------- */

#define MAXN     8           /* longest underlying container */
#define MAXSEQ   48          /* longest recorded walk (len + horizon) */
#define ITEMLEN  120
#define HORIZON  8
#define IMGPOOL  256
#define MAXNODES 16

enum { K_ARRAY, K_LIST, K_TUPLE, K_HTUPLE, K_TABLE, K_TREE, NKINDS, K_RANGE = NKINDS };
static const char* kind_name[] = { "array", "list", "tuple", "htuple", "table", "tree", "range" };
static int kind_on[NKINDS + 1];

enum { N_BASE, N_RANGE, N_SLICE, N_ZIP, N_ENUM, N_FILTER, N_MAP };
static const char* node_name[] = { "base", "range", "slice", "zip", "enumerate", "filter", "map" };

enum { A_FWD, A_BWD, A_LEN, A_GET, NASPECT };
static const char* aspect_name[] = { "fwd", "bwd", "len", "get" };
enum { ST_NA, ST_OK, ST_BAD, ST_MASKED };

enum { END_TERMINAL, END_HORIZON, END_FOREIGN, END_EXC };

struct item { char s[ITEMLEN]; int64_t val; int foreign; };
struct seq { volatile int n; volatile int end; var exc; struct item it[MAXSEQ]; };

struct node {
  int kind;
  int ck, n, bid, dup_p, dup_q;     /* base */
  int ar, a[3], om[3], is_reverse;  /* range / slice arguments: start, stop, step */
  int nch; struct node* ch[3];
  unsigned mask; int slot;          /* filter */
  int fn;                           /* map */
  int heap;                         /* view constructed with new() instead of the stack macro */
  /* run time */
  var obj;
  struct seq ref;
  int clear;                        /* reference comes from the definition (1) or from len/get of the object (0) */
  int contract;                     /* 0: out of contract (step 0): only termination is required */
  int refvalid;                     /* the reference sequence is usable by views built on this node */
  int st[NASPECT];
};

static struct node pool[MAXNODES]; static int npool;
static struct node* mk(int kind) {
  struct node* nd = &pool[npool++];
  nd->kind = kind; nd->nch = 0; nd->dup_p = nd->dup_q = -1; nd->is_reverse = 0; nd->heap = 0;
  nd->om[0] = nd->om[1] = nd->om[2] = 0; nd->a[0] = nd->a[1] = nd->a[2] = 0; nd->ar = 0;
  nd->mask = 0; nd->slot = 0; nd->fn = 0; nd->obj = NULL; nd->ck = 0; nd->n = 0; nd->bid = 0;
  return nd;
}

static uint64_t masked_aspects, judged_aspects, unclear_cases, outofcontract_cases;
static struct vf_set outcomes;

/* ---- element objects and the pointer registry ---------------------------------------- */

static var elemobj[4][MAXN];        /* raw Int objects, value 16*b+i; members of tuples */
static var imgobj[IMGPOOL];         /* raw Int objects handed out by the map functions */
static struct item imgitem[IMGPOOL];
static int imgnext;

enum { RC_ELEM, RC_CURSOR, RC_ZVALS };
struct reg { var p; int cls; int64_t val; int arity; };
static struct reg regs[128]; static int nregs;

static void reg_add(var p, int cls, int64_t val, int arity) {
  if (nregs >= 128) { fprintf(stderr, "h_iter: registry overflow\n"); _exit(2); }
  regs[nregs].p = p; regs[nregs].cls = cls; regs[nregs].val = val; regs[nregs].arity = arity; nregs++;
}

static void resolve(var p, struct item* o) {
  o->foreign = 0; o->val = 0;
  if (p == NULL)     { strcpy(o->s, "NULL"); o->foreign = 1; return; }
  if (p == Terminal) { strcpy(o->s, "Terminal"); o->foreign = 1; return; }
  if (p == _)        { strcpy(o->s, "_"); o->foreign = 1; return; }
  for (int i = 0; i < nregs; i++) {
    if (regs[i].p != p) continue;
    if (regs[i].cls == RC_ELEM) { o->val = regs[i].val; snprintf(o->s, ITEMLEN, "e%d", (int)regs[i].val); return; }
    if (regs[i].cls == RC_CURSOR) { o->val = ((struct Int*)p)->val; snprintf(o->s, ITEMLEN, "i%" PRId64, o->val); return; }
    /* the value tuple of a Zip: arity components */
    size_t off = 0; o->s[0] = 0;
    off += snprintf(o->s + off, ITEMLEN - off, "(");
    for (int k = 0; k < regs[i].arity; k++) {
      struct item sub; resolve(((struct Tuple*)p)->items[k], &sub);
      if (k == 0) o->val = sub.val;
      if (sub.foreign) o->foreign = 1;
      if (off < ITEMLEN - 1) off += snprintf(o->s + off, ITEMLEN - off, "%s%s", k ? "," : "", sub.s);
      if (off >= ITEMLEN) off = ITEMLEN - 1;
    }
    if (off < ITEMLEN - 1) snprintf(o->s + off, ITEMLEN - off, ")");
    return;
  }
  int ni = imgnext < IMGPOOL ? imgnext : IMGPOOL;
  for (int i = 0; i < ni; i++) if (imgobj[i] == p) { *o = imgitem[i]; return; }
  strcpy(o->s, "FOREIGN"); o->foreign = 1;
}

/* filter predicates: a bit mask indexed by the item's value modulo 8 */
static unsigned pmask[3]; static uint64_t cb_foreign;
static var pred_common(int slot, var x) {
  struct item o; resolve(x, &o);
  if (o.foreign) { cb_foreign++; return NULL; }
  int b = (int)(((o.val % 8) + 8) % 8);
  return ((pmask[slot] >> b) & 1) ? x : NULL;
}
static var pred0(var x) { return pred_common(0, x); }
static var pred1(var x) { return pred_common(1, x); }
static var pred2(var x) { return pred_common(2, x); }
static var (*predfn[3])(var) = { pred0, pred1, pred2 };

/* map functions: the image of item s under function f is a fresh object that resolves to "m<f>(s)" */
static var map_common(int f, var x) {
  struct item o; resolve(x, &o);
  int k = imgnext % IMGPOOL; imgnext++;
  snprintf(imgitem[k].s, ITEMLEN, "m%d(%.100s)", f, o.s);
  imgitem[k].val = o.val; imgitem[k].foreign = o.foreign;
  if (o.foreign) cb_foreign++;
  return imgobj[k];
}
static var mapf0(var x) { return map_common(0, x); }
static var mapf1(var x) { return map_common(1, x); }
static var (*mapfn[2])(var) = { mapf0, mapf1 };

/* ---- printing a case ----------------------------------------------------------------- */

static size_t arg_str(char* b, size_t cap, int om, int v) {
  return om ? snprintf(b, cap, "_") : snprintf(b, cap, "%d", v);
}

static size_t node_str(struct node* nd, char* b, size_t cap) {
  size_t o = 0;
  if (cap < 32) return 0;
  switch (nd->kind) {
  case N_BASE:
    o += snprintf(b + o, cap - o, "%s[%d]", kind_name[nd->ck], nd->n);
    if (nd->dup_p >= 0) o += snprintf(b + o, cap - o, "{item%d is item%d}", nd->dup_q, nd->dup_p);
    break;
  case N_RANGE:
    o += snprintf(b + o, cap - o, nd->heap ? "new-range(" : "range(");
    if (nd->ar == 1) o += arg_str(b + o, cap - o, 0, nd->a[1]);
    if (nd->ar >= 2) { o += arg_str(b + o, cap - o, nd->om[0], nd->a[0]); o += snprintf(b + o, cap - o, ","); o += arg_str(b + o, cap - o, 0, nd->a[1]); }
    if (nd->ar == 3) { o += snprintf(b + o, cap - o, ","); o += arg_str(b + o, cap - o, nd->om[2], nd->a[2]); }
    o += snprintf(b + o, cap - o, ")");
    break;
  case N_SLICE:
    o += snprintf(b + o, cap - o, nd->is_reverse ? "reverse(" : nd->heap ? "new-slice(" : "slice(");
    o += node_str(nd->ch[0], b + o, cap - o);
    if (!nd->is_reverse) {
      if (nd->ar == 1) { o += snprintf(b + o, cap - o, ","); o += arg_str(b + o, cap - o, nd->om[1], nd->a[1]); }
      if (nd->ar >= 2) { o += snprintf(b + o, cap - o, ","); o += arg_str(b + o, cap - o, nd->om[0], nd->a[0]); o += snprintf(b + o, cap - o, ","); o += arg_str(b + o, cap - o, nd->om[1], nd->a[1]); }
      if (nd->ar == 3) { o += snprintf(b + o, cap - o, ","); o += arg_str(b + o, cap - o, nd->om[2], nd->a[2]); }
    }
    o += snprintf(b + o, cap - o, ")");
    break;
  case N_ZIP:
    o += snprintf(b + o, cap - o, nd->heap ? "new-zip(" : "zip(");
    for (int i = 0; i < nd->nch; i++) { if (i) o += snprintf(b + o, cap - o, ","); o += node_str(nd->ch[i], b + o, cap - o); }
    o += snprintf(b + o, cap - o, ")");
    break;
  case N_ENUM:
    o += snprintf(b + o, cap - o, "enumerate("); o += node_str(nd->ch[0], b + o, cap - o); o += snprintf(b + o, cap - o, ")");
    break;
  case N_FILTER:
    o += snprintf(b + o, cap - o, nd->heap ? "new-filter(" : "filter("); o += node_str(nd->ch[0], b + o, cap - o);
    o += snprintf(b + o, cap - o, ",mask=0x%02x)", nd->mask);
    break;
  case N_MAP:
    o += snprintf(b + o, cap - o, nd->heap ? "new-map(" : "map("); o += node_str(nd->ch[0], b + o, cap - o);
    o += snprintf(b + o, cap - o, ",f%d)", nd->fn);
    break;
  }
  return o;
}

/* ---- structural facts ------------------------------------------------------------------ */

static int has_len(struct node* nd) {
  switch (nd->kind) {
  case N_BASE: case N_RANGE: return 1;
  case N_SLICE: case N_ENUM: case N_MAP: return has_len(nd->ch[0]);
  case N_ZIP: for (int i = 0; i < nd->nch; i++) if (!has_len(nd->ch[i])) return 0; return 1;
  default: return 0;
  }
}

/* get(i) is positional (Table and Tree are keyed: get is a lookup, not the i-th item) */
static int has_get(struct node* nd) {
  switch (nd->kind) {
  case N_BASE: return nd->ck != K_TABLE && nd->ck != K_TREE;
  case N_RANGE: return 1;
  case N_SLICE: case N_ENUM: case N_MAP: return has_get(nd->ch[0]);
  case N_ZIP: for (int i = 0; i < nd->nch; i++) if (!has_get(nd->ch[i])) return 0; return nd->nch > 0;
  default: return 0;
  }
}

/* effective parameters as the documented constructors define them */
static void range_eff(struct node* nd, int64_t* st, int64_t* sp, int64_t* se) {
  *st = 0; *sp = 0; *se = 1;
  if (nd->ar >= 1) *sp = nd->a[1];
  if (nd->ar >= 2) *st = nd->om[0] ? 0 : nd->a[0];
  if (nd->ar >= 3) *se = nd->om[2] ? 1 : nd->a[2];
}

static int64_t clampi(int64_t a, int64_t n) { a = a < 0 ? n + a : a; a = a > n ? n : a; a = a < 0 ? 0 : a; return a; }

static void slice_eff(struct node* nd, int64_t n, int64_t* st, int64_t* sp, int64_t* se, int* open) {
  *st = 0; *sp = n; *se = 1; *open = 1;
  if (nd->is_reverse) { *se = -1; return; }
  if (nd->ar >= 1 && !nd->om[1]) { *sp = clampi(nd->a[1], n); *open = 0; }
  if (nd->ar >= 2 && !nd->om[0]) { *st = clampi(nd->a[0], n); *open = 0; }
  if (nd->ar >= 3 && !nd->om[2]) *se = nd->a[2];
}

static const char* leafclass(struct node* nd) {
  return nd->kind == N_BASE ? kind_name[nd->ck] : node_name[nd->kind];
}

/* ---- labels --------------------------------------------------------------------------- */

static char featbuf[160];

/* an explicit negative start/stop that points before the front of the underlying iterable (n + a < 0) */
static int slice_beyond_front(struct node* nd, int64_t n) {
  if (nd->is_reverse) return 0;
  if (nd->ar >= 1 && !nd->om[1] && nd->a[1] < 0 && n + nd->a[1] < 0) return 1;
  if (nd->ar >= 2 && !nd->om[0] && nd->a[0] < 0 && n + nd->a[0] < 0) return 1;
  return 0;
}

/*
** The feature class of a case: what a label is made of besides aspect and symptom.  Deliberately coarse in the
** underlying container kind for Slice and Zip (the case string names it) and fine in the parameters that decide
** which code path runs (sign of the step, empty/aligned/misaligned selection, negative index beyond the front, equal/unequal
** lengths, same object twice).
*/
static const char* class_feat(struct node* nd) {
  struct node* c = nd->nch ? nd->ch[0] : NULL;
  int composite = 0;
  for (int i = 0; i < nd->nch; i++) if (nd->ch[i]->kind != N_BASE && nd->ch[i]->kind != N_RANGE) { composite = 1; c = nd->ch[i]; break; }
  const char* hp = nd->heap ? "new-" : "";
  const char* ov = composite ? "-of-view" : "";
  switch (nd->kind) {
  case N_BASE:
    if (nd->dup_p >= 0) snprintf(featbuf, sizeof featbuf, "tuple/same-object-twice");
    else snprintf(featbuf, sizeof featbuf, "%s/%s", nd->ck == K_HTUPLE ? "tuple" : kind_name[nd->ck], nd->n ? "nonempty" : "empty");
    break;
  case N_RANGE: {
    int64_t st, sp, se; range_eff(nd, &st, &sp, &se);
    const char* sg = se > 0 ? "step>0" : se < 0 ? "step<0" : "step0";
    const char* al = "empty";
    if (se != 0 && sp > st) { int64_t a = se > 0 ? se : -se; al = ((sp - st - 1) % a == 0) ? "aligned" : "misaligned"; }
    snprintf(featbuf, sizeof featbuf, "%srange/%s/%s", hp, sg, al);
    break; }
  case N_SLICE: {
    int64_t n = nd->ch[0]->ref.n;
    int64_t st, sp, se; int open; slice_eff(nd, n, &st, &sp, &se, &open);
    const char* sg = se > 0 ? "step>0" : se < 0 ? "step<0" : "step0";
    const char* al = "empty";
    if (se != 0 && sp > st) { int64_t a = se > 0 ? se : -se; al = ((sp - st - 1) % a == 0) ? "aligned" : "misaligned"; }
    if (slice_beyond_front(nd, n)) al = "negative-beyond-front";
    snprintf(featbuf, sizeof featbuf, "%sslice%s/%s/%s", hp, ov, sg, al);
    break; }
  case N_ZIP: {
    int uneq = 0;
    for (int i = 1; i < nd->nch; i++) if (nd->ch[i]->ref.n != nd->ch[0]->ref.n) uneq = 1;
    snprintf(featbuf, sizeof featbuf, "%szip%s/%s", hp, ov, uneq ? "unequal-lengths" : "equal-lengths");
    break; }
  case N_ENUM:
    if (composite) snprintf(featbuf, sizeof featbuf, "enumerate-of-view");
    else snprintf(featbuf, sizeof featbuf, "enumerate/over-%s", leafclass(c));
    break;
  case N_FILTER: {
    int acc = nd->ref.n, all = nd->ch[0]->ref.n;
    const char* w = acc == 0 ? "none-accepted" : acc == all ? "all-accepted" : "some-accepted";
    if (composite) snprintf(featbuf, sizeof featbuf, "%sfilter-of-view/%s", hp, w);
    else snprintf(featbuf, sizeof featbuf, "%sfilter/over-%s/%s", hp, leafclass(c), w);
    break; }
  case N_MAP:
    if (composite) snprintf(featbuf, sizeof featbuf, "%smap-of-view", hp);
    else snprintf(featbuf, sizeof featbuf, "%smap/over-%s", hp, leafclass(c));
    break;
  }
  return featbuf;
}

static char phasebuf[200];
static void set_phase(struct node* nd, int aspect) {
  snprintf(phasebuf, sizeof phasebuf, "%s/%s", class_feat(nd), aspect_name[aspect]);
  vf.phase = phasebuf;
}

static void report(struct node* nd, int aspect, const char* symptom, const char* fmt, ...) {
  char label[256]; char detail[1024];
  snprintf(label, sizeof label, "%s/%s/%s", class_feat(nd), aspect_name[aspect], symptom);
  va_list ap; va_start(ap, fmt); vsnprintf(detail, sizeof detail, fmt, ap); va_end(ap);
  vf_violation(label, NULL, "%s", detail);
}

/* ---- walking the real object ------------------------------------------------------------ */

static struct seq WF, WB;

/* get(obj, i) and len(obj) with the exception (if any) captured; kept out of the loops that use them (setjmp) */
static var safe_get(var obj, int i, var* exc) {
  volatile var g = NULL;
  vf.executions++;
  *exc = VF_CATCH(g = get(obj, $I(i)));
  return (var)g;
}

static uint64_t safe_len(var obj, var* exc) {
  volatile uint64_t l = 0;
  *exc = VF_CATCH(l = len(obj));
  return (uint64_t)l;
}

static void walk(var obj, int backward, int horizon, struct seq* w) {
  w->n = 0; w->end = END_TERMINAL; w->exc = NULL;
  imgnext = 0;
  if (horizon > MAXSEQ) horizon = MAXSEQ;
  vf.executions++;
  try {
    var it = backward ? iter_last(obj) : iter_init(obj);
    while (true) {
      if (it is Terminal) { w->end = END_TERMINAL; break; }
      if (w->n >= horizon) { w->end = END_HORIZON; break; }
      resolve(it, &w->it[w->n]);
      w->n = w->n + 1;
      if (w->it[w->n - 1].foreign) { w->end = END_FOREIGN; break; }
      it = backward ? iter_prev(obj, it) : iter_next(obj, it);
    }
  } catch (e) {
    w->end = END_EXC; w->exc = e;
  }
}

static size_t seq_str(struct seq* s, int from, int to, int step, char* b, size_t cap) {
  size_t o = 0; b[0] = 0;
  for (int i = from; step > 0 ? i < to : i > to; i += step) {
    if (o + ITEMLEN + 4 >= cap) { o += snprintf(b + o, cap - o, " ..."); break; }
    o += snprintf(b + o, cap - o, "%s%s", o ? " " : "", s->it[i].s);
  }
  return o;
}

static const char* end_name(struct seq* w) {
  return w->end == END_TERMINAL ? "Terminal" : w->end == END_HORIZON ? "still going at the horizon" :
         w->end == END_FOREIGN ? "a pointer outside the underlying iterable" : "an exception";
}

/* compare a walk with the expected items E[idx(0)], E[idx(1)] ... (m of them); NULL = conforms */
static const char* compare(struct seq* w, struct seq* e, int reversed) {
  int m = e->n, p = 0;
  while (p < w->n && p < m && strcmp(w->it[p].s, e->it[reversed ? m - 1 - p : p].s) == 0) p++;
  if (p < w->n && p < m) return w->it[p].foreign ? "leaves-container" : "wrong-item";
  if (p == m && w->n > m) return w->it[m].foreign ? "leaves-container" : w->end == END_HORIZON ? "nonterminating" : "too-many";
  if (w->end == END_EXC) return "raises";
  if (w->end == END_HORIZON) return "nonterminating";
  if (w->n < m) return "too-few";
  return NULL;
}

/* ---- reference sequences from the definitions --------------------------------------------- */

static int in_seq(struct seq* s, const char* it) { for (int i = 0; i < s->n; i++) if (strcmp(s->it[i].s, it) == 0) return 1; return 0; }

static void ref_push(struct seq* r, const char* s, int64_t val) {
  if (r->n >= MAXSEQ) return;
  snprintf(r->it[r->n].s, ITEMLEN, "%s", s); r->it[r->n].val = val; r->it[r->n].foreign = 0; r->n = r->n + 1;
}

static void compute_ref(struct node* nd) {
  struct seq* r = &nd->ref; char b[ITEMLEN];
  r->n = 0; r->end = END_TERMINAL; nd->clear = 1; nd->contract = 1; nd->refvalid = 1;
  switch (nd->kind) {
  case N_BASE:
    if (nd->ck == K_TABLE || nd->ck == K_TREE) return;  /* filled from the container's own validated forward order */
    for (int i = 0; i < nd->n; i++) {
      int v = 16 * nd->bid + (i == nd->dup_q ? nd->dup_p : i);
      snprintf(b, sizeof b, "e%d", v); ref_push(r, b, v);
    }
    return;
  case N_RANGE: {
    int64_t st, sp, se; range_eff(nd, &st, &sp, &se);
    if (se == 0) { nd->contract = 0; return; }
    if (se > 0) for (int64_t v = st; v < sp; v += se) { snprintf(b, sizeof b, "i%" PRId64, v); ref_push(r, b, v); }
    /* negative step: the documented example "range($I(10), $I(20), $I(-1)) iterates 20 to 10" and get(): the window
       [start,stop) walked downwards from stop-1 */
    if (se < 0) for (int64_t v = sp - 1; v >= st; v += se) { snprintf(b, sizeof b, "i%" PRId64, v); ref_push(r, b, v); }
    return; }
  case N_SLICE: {
    struct seq* c = &nd->ch[0]->ref;
    int64_t st, sp, se; int open; slice_eff(nd, c->n, &st, &sp, &se, &open);
    if (se == 0) { nd->contract = 0; return; }
    if (se > 0) { for (int64_t i = st; i < sp; i += se) ref_push(r, c->it[i].s, c->it[i].val); return; }
    /* negative step over the whole iterable (reverse, slice(x,_,_,-k)): documented by reverse() and the suite */
    if (open) { for (int64_t i = sp - 1; i >= st; i += se) ref_push(r, c->it[i].s, c->it[i].val); return; }
    /* negative step with explicit bounds: the documentation example and the implementation's get() disagree about
       which window is meant; not judged against a definition, only for internal consistency (see evaluate) */
    nd->clear = 0;
    return; }
  case N_ZIP: case N_ENUM: {
    int m = nd->nch ? MAXSEQ : 0;
    for (int i = 0; i < nd->nch; i++) if (nd->ch[i]->ref.n < m) m = nd->ch[i]->ref.n;
    for (int k = 0; k < m; k++) {
      size_t o = 0; o += snprintf(b + o, sizeof b - o, "(");
      if (nd->kind == N_ENUM) o += snprintf(b + o, sizeof b - o, "i%d,", k);
      for (int i = 0; i < nd->nch && o < sizeof b - 1; i++) { o += snprintf(b + o, sizeof b - o, "%s%s", i ? "," : "", nd->ch[i]->ref.it[k].s); if (o >= sizeof b) o = sizeof b - 1; }
      if (o < sizeof b - 1) snprintf(b + o, sizeof b - o, ")");
      ref_push(r, b, nd->kind == N_ENUM ? k : nd->ch[0]->ref.it[k].val);
    }
    return; }
  case N_FILTER: {
    struct seq* c = &nd->ch[0]->ref;
    for (int i = 0; i < c->n; i++) {
      int bit = (int)(((c->it[i].val % 8) + 8) % 8);
      if ((nd->mask >> bit) & 1) ref_push(r, c->it[i].s, c->it[i].val);
    }
    return; }
  case N_MAP: {
    struct seq* c = &nd->ch[0]->ref;
    for (int i = 0; i < c->n; i++) { snprintf(b, sizeof b, "m%d(%.100s)", nd->fn, c->it[i].s); ref_push(r, b, c->it[i].val); }
    return; }
  }
}

/* which component aspects a view's aspect is defined through */
static int dep_ok(struct node* nd, int aspect) {
  for (int i = 0; i < nd->nch; i++) if (!nd->ch[i]->refvalid || !nd->ch[i]->contract) return 0;
  switch (nd->kind) {
  case N_BASE: case N_RANGE: return 1;
  case N_SLICE: {
    struct node* c = nd->ch[0];
    if (c->st[A_LEN] != ST_OK) return 0;
    int64_t st, sp, se; int open; slice_eff(nd, c->ref.n, &st, &sp, &se, &open);
    if (aspect == A_LEN) return 1;
    if (aspect == A_GET) return c->st[A_GET] == ST_OK;
    if (se == 0) return c->st[A_FWD] == ST_OK && c->st[A_BWD] == ST_OK;
    int usefwd = (aspect == A_FWD) == (se > 0);
    return c->st[usefwd ? A_FWD : A_BWD] == ST_OK; }
  case N_ZIP: case N_FILTER: case N_MAP: case N_ENUM:
    for (int i = 0; i < nd->nch; i++) if (nd->ch[i]->st[aspect] != ST_OK) return 0;
    if (nd->kind == N_ENUM && nd->ch[0]->st[A_LEN] != ST_OK) return 0;
    /* a backward Zip has to find the last common position: it may use the lengths of its inputs where they have one */
    if ((nd->kind == N_ZIP || nd->kind == N_ENUM) && aspect == A_BWD)
      for (int i = 0; i < nd->nch; i++) if (has_len(nd->ch[i]) && nd->ch[i]->st[A_LEN] != ST_OK) return 0;
    return 1;
  }
  return 0;
}

/* ---- evaluation ---------------------------------------------------------------------------- */

static void eval_keyed_leaf(struct node* nd, int rep) {
  /* Table / Tree: order unspecified (Tree: monotone).  The forward walk is validated item by item (every key of the
     universe exactly once) and then *becomes* the reference order for everything built on top of it. */
  struct seq* r = &nd->ref; r->n = 0;
  int seen[MAXN] = {0};
  volatile int cnt = 0; const char* volatile sym = NULL;
  set_phase(nd, A_FWD);
  vf.executions++;
  try {
    var it = iter_init(nd->obj);
    while (it isnt Terminal) {
      if (cnt >= nd->n + HORIZON) { sym = "nonterminating"; break; }
      int64_t v = c_int(it) - 16 * nd->bid;
      if (v < 0 || v >= nd->n) { sym = "leaves-container"; break; }
      if (seen[v]++) { sym = "wrong-item"; break; }
      reg_add(it, RC_ELEM, 16 * nd->bid + v, 0);
      char b[16]; snprintf(b, sizeof b, "e%d", (int)(16 * nd->bid + v)); ref_push(r, b, 16 * nd->bid + v);
      cnt = cnt + 1;
      it = iter_next(nd->obj, it);
    }
  } catch (e) { sym = "raises"; }
  if (!sym && cnt < nd->n) sym = "too-few";
  if (!sym && nd->ck == K_TREE) {
    int asc = 1, desc = 1;
    for (int i = 1; i < r->n; i++) { if (r->it[i].val <= r->it[i-1].val) asc = 0; if (r->it[i].val >= r->it[i-1].val) desc = 0; }
    if (!asc && !desc) sym = "not-monotone";
  }
  judged_aspects++;
  if (sym) {
    nd->st[A_FWD] = ST_BAD; nd->refvalid = 0;
    if (rep) { char sb[1024]; seq_str(r, 0, r->n, 1, sb, sizeof sb); report(nd, A_FWD, sym, "forward iteration over %d keys: [%s] then stopped (%s)", nd->n, sb, sym); }
  } else nd->st[A_FWD] = ST_OK;
}

static void evaluate(struct node* nd, int rep) {
  char sb1[1400], sb2[1400];
  for (int i = 0; i < nd->nch; i++) evaluate(nd->ch[i], 0);
  for (int a = 0; a < NASPECT; a++) nd->st[a] = ST_NA;
  compute_ref(nd);
  var obj = nd->obj;
  int keyed = nd->kind == N_BASE && (nd->ck == K_TABLE || nd->ck == K_TREE);

  if (!nd->contract) {
    /* step 0: out of contract; the only requirement is that a walk ends (Terminal or an exception) inside its container */
    if (rep) outofcontract_cases++;
    for (int dir = 0; dir < 2; dir++) {
      int a = dir ? A_BWD : A_FWD;
      if (!dep_ok(nd, a)) { nd->st[a] = ST_MASKED; masked_aspects++; continue; }
      set_phase(nd, a);
      walk(obj, dir, HORIZON, &WF);
      judged_aspects++;
      nd->st[a] = ST_OK;
      if (WF.end == END_HORIZON || WF.end == END_FOREIGN) {
        nd->st[a] = ST_BAD;
        if (rep) { seq_str(&WF, 0, WF.n, 1, sb1, sizeof sb1); report(nd, a, WF.end == END_HORIZON ? "nonterminating" : "leaves-container", "step 0 (out of contract): the walk must still end; got [%s] ending with %s", sb1, end_name(&WF)); }
      }
    }
    return;
  }

  /* len */
  uint64_t L = 0; int len_known = 0;
  if (has_len(nd) && implements_method(obj, Len, len)) {
    if (!dep_ok(nd, A_LEN)) { nd->st[A_LEN] = ST_MASKED; masked_aspects++; }
    else {
      set_phase(nd, A_LEN);
      var e; L = safe_len(obj, &e);
      judged_aspects++;
      if (e) { nd->st[A_LEN] = ST_BAD; if (rep) report(nd, A_LEN, "raises", "len raised %s", vf_exc_name(e)); }
      else { len_known = 1; nd->st[A_LEN] = ST_OK; }
    }
  }

  if (keyed) eval_keyed_leaf(nd, rep);

  /* unclear definition: derive the reference from the object's own len and get (or its forward walk) */
  if (!nd->clear) {
    struct seq* c = &nd->ch[0]->ref; struct seq* r = &nd->ref; r->n = 0;
    if (rep) unclear_cases++;
    nd->refvalid = 0;         /* until derived */
    if (!len_known) return;   /* masked by the component */
    if (L > (uint64_t)c->n) {
      nd->st[A_LEN] = ST_BAD;
      if (rep) report(nd, A_LEN, "too-large", "len is %" PRIu64 " but the underlying iterable has only %d items", (uint64_t)L, c->n);
      return;
    }
    if (has_get(nd) && implements_method(obj, Get, get) && dep_ok(nd, A_GET)) {
      set_phase(nd, A_GET);
      const char* sym = NULL; imgnext = 0;
      for (int i = 0; i < (int)L && !sym; i++) {
        var e; var g = safe_get(obj, i, &e);
        if (e) { sym = "raises"; break; }
        struct item o; resolve(g, &o);
        if (o.foreign) sym = "leaves-container";
        else if (!in_seq(c, o.s)) sym = "wrong-item";
        else if (in_seq(r, o.s)) sym = "wrong-item";
        else ref_push(r, o.s, o.val);
      }
      judged_aspects++;
      if (sym) { nd->st[A_GET] = ST_BAD; r->n = 0; if (rep) report(nd, A_GET, sym, "get(i) for i < len=%" PRIu64 " must give distinct items of the underlying iterable (%s)", (uint64_t)L, sym); return; }
      nd->st[A_GET] = ST_OK; nd->refvalid = 1;
    } else if (dep_ok(nd, A_FWD)) {
      set_phase(nd, A_FWD);
      walk(obj, 0, c->n + HORIZON, &WF);
      const char* sym = WF.end == END_HORIZON ? "nonterminating" : WF.end == END_FOREIGN ? "leaves-container" : WF.end == END_EXC ? "raises" : NULL;
      for (int i = 0; i < WF.n && !sym; i++) {
        if (!in_seq(c, WF.it[i].s) || in_seq(r, WF.it[i].s)) sym = "wrong-item"; else ref_push(r, WF.it[i].s, WF.it[i].val);
      }
      if (!sym && (uint64_t)WF.n != L) sym = (uint64_t)WF.n > L ? "too-many" : "too-few";
      judged_aspects++;
      if (sym) { nd->st[A_FWD] = ST_BAD; if (rep) { seq_str(&WF, 0, WF.n, 1, sb1, sizeof sb1); report(nd, A_FWD, sym, "forward walk [%s] (ended with %s) is not %" PRIu64 " (= len) distinct items of the underlying iterable", sb1, end_name(&WF), (uint64_t)L); } r->n = 0; return; }
      nd->refvalid = 1;
    } else { masked_aspects++; return; }
  } else if (len_known && L != (uint64_t)(nd->kind == N_BASE ? nd->n : nd->ref.n)) {
    int want = nd->kind == N_BASE ? nd->n : nd->ref.n;
    nd->st[A_LEN] = ST_BAD;
    if (rep) report(nd, A_LEN, L > (uint64_t)want ? "too-large" : "too-small", "len is %" PRIu64 ", the definition selects %d items", (uint64_t)L, want);
  }

  struct seq* E = &nd->ref;

  /* forward and backward walks */
  for (int dir = 0; dir < 2; dir++) {
    int a = dir ? A_BWD : A_FWD;
    if (keyed && !dir) continue;
    if (keyed && nd->st[A_FWD] != ST_OK) { nd->st[a] = ST_MASKED; continue; }
    if (dir && !(implements_method(obj, Iter, iter_last) && implements_method(obj, Iter, iter_prev))) continue;
    if (!dep_ok(nd, a)) { nd->st[a] = ST_MASKED; masked_aspects++; continue; }
    set_phase(nd, a);
    struct seq* W = dir ? &WB : &WF;
    uint64_t cbf = cb_foreign;
    walk(obj, dir, E->n + HORIZON, W);
    const char* sym = compare(W, E, dir);
    if (!sym && cb_foreign != cbf) sym = "callback-saw-foreign";
    judged_aspects++;
    nd->st[a] = sym ? ST_BAD : ST_OK;
    if (sym && rep) {
      seq_str(W, 0, W->n, 1, sb1, sizeof sb1);
      if (dir) seq_str(E, E->n - 1, -1, -1, sb2, sizeof sb2); else seq_str(E, 0, E->n, 1, sb2, sizeof sb2);
      report(nd, a, sym, "%s walk yields [%s] ending with %s%s%s; expected [%s] then Terminal%s", dir ? "backward" : "forward", sb1, end_name(W),
             W->end == END_EXC ? " " : "", W->end == END_EXC ? vf_exc_name(W->exc) : "", sb2, nd->clear ? "" : " (from the object's own len/get)");
    }
  }

  /* get(i) is the i-th item */
  if (nd->clear && has_get(nd) && implements_method(obj, Get, get)) {
    if (!dep_ok(nd, A_GET)) { nd->st[A_GET] = ST_MASKED; masked_aspects++; }
    else {
      set_phase(nd, A_GET);
      const char* sym = NULL; int at = -1; struct item o; imgnext = 0; o.s[0] = 0;
      for (int i = 0; i < E->n && !sym; i++) {
        var e; var g = safe_get(obj, i, &e);
        at = i;
        if (e) { sym = "raises"; snprintf(o.s, ITEMLEN, "%s", vf_exc_name(e)); break; }
        resolve(g, &o);
        if (strcmp(o.s, E->it[i].s) != 0) sym = o.foreign ? "leaves-container" : "wrong-item";
      }
      judged_aspects++;
      nd->st[A_GET] = sym ? ST_BAD : ST_OK;
      if (sym && rep) report(nd, A_GET, sym, "get(%d) gives %s, the %d-th item is %s", at, o.s, at, E->it[at].s);
    }
  }
}

/* ---- building the objects with the library's macros (continuation passing) ------------------- */

typedef void (*cont_fn)(void*);
static void build(struct node* nd, cont_fn k, void* ctx);

static void finish(struct node* nd, var obj, cont_fn k, void* ctx) {
  nd->obj = obj;
  if (nd->kind == N_RANGE) reg_add(((struct Range*)obj)->value, RC_CURSOR, 0, 0);
  if (nd->kind == N_ZIP) reg_add(((struct Zip*)obj)->values, RC_ZVALS, 0, nd->nch);
  if (nd->kind == N_ENUM) {
    struct Zip* z = obj;
    reg_add(z->values, RC_ZVALS, 0, 2);
    struct Range* r = ((struct Tuple*)z->iters)->items[0];
    reg_add(r->value, RC_CURSOR, 0, 0);
  }
  k(ctx);
}

static void build_base(struct node* nd, cont_fn k, void* ctx) {
  var e[MAXN];
  for (int i = 0; i < nd->n; i++) e[i] = elemobj[nd->bid][i == nd->dup_q ? nd->dup_p : i];
  switch (nd->ck) {
  case K_ARRAY: case K_LIST: {
    var c = nd->ck == K_ARRAY ? (var)new_raw(Array, Int) : (var)new_raw(List, Int);
    for (int i = 0; i < nd->n; i++) push(c, e[i]);
    for (int i = 0; i < nd->n; i++) reg_add(get(c, $I(i)), RC_ELEM, 16 * nd->bid + i, 0);
    finish(nd, c, k, ctx);
    del_raw(c);
    return; }
  case K_TABLE: case K_TREE: {
    var c = nd->ck == K_TABLE ? (var)new_raw(Table, Int, Int) : (var)new_raw(Tree, Int, Int);
    for (int i = 0; i < nd->n; i++) set(c, e[i], e[i]);
    finish(nd, c, k, ctx);
    del_raw(c);
    return; }
  case K_HTUPLE: {
    var c = new_raw(Tuple);
    for (int i = 0; i < nd->n; i++) push(c, e[i]);
    for (int i = 0; i < nd->n; i++) reg_add(e[i], RC_ELEM, 16 * nd->bid + (i == nd->dup_q ? nd->dup_p : i), 0);
    finish(nd, c, k, ctx);
    del_raw(c);
    return; }
  case K_TUPLE:
    for (int i = 0; i < nd->n; i++) reg_add(e[i], RC_ELEM, 16 * nd->bid + (i == nd->dup_q ? nd->dup_p : i), 0);
    switch (nd->n) {
    case 0: { var t = tuple(); finish(nd, t, k, ctx); } return;
    case 1: { var t = tuple(e[0]); finish(nd, t, k, ctx); } return;
    case 2: { var t = tuple(e[0], e[1]); finish(nd, t, k, ctx); } return;
    case 3: { var t = tuple(e[0], e[1], e[2]); finish(nd, t, k, ctx); } return;
    case 4: { var t = tuple(e[0], e[1], e[2], e[3]); finish(nd, t, k, ctx); } return;
    case 5: { var t = tuple(e[0], e[1], e[2], e[3], e[4]); finish(nd, t, k, ctx); } return;
    case 6: { var t = tuple(e[0], e[1], e[2], e[3], e[4], e[5]); finish(nd, t, k, ctx); } return;
    case 7: { var t = tuple(e[0], e[1], e[2], e[3], e[4], e[5], e[6]); finish(nd, t, k, ctx); } return;
    default: { var t = tuple(e[0], e[1], e[2], e[3], e[4], e[5], e[6], e[7]); finish(nd, t, k, ctx); } return;
    }
  }
}

static void build_self(struct node* nd, cont_fn k, void* ctx) {
  var c0 = nd->nch > 0 ? nd->ch[0]->obj : NULL;
  var c1 = nd->nch > 1 ? nd->ch[1]->obj : NULL;
  var c2 = nd->nch > 2 ? nd->ch[2]->obj : NULL;
  var A = nd->om[0] ? _ : (var)$I(nd->a[0]);
  var B = nd->om[1] ? _ : (var)$I(nd->a[1]);
  var C = nd->om[2] ? _ : (var)$I(nd->a[2]);
  switch (nd->kind) {
  case N_BASE: build_base(nd, k, ctx); return;
  case N_RANGE:
    if (nd->heap) {
      var r = nd->ar == 0 ? (var)new(Range) : nd->ar == 1 ? (var)new(Range, B) : nd->ar == 2 ? (var)new(Range, A, B) : (var)new(Range, A, B, C);
      finish(nd, r, k, ctx); del(r); return;
    }
    switch (nd->ar) {
    case 0: { var r = range(); finish(nd, r, k, ctx); } return;
    case 1: { var r = range(B); finish(nd, r, k, ctx); } return;
    case 2: { var r = range(A, B); finish(nd, r, k, ctx); } return;
    default: { var r = range(A, B, C); finish(nd, r, k, ctx); } return;
    }
  case N_SLICE:
    if (nd->heap) {
      var s = nd->ar == 0 ? (var)new(Slice, c0) : nd->ar == 1 ? (var)new(Slice, c0, B) : nd->ar == 2 ? (var)new(Slice, c0, A, B) : (var)new(Slice, c0, A, B, C);
      finish(nd, s, k, ctx); del(s); return;
    }
    if (nd->is_reverse) { var s = reverse(c0); finish(nd, s, k, ctx); return; }
    switch (nd->ar) {
    case 0: { var s = slice(c0); finish(nd, s, k, ctx); } return;
    case 1: { var s = slice(c0, B); finish(nd, s, k, ctx); } return;
    case 2: { var s = slice(c0, A, B); finish(nd, s, k, ctx); } return;
    default: { var s = slice(c0, A, B, C); finish(nd, s, k, ctx); } return;
    }
  case N_ZIP:
    if (nd->heap) {
      var z = nd->nch == 0 ? (var)new(Zip) : nd->nch == 1 ? (var)new(Zip, c0) : nd->nch == 2 ? (var)new(Zip, c0, c1) : (var)new(Zip, c0, c1, c2);
      finish(nd, z, k, ctx); del(z); return;
    }
    switch (nd->nch) {
    case 0: { var z = zip(); finish(nd, z, k, ctx); } return;
    case 1: { var z = zip(c0); finish(nd, z, k, ctx); } return;
    case 2: { var z = zip(c0, c1); finish(nd, z, k, ctx); } return;
    default: { var z = zip(c0, c1, c2); finish(nd, z, k, ctx); } return;
    }
  case N_ENUM: { var z = enumerate(c0); finish(nd, z, k, ctx); } return;
  case N_FILTER: {
    pmask[nd->slot] = nd->mask;
    if (nd->heap) { var f = new(Filter, c0, $(Function, predfn[nd->slot])); finish(nd, f, k, ctx); del(f); return; }
    var f = filter(c0, $(Function, predfn[nd->slot])); finish(nd, f, k, ctx); } return;
  case N_MAP: {
    if (nd->heap) { var m = new(Map, c0, $(Function, mapfn[nd->fn])); finish(nd, m, k, ctx); del(m); return; }
    var m = map(c0, $(Function, mapfn[nd->fn])); finish(nd, m, k, ctx); } return;
  }
}

struct bctx { struct node* nd; int idx; cont_fn k; void* ctx; };
static void build_children(void* c) {
  struct bctx* b = c;
  if (b->idx < b->nd->nch) {
    struct bctx nb = *b; nb.idx++;
    build(b->nd->ch[b->idx], build_children, &nb);
  } else build_self(b->nd, b->k, b->ctx);
}
static void build(struct node* nd, cont_fn k, void* ctx) {
  struct bctx b = { nd, 0, k, ctx };
  build_children(&b);
}

/* ---- one case ---------------------------------------------------------------------------------- */

static int next_bid, next_slot;
static void number(struct node* nd, int depth) {
  if (nd->kind == N_BASE) nd->bid = next_bid++ & 3;
  if (nd->kind == N_FILTER) nd->slot = next_slot++ % 3;
  for (int i = 0; i < nd->nch; i++) number(nd->ch[i], depth + 1);
  if ((uint64_t)depth > vf.max_depth) vf.max_depth = depth;
}

static struct node* leaf_of(struct node* nd) { while (nd->nch) nd = nd->ch[0]; return nd; }

/* non-trivial: the case selects something, and (for selecting views) not simply everything in the original order */
static int nontrivial(struct node* nd) {
  if (!nd->contract || !nd->refvalid || nd->ref.n == 0) return 0;
  for (int i = 0; i < nd->nch; i++) if (!nd->ch[i]->refvalid || !nd->ch[i]->contract) return 0;
  switch (nd->kind) {
  case N_BASE: case N_RANGE: return nd->ref.n >= 2;
  case N_SLICE: case N_FILTER: {
    struct seq* c = &nd->ch[0]->ref;
    if (nd->ref.n != c->n) return 1;
    for (int i = 0; i < c->n; i++) if (strcmp(c->it[i].s, nd->ref.it[i].s) != 0) return 1;
    return nd->kind == N_FILTER ? 0 : (nd->ch[0]->kind != N_BASE && nontrivial(nd->ch[0])); }
  case N_ZIP: return nd->nch >= 2 || nontrivial(nd->ch[0]);
  default: return 1;
  }
}

static void eval_k(void* ctx) { evaluate((struct node*)ctx, 1); }

static uint64_t ncases;
static void run_case(struct node* root) {
  char cs[512]; node_str(root, cs, sizeof cs);
  if (vf.replay && strcmp(vf.replay, cs) != 0) return;
  if ((ncases++ & 255) == 0) vf_watchdog(60);
  vf_set_cur("%s", cs);
  nregs = 0; imgnext = 0; next_bid = 0; next_slot = 0;
  number(root, 0);
  vf.phase = "construct";
  /* (the 'completed' flag, not the catch alone, decides: an exception already handled by an inner block must not count) */
  static volatile int completed;
  completed = 0;
  var e = VF_CATCH({ build(root, eval_k, root); completed = 1; });
  if (e && !completed) {
    char label[200]; snprintf(label, sizeof label, "%s/construct/raises", node_name[root->kind]);
    vf_violation(label, NULL, "constructing or evaluating the case raised %s outside any walk", vf_exc_name(e));
  }
  vf.evaluations++;
  if (nontrivial(root)) vf.nontrivial++;
  {
    char ob[1500]; size_t o = snprintf(ob, sizeof ob, "%d%d%d%d:", root->st[0], root->st[1], root->st[2], root->st[3]);
    seq_str(&root->ref, 0, root->ref.n, 1, ob + o, sizeof ob - o);
    if (vf_set_put(&outcomes, ob, 1) < 0) vf.outcomes++;
  }
  if (vf_want_sample()) {
    char sb[700]; seq_str(&root->ref, 0, root->ref.n, 1, sb, sizeof sb);
    vf_sample("%s -> [%s]", cs, sb);
  }
}

/* ---- the grids --------------------------------------------------------------------------------- */

static int maxn, amax, rmax, zmax, flmax, wide;

static struct node* base_node(int ck, int n) { struct node* b = mk(N_BASE); b->ck = ck; b->n = n; return b; }
static struct node* rangeN(int n) { struct node* r = mk(N_RANGE); r->ar = 1; r->a[1] = n; return r; }
/* an underlying iterable of kind ck (a container, or range(n) for K_RANGE) and length n */
static struct node* under(int ck, int n) { return ck == K_RANGE ? rangeN(n) : base_node(ck, n); }

static void phase_base(void) {
  for (int n = 0; n <= maxn; n++)
    for (int ck = 0; ck < NKINDS; ck++) { if (!kind_on[ck]) continue; npool = 0; run_case(base_node(ck, n)); }
  /* a Tuple holding the same object twice (every pair of positions) */
  for (int n = 2; n <= maxn && n <= 5; n++)
    for (int p = 0; p < n; p++) for (int q = p + 1; q < n; q++)
      for (int ck = K_TUPLE; ck <= K_HTUPLE; ck++) {
        if (!kind_on[ck]) continue;
        npool = 0; struct node* b = base_node(ck, n); b->dup_p = p; b->dup_q = q; run_case(b);
      }
}

/* argument domain: index 0 = omitted (_), then 0, 1, -1, 2, -2, ... (simplest first) */
static int dom_size(int m) { return 2 * m + 2; }
static void dom_get(int idx, int* om, int* v) {
  if (idx == 0) { *om = 1; *v = 0; return; }
  *om = 0; idx--; *v = (idx & 1) ? (idx + 1) / 2 : -(idx / 2);
}

static void phase_range(int heap) {
  int om, v, D = dom_size(rmax);
  npool = 0; { struct node* r = mk(N_RANGE); r->ar = 0; r->heap = heap; run_case(r); }
  for (int b = 1; b < D; b++) { npool = 0; struct node* r = mk(N_RANGE); r->ar = 1; r->heap = heap; dom_get(b, &om, &v); r->a[1] = v; run_case(r); }
  for (int ar = 2; ar <= 3; ar++)
    for (int c = 0; c < (ar == 3 ? D : 1); c++)
      for (int a = 0; a < D; a++)
        for (int b = 1; b < D; b++) {
          npool = 0; struct node* r = mk(N_RANGE); r->ar = ar; r->heap = heap;
          dom_get(a, &r->om[0], &r->a[0]); dom_get(b, &om, &r->a[1]);
          if (ar == 3) dom_get(c, &r->om[2], &r->a[2]);
          run_case(r);
        }
}

static void slices_over(int ck, int n, int heap, int bound) {
  int D = dom_size(bound);
  npool = 0; { struct node* s = mk(N_SLICE); s->ar = 0; s->heap = heap; s->nch = 1; s->ch[0] = under(ck, n); run_case(s); }
  if (!heap) { npool = 0; struct node* s = mk(N_SLICE); s->is_reverse = 1; s->ar = 3; s->nch = 1; s->ch[0] = under(ck, n); run_case(s); }
  for (int b = 0; b < D; b++) { npool = 0; struct node* s = mk(N_SLICE); s->ar = 1; s->heap = heap; s->nch = 1; s->ch[0] = under(ck, n); dom_get(b, &s->om[1], &s->a[1]); run_case(s); }
  for (int ar = 2; ar <= 3; ar++)
    for (int c = 0; c < (ar == 3 ? D : 1); c++)
      for (int a = 0; a < D; a++)
        for (int b = 0; b < D; b++) {
          npool = 0; struct node* s = mk(N_SLICE); s->ar = ar; s->heap = heap; s->nch = 1; s->ch[0] = under(ck, n);
          dom_get(a, &s->om[0], &s->a[0]); dom_get(b, &s->om[1], &s->a[1]);
          if (ar == 3) dom_get(c, &s->om[2], &s->a[2]);
          run_case(s);
        }
}

static void phase_slice(void) {
  for (int n = 0; n <= maxn; n++)
    for (int ck = 0; ck <= K_RANGE; ck++) { if (!kind_on[ck]) continue; slices_over(ck, n, 0, amax); }
}

static void phase_zip(void) {
  /* children: every enabled kind x every length 0..zmax */
  int opts[64][2], nopt = 0;
  for (int n = 0; n <= zmax; n++) for (int ck = 0; ck <= K_RANGE; ck++) if (kind_on[ck]) { opts[nopt][0] = ck; opts[nopt][1] = n; nopt++; }
  npool = 0; { struct node* z = mk(N_ZIP); run_case(z); }
  for (int i = 0; i < nopt; i++) { npool = 0; struct node* z = mk(N_ZIP); z->nch = 1; z->ch[0] = under(opts[i][0], opts[i][1]); run_case(z); }
  for (int i = 0; i < nopt; i++) for (int j = 0; j < nopt; j++) {
    npool = 0; struct node* z = mk(N_ZIP); z->nch = 2; z->ch[0] = under(opts[i][0], opts[i][1]); z->ch[1] = under(opts[j][0], opts[j][1]); run_case(z);
  }
  for (int i = 0; i < nopt; i++) for (int j = 0; j < nopt; j++) for (int l = 0; l < nopt; l++) {
    npool = 0; struct node* z = mk(N_ZIP); z->nch = 3;
    z->ch[0] = under(opts[i][0], opts[i][1]); z->ch[1] = under(opts[j][0], opts[j][1]); z->ch[2] = under(opts[l][0], opts[l][1]); run_case(z);
  }
  for (int n = 0; n <= maxn; n++) for (int ck = 0; ck <= K_RANGE; ck++) {
    if (!kind_on[ck]) continue;
    npool = 0; struct node* z = mk(N_ENUM); z->nch = 1; z->ch[0] = under(ck, n); run_case(z);
  }
}

static void phase_filter(int heap) {
  for (int n = 0; n <= flmax; n++) for (int ck = 0; ck <= K_RANGE; ck++) {
    if (!kind_on[ck]) continue;
    for (unsigned m = 0; m < (1u << n); m++) {
      npool = 0; struct node* f = mk(N_FILTER); f->nch = 1; f->heap = heap; f->ch[0] = under(ck, n); f->mask = m; run_case(f);
    }
  }
}

static void phase_map(int heap) {
  for (int n = 0; n <= maxn; n++) for (int ck = 0; ck <= K_RANGE; ck++) {
    if (!kind_on[ck]) continue;
    for (int fn = 0; fn < 2; fn++) { npool = 0; struct node* m = mk(N_MAP); m->nch = 1; m->heap = heap; m->ch[0] = under(ck, n); m->fn = fn; run_case(m); }
  }
}

/* the closed family of views used for compositions: view number v over a child; returns NULL when v is past the end */
struct sparam { int om[3], a[3]; };
static struct sparam sset[520]; static int nsset; static int cfull, cdepth;
static const unsigned fmasks[] = { 0x00, 0xff, 0xaa, 0x55, 0x66 };

static void init_sset(void) {
  nsset = 0;
  if (cfull) {
    /* the full grid {_, -3..3}^3 (simplest first) */
    for (int c = 0; c < 8; c++) for (int a = 0; a < 8; a++) for (int b = 0; b < 8; b++) {
      struct sparam p; dom_get(a, &p.om[0], &p.a[0]); dom_get(b, &p.om[1], &p.a[1]); dom_get(c, &p.om[2], &p.a[2]);
      sset[nsset++] = p;
    }
    return;
  }
  if (!wide) {
    static const struct sparam small[] = {
      {{1,1,1},{0,0,0}}, {{0,1,1},{1,0,0}}, {{1,0,1},{0,-1,0}}, {{0,0,1},{1,-1,0}}, {{1,1,0},{0,0,2}}, {{0,1,0},{1,0,2}},
      {{1,1,0},{0,0,-1}}, {{1,1,0},{0,0,-2}}, {{0,0,0},{0,3,1}}, {{0,1,0},{-3,0,1}}, {{0,0,0},{2,5,2}}, {{0,0,0},{1,4,-1}},
      {{1,1,0},{0,0,3}}, {{0,0,0},{1,-1,-2}},
    };
    for (size_t i = 0; i < sizeof small / sizeof small[0]; i++) sset[nsset++] = small[i];
    return;
  }
  static const int A[][2] = { {1,0}, {0,1}, {0,2}, {0,-2} };
  static const int B[][2] = { {1,0}, {0,-1}, {0,3}, {0,4} };
  static const int C[][2] = { {1,0}, {0,2}, {0,3}, {0,-1}, {0,-2} };
  for (int c = 0; c < 5; c++) for (int a = 0; a < 4; a++) for (int b = 0; b < 4; b++) {
    struct sparam p = { { A[a][0], B[b][0], C[c][0] }, { A[a][1], B[b][1], C[c][1] } };
    sset[nsset++] = p;
  }
}

/* number of views in the family; second = a sibling iterable for zips */
static int family_size(void) { return nsset + 5 + 2 + 3 + 1; }

static struct node* second_for(struct node* first, int shorter);

static struct node* clone_tree(struct node* nd) {
  struct node* c = mk(nd->kind); struct node* keep = c; int k = nd->kind;
  *c = *nd; (void)keep; (void)k;
  for (int i = 0; i < nd->nch; i++) c->ch[i] = clone_tree(nd->ch[i]);
  return c;
}

/* build view number v over child X (X must have len for slices / enumerate); NULL if not applicable */
static struct node* family_view(int v, struct node* X) {
  if (v < nsset) {
    if (!has_len(X)) return NULL;
    struct node* s = mk(N_SLICE); s->ar = 3; s->nch = 1; s->ch[0] = X;
    for (int i = 0; i < 3; i++) { s->om[i] = sset[v].om[i]; s->a[i] = sset[v].a[i]; }
    return s;
  }
  v -= nsset;
  if (v < 5) { struct node* f = mk(N_FILTER); f->nch = 1; f->ch[0] = X; f->mask = fmasks[v]; return f; }
  v -= 5;
  if (v < 2) { struct node* m = mk(N_MAP); m->nch = 1; m->ch[0] = X; m->fn = v; return m; }
  v -= 2;
  if (v < 3) {
    /* zip(X, list of the same length) / zip(shorter list, X) / zip(X, a second copy of the same expression over a shorter leaf) */
    struct node* z = mk(N_ZIP); z->nch = 2;
    struct node* lf = leaf_of(X); int n = lf->kind == N_BASE ? lf->n : lf->a[1];
    if (v == 0) { z->ch[0] = X; z->ch[1] = base_node(K_LIST, n); }
    if (v == 1) { z->ch[0] = base_node(K_LIST, n > 0 ? n - 1 : 0); z->ch[1] = X; }
    if (v == 2) { z->ch[0] = X; z->ch[1] = second_for(X, 1); }
    return z;
  }
  v -= 3;
  if (!has_len(X)) return NULL;
  struct node* e = mk(N_ENUM); e->nch = 1; e->ch[0] = X; return e;
}

static struct node* second_for(struct node* first, int shorter) {
  struct node* c = clone_tree(first);
  struct node* lf = leaf_of(c);
  if (lf->kind == N_BASE) { if (shorter && lf->n > 0) lf->n--; }
  else if (shorter && lf->a[1] > 0) lf->a[1]--;
  return c;
}

/* nesting depth 3 over the family without the cloning zip (at most four leaves per case) */
static void phase_compose3(void) {
  init_sset();
  int F = family_size(), ZC = nsset + 5 + 2 + 2;
  for (int n = 0; n <= maxn; n++) for (int ck = 0; ck <= K_RANGE; ck++) {
    if (!kind_on[ck]) continue;
    for (int vi = 0; vi < F; vi++) for (int vm = 0; vm < F; vm++) for (int vo = 0; vo < F; vo++) {
      if (vi == ZC || vm == ZC || vo == ZC) continue;
      npool = 0;
      struct node* inner = family_view(vi, under(ck, n));
      if (!inner) continue;
      struct node* mid = family_view(vm, inner);
      if (!mid) continue;
      struct node* outer = family_view(vo, mid);
      if (!outer) continue;
      run_case(outer);
    }
  }
}

static void phase_compose(void) {
  if (cdepth == 3) { phase_compose3(); return; }
  init_sset();
  int F = family_size();
  for (int n = 0; n <= maxn; n++) for (int ck = 0; ck <= K_RANGE; ck++) {
    if (!kind_on[ck]) continue;
    for (int vi = 0; vi < F; vi++) for (int vo = 0; vo < F; vo++) {
      npool = 0;
      struct node* inner = family_view(vi, under(ck, n));
      if (!inner) continue;
      struct node* outer = family_view(vo, inner);
      if (!outer) continue;
      run_case(outer);
    }
  }
}

/* the same views constructed on the heap with new() (same types, other constructor path) */
static void phase_heap(void) {
  phase_range(1);
  for (int n = 0; n <= maxn; n++) for (int ck = 0; ck <= K_RANGE; ck++) { if (!kind_on[ck]) continue; slices_over(ck, n, 1, amax); }
  phase_filter(1);
  phase_map(1);
  for (int n1 = 0; n1 <= zmax; n1++) for (int n2 = 0; n2 <= zmax; n2++) for (int c1 = 0; c1 <= K_RANGE; c1++) for (int c2 = 0; c2 <= K_RANGE; c2++) {
    if (!kind_on[c1] || !kind_on[c2]) continue;
    npool = 0; struct node* z = mk(N_ZIP); z->heap = 1; z->nch = 2; z->ch[0] = under(c1, n1); z->ch[1] = under(c2, n2); run_case(z);
  }
  npool = 0; { struct node* z = mk(N_ZIP); z->heap = 1; run_case(z); }
}

int main(int argc, char** argv) {
  vf_init(argc, argv);
  vf_set_init(&outcomes, 4096);
  for (int b = 0; b < 4; b++) for (int i = 0; i < MAXN; i++) elemobj[b][i] = new_raw(Int, $I(16 * b + i));
  for (int i = 0; i < IMGPOOL; i++) imgobj[i] = new_raw(Int, $I(-1));

  maxn = (int)vf_param_i("maxn", 6); if (maxn > MAXN) maxn = MAXN;
  amax = (int)vf_param_i("amax", 8);
  rmax = (int)vf_param_i("rmax", 7);
  zmax = (int)vf_param_i("zmax", 3);
  flmax = (int)vf_param_i("fmax", 5);
  wide = vf_param_is("cset", "wide", "small");
  cfull = vf_param_is("cset", "full", "small");
  cdepth = (int)vf_param_i("depth", 2);
  const char* ks = vf_param("kinds", "all");
  for (int k = 0; k <= K_RANGE; k++) {
    kind_on[k] = strcmp(ks, "all") == 0;
    const char* p = strstr(ks, kind_name[k]);
    /* "tuple" must not match inside "htuple" */
    while (p && !((p == ks || p[-1] == ',') && (p[strlen(kind_name[k])] == 0 || p[strlen(kind_name[k])] == ','))) p = strstr(p + 1, kind_name[k]);
    if (p) kind_on[k] = 1;
  }
  const char* ph = vf_param("phase", "base");
  if (strcmp(ph, "base") == 0) phase_base();
  else if (strcmp(ph, "range") == 0) phase_range(0);
  else if (strcmp(ph, "slice") == 0) phase_slice();
  else if (strcmp(ph, "zip") == 0) phase_zip();
  else if (strcmp(ph, "filter") == 0) phase_filter(0);
  else if (strcmp(ph, "map") == 0) phase_map(0);
  else if (strcmp(ph, "compose") == 0) phase_compose();
  else if (strcmp(ph, "heap") == 0) phase_heap();
  else { fprintf(stderr, "h_iter: unknown phase %s\n", ph); _exit(2); }
  alarm(0);
  vf_extra("judged_aspects", "%" PRIu64, judged_aspects);
  vf_extra("aspects_masked_by_a_failing_component", "%" PRIu64, masked_aspects);
  vf_extra("cases_judged_for_consistency_only", "%" PRIu64, unclear_cases);
  vf_extra("cases_out_of_contract_step0", "%" PRIu64, outofcontract_cases);
  if (vf.replay && vf.evaluations == 0) vf_note("replay: no case of this instance matches '%s'", vf.replay);
  vf_finish();
  return 0;
}
