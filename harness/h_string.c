/*
** h_string.c - explicit-state exploration of one heap String (C16; with prop=C12 the
** failed-operation self-loops are added on the same state graph).
**
** Parameters: mode=bfs|ladder|stack (ladder: maxn=N, see "ladder" below; stack: C12 grid of refused writes into stack Strings)
**             alpha=N (alphabet {a,b,c..} size 2..4)   maxlen=L (content bound)
**             ulen=K (operand strings: every string of length <= K, default 2)
**             hashop=1 ("light" mode: hash(s) is an operation, not a query of the state oracle)
**             bytes=<hex pairs> (the alphabet, e.g. bytes=c3af or bytes=80bfff; default a,b,c,d)   filler=hi (ladder payload of high bytes)
**             pct=1 (print_to formats containing "%%" join the alphabet); pct=2 (also %$ / show_to of the String "%" into the target)
**             prop=C16|C12    depth=N (0 = fixpoint)
**
** State: the content of the String (plus, under ASan, the exact size of its allocation,
** which the sanitizer's malloc_usable_size reports).  Reference: a char[] maintained
** with strcpy/strcat/strstr/memmove.  Oracle in every state: len, c_str, cmp/eq/neq/
** gt/lt against every string of the universe (both argument orders), hash against a
** fresh stack String and an independent MurmurHash64A, mem(u) for every operand, NUL
** terminator inside the allocation.
*/

#include "vf_bfs.h"
#include <malloc.h>

#define MAXU   160            /* operand strings */
#define REFCAP 64

static var* R;                /* stack-resident root slots */
#define S  (R[0])
static int S_managed;

static int A = 2, L = 5, UL = 2;
static unsigned char ALPHA[8] = { 'a', 'b', 'c', 'd' };   /* the letters; bytes=<hex pairs> replaces them (high bytes, UTF-8 sequences) */
static int hifill;           /* ladder: payload built from high bytes and multi-byte UTF-8 sequences */
static int propC12;
/* "light" mode (hashop=1): hash(s) is an explicit operation of the alphabet instead of a query of the
** state oracle, so that hash ; edit ; hash is a history of its own.  The state key then carries the
** length the string had when its hash was last asked (hq, -1 = not asked in this history): whatever
** the implementation remembers from a hash() call survives the edits that follow. */
static int hashop;
static int pct;                 /* pct=1: print_to formats containing "%%" are part of the alphabet (content then ranges over the letters and '%') */
static int hq = -1, hfresh = 0;
static char hq_text[64];
static var SENT;              /* another String, hashed at the start of every execution */

static char mdl[REFCAP];      /* the abstract string */

/* operand universe: every string of length <= UL over the alphabet, shortest first */
static char U[MAXU][8]; static int NU;
/* comparison universe: every string of length <= L (+ a few longer ones) */
static char (*UNI)[16]; static int NUNI;

static const char* lastkind = "init";
static char labelbuf[200];
static const char* LB(const char* oracle) {
  snprintf(labelbuf, sizeof labelbuf, "string/%s/%s", lastkind, oracle);
  return labelbuf;
}

/* ---- independent MurmurHash64A (Appleby), seed as used by the library ------------ */

static uint64_t murmur64a(const void* key, size_t len, uint64_t seed) {
  const uint64_t m = 0xc6a4a7935bd1e995ULL;
  const int r = 47;
  uint64_t h = seed ^ (len * m);
  const unsigned char* p = key;
  size_t nblocks = len / 8;
  for (size_t i = 0; i < nblocks; i++) {
    uint64_t k = 0;
    for (int b = 7; b >= 0; b--) k = (k << 8) | p[i * 8 + b];      /* little-endian load */
    k *= m; k ^= k >> r; k *= m;
    h ^= k; h *= m;
  }
  const unsigned char* t = p + nblocks * 8;
  size_t rem_ = len & 7;
  if (rem_) {
    for (size_t b = rem_; b-- > 0;) h ^= (uint64_t)t[b] << (8 * b);
    h *= m;
  }
  h ^= h >> r; h *= m; h ^= h >> r;
  return h;
}

static void gen_strings(char (*out)[16], int* n, int maxlen, int width) {
  /* shortest first, then lexicographic */
  *n = 0;
  for (int l = 0; l <= maxlen; l++) {
    int total = 1; for (int i = 0; i < l; i++) total *= A;
    for (int x = 0; x < total; x++) {
      char* s = (char*)out + (size_t)(*n) * width;
      int y = x;
      for (int i = l - 1; i >= 0; i--) { s[i] = (char)ALPHA[y % A]; y /= A; }
      s[l] = 0;
      (*n)++;
    }
  }
}

static char* sval(void) { return ((struct String*)S)->val; }

static void del_S(void) { if (!S) return; if (S_managed) del(S); else del_raw(S); S = NULL; }

static void reset(void) {
  S = new_raw(String, $S(""));
  S_managed = 0;
  mdl[0] = 0;
  lastkind = "init"; vf.phase = "string/init";
  /* every execution starts from the same "last String hashed": not this one */
  if (SENT) { volatile uint64_t hs = hash(SENT); (void)hs; }
  hq = -1; hfresh = 0; hq_text[0] = 0;
}

static void cleanup(void) {
  if (S) { var e = VF_CATCH(del_S()); (void)e; S = NULL; }
}

static size_t canon(char* buf, size_t cap) {
  char* v = sval();
  size_t us = v ? malloc_usable_size(v) : 0;
  size_t o = 0;
  if (!v) return snprintf(buf, cap, "(null)");
  /* never read past the allocation */
  size_t n = strnlen(v, us);
  o += snprintf(buf + o, cap - o, "\"");
  for (size_t i = 0; i < n && o + 8 < cap; i++) {
    unsigned char c = (unsigned char)v[i];
    if (c >= 0x20 && c < 0x7f && c != '"' && c != '\\') buf[o++] = (char)c;
    else o += snprintf(buf + o, cap - o, "\\x%02x", c);
  }
  o += snprintf(buf + o, cap - o, "\"%s", n == us ? "!unterminated" : "");
#ifdef VF_ASAN
  /* under ASan malloc_usable_size is exactly the requested size: a deterministic part of the concrete state */
  o += snprintf(buf + o, cap - o, " alloc=%zu", us);
#endif
  if (hashop) o += snprintf(buf + o, cap - o, " hash-last-asked-at-len=%d%s", hq, hq < 0 ? "" : hfresh ? ",not-edited-since" : ",edited-since");
  return o;
}

/* ---- state oracle ----------------------------------------------------------------- */

static int sign(int x) { return x > 0 ? 1 : x < 0 ? -1 : 0; }

static int check(void) {
  char* v = sval();
  if (!v) { vf_violation(LB("null-buffer"), NULL, "the String's buffer is NULL"); return 1; }
  size_t us = malloc_usable_size(v);
  size_t rl = strlen(mdl);
  if (memchr(v, 0, us) == NULL) {
    vf_violation(LB("not-terminated-in-allocation"), NULL, "no NUL among the %zu usable bytes of the allocation (abstract string \"%s\")", us, mdl);
    return 1;
  }
  if (us < rl + 1) {
    vf_violation(LB("allocation-too-small"), NULL, "allocation has %zu usable bytes, abstract string \"%s\" needs %zu", us, mdl, rl + 1);
    return 1;
  }
  volatile size_t l = 0; volatile char* cs = NULL;
  var e = VF_CATCH(l = len(S); cs = c_str(S));
  if (e) { vf_violation(LB("query-raises"), NULL, "len/c_str raised %s", vf_exc_name(e)); return 1; }
  if (strcmp((char*)cs, mdl) != 0) {
    char cb[256]; canon(cb, sizeof cb);
    vf_violation(LB("content"), NULL, "c_str is %s, the abstract string is \"%s\"", cb, mdl); return 1;
  }
  if (l != rl) { vf_violation(LB("len"), NULL, "len=%zu, strlen of the abstract string \"%s\" is %zu", (size_t)l, mdl, rl); return 1; }

  /* hash: the reference never goes through String_Hash - an independent MurmurHash64A of the model bytes
     and the library's hash_data over the model bytes; only afterwards a fresh stack String of the same
     content is hashed too.  In light mode hash is an operation of the alphabet and nothing here asks for a hash. */
  uint64_t h = 0;
  if (!hashop) {
    h = hash(S);
    uint64_t hm = murmur64a(mdl, rl, 0xCe110);
    uint64_t hd = hash_data(mdl, rl);
    if (h != hm) { vf_violation(LB("hash-not-murmur"), NULL, "hash(s)=%" PRIx64 " but MurmurHash64A(\"%s\", seed 0xCe110)=%" PRIx64, h, mdl, hm); return 1; }
    if (h != hd) { vf_violation(LB("hash-not-hash_data"), NULL, "hash(s)=%" PRIx64 " but hash_data(\"%s\")=%" PRIx64, h, mdl, hd); return 1; }
    uint64_t hf = hash($S(mdl));
    if (h != hf) { vf_violation(LB("hash-differs-from-fresh"), NULL, "hash(s)=%" PRIx64 " but hash($S(\"%s\"))=%" PRIx64, h, mdl, hf); return 1; }
    vf.evaluations++;
  }

  /* cmp / eq / neq / gt / lt / ge / le against the whole universe, both orders */
  for (int i = 0; i < NUNI; i++) {
    var o = $S(UNI[i]);
    int want = sign(strcmp(mdl, UNI[i]));
    int c1 = cmp(S, o), c2 = cmp(o, S);
    if (sign(c1) != want || sign(c2) != -want) {
      vf_violation(LB("cmp"), NULL, "cmp(\"%s\",\"%s\")=%d cmp(reversed)=%d, strcmp gives sign %d", mdl, UNI[i], c1, c2, want); return 1;
    }
    bool q = eq(S, o), nq = neq(S, o), g = gt(S, o), lt_ = lt(S, o), ge_ = ge(S, o), le_ = le(S, o);
    if (q != (want == 0) || nq != (want != 0) || eq(o, S) != (want == 0)) {
      vf_violation(LB("eq"), NULL, "eq(\"%s\",\"%s\")=%d neq=%d, strcmp gives sign %d", mdl, UNI[i], (int)q, (int)nq, want); return 1;
    }
    if (g != (want > 0) || lt_ != (want < 0) || ge_ != (want >= 0) || le_ != (want <= 0)) {
      vf_violation(LB("order-predicates"), NULL, "gt/lt/ge/le(\"%s\",\"%s\") = %d/%d/%d/%d, strcmp gives sign %d", mdl, UNI[i], (int)g, (int)lt_, (int)ge_, (int)le_, want); return 1;
    }
    if (!hashop && want == 0 && hash(o) != h) { vf_violation(LB("hash-of-equal"), NULL, "eq strings hash differently"); return 1; }
    vf.evaluations++;
  }

  /* mem(u) == (strstr != NULL) for every operand; mem of the whole string */
  for (int i = 0; i < NU; i++) {
    volatile bool m = false;
    e = VF_CATCH(m = mem(S, $S(U[i])));
    if (e) { vf_violation(LB("mem-raises"), NULL, "mem(\"%s\",\"%s\") raised %s", mdl, U[i], vf_exc_name(e)); return 1; }
    bool want = strstr(mdl, U[i]) != NULL;
    if ((bool)m != want) { vf_violation(LB("mem"), NULL, "mem(\"%s\",\"%s\")=%d, strstr says %d", mdl, U[i], (int)m, (int)want); return 1; }
    vf.evaluations++;
  }
  if (!mem(S, $S(mdl))) { vf_violation(LB("mem-self-value"), NULL, "mem(s, equal string) is false for \"%s\"", mdl); return 1; }
  {
    /* a string one character longer is never a substring */
    char longer[REFCAP]; snprintf(longer, sizeof longer, "%sa", mdl);
    if (mem(S, $S(longer))) { vf_violation(LB("mem-longer"), NULL, "mem(\"%s\",\"%s\") is true", mdl, longer); return 1; }
  }
  /* the content is still what it was: queries do not modify */
  if (strcmp(sval(), mdl) != 0) { vf_violation(LB("query-modified"), NULL, "a query changed the string"); return 1; }
  return 0;
}

/* ---- alphabet ---------------------------------------------------------------------- */

/*
** op layout (simplest first):
**   [0, NU)            assign(u)
**   [NU, 2NU)          concat(u)
**   [2NU, 3NU)         append(u)
**   [3NU, 4NU)         rem(u)
**   [4NU, 4NU+L+3)     resize(n), n = 0 .. L+2   (enabled when n <= len+2)
**   then (L+1)*NU      print_to(self, pos, "%s", u), pos = 0..L (enabled when pos <= len)
**   then NMISC         copy-replace, assign-from-heap-equal, ... and the C12 failing operations
*/
enum { M_COPY, M_ASSIGN_INTO_FRESH, M_ASSIGN_EQUAL_VALUE, M_CONCAT_EQUAL_VALUE, M_REM_EQUAL_VALUE,
       M_ASSIGN_SELF, M_CONCAT_SELF, M_REM_SELF, M_HASH,
       M_PCT_FIRST, M_PCT_LAST = M_PCT_FIRST + 9,       /* print_to with "%%" in the format: 5 formats x {at the end, at 0} */
       M_SHOWPCT_END, M_SHOWPCT_START, M_SHOWPCT_SHOW_TO,  /* pct=2: a String argument "%" shown into the target */
       F_ASSIGN_NULL, F_CONCAT_NULL, F_APPEND_NULL, F_ASSIGN_INT, F_CONCAT_INT, F_APPEND_INT,
       F_REM_NULL, F_MEM_NULL, F_REM_INT, F_MEM_INT, F_GET, F_SET, F_PRINT_NOARGS,
       NMISC };

static int base_resize(void) { return 4 * NU; }
static int base_print(void) { return 4 * NU + L + 3; }
static int base_misc(void) { return base_print() + (L + 1) * NU; }
static int nops_total(void) { return base_misc() + NMISC; }

static const char* miscname[] = { "s=copy(s)", "s=assign(new String,s)", "assign(s, heap string of equal value)", "concat(s, heap string of equal value)",
  "rem(s, string of equal value)", "assign(s,s)", "concat(s,s)", "rem(s,s)", "hash(s)",
  "print_to(s,len,\"%%\")", "print_to(s,len,\"%%%s\",\"a\")", "print_to(s,len,\"%s%%\",\"a\")", "print_to(s,len,\"%%%%\")", "print_to(s,len,\"%s%%%s\",\"a\",\"b\")",
  "print_to(s,0,\"%%\")", "print_to(s,0,\"%%%s\",\"a\")", "print_to(s,0,\"%s%%\",\"a\")", "print_to(s,0,\"%%%%\")", "print_to(s,0,\"%s%%%s\",\"a\",\"b\")",
  "print_to(s,len,\"%$\",String \"%\")", "print_to(s,0,\"%$\",String \"%\")", "show_to(String \"%\",s,len)",
  "assign(s,NULL)", "concat(s,NULL)", "append(s,NULL)", "assign(s,Int)", "concat(s,Int)", "append(s,Int)",
  "rem(s,NULL)", "mem(s,NULL)", "rem(s,Int)", "mem(s,Int)", "get(s,0)", "set(s,len+1,\"a\")", "print_to(s,len,\"%s\") no argument" };

static const char* vis(const char* s_) {
  /* operand for display: bytes outside printable ASCII as \xNN */
  static char b[4][64]; static int k; char* o = b[k = (k + 1) & 3]; size_t n = 0;
  for (; *s_ && n + 6 < 64; s_++) { unsigned char c = (unsigned char)*s_; if (c >= 0x20 && c < 0x7f) o[n++] = (char)c; else n += (size_t)snprintf(o + n, 64 - n, "\\x%02x", c); }
  o[n] = 0; return o;
}

static void opname(int op, char* buf, size_t cap) {
  if (op < 4 * NU) {
    static const char* nm[] = { "assign", "concat", "append", "rem" };
    snprintf(buf, cap, "%s(\"%s\")", nm[op / NU], vis(U[op % NU])); return;
  }
  if (op < base_print()) { snprintf(buf, cap, "resize(%d)", op - base_resize()); return; }
  if (op < base_misc()) { int k = op - base_print(); snprintf(buf, cap, "print_to(s,%d,\"%%s\",\"%s\")", k / NU, vis(U[k % NU])); return; }
  snprintf(buf, cap, "%s", miscname[op - base_misc()]);
}

/* ---- crash probe: run one operation on the current object in a forked child ----------
** rem (and the aliasing operations) can die inside libc (strlen(NULL), memmove with a
** negative size).  Killing the explorer at the first such state would hide every other
** defect, so these operations are first tried in a child that shares the current state;
** if the child dies the transition is recorded as a violation and the state is terminal,
** otherwise the operation is executed for real in the explorer.                          */

static int do_probe = 1, alias = 0;
static volatile unsigned char* probe_done;
static int in_probe_child;

#ifndef VF_ASAN
/*
** Without a sanitizer a memmove whose size has wrapped around below zero does not always
** fault: glibc may copy *backwards* from the wrapped end and silently trash the heap in
** front of the buffer, in the probe child and afterwards in the explorer alike.  The
** library's calls to memmove are therefore routed through this definition (it takes
** precedence over libc's for the statically linked libCello.a), which turns a size above
** 2^30 into a definite outcome.  (The ASan build has its own interceptor for this.)
*/
void* memmove(void* dst, const void* src, size_t n) {
  if (n > ((size_t)1 << 30)) {
    if (in_probe_child && probe_done) { probe_done[2] = 1; _exit(0); }
    /* outside a probe (replay): same label, and the run ends here as it would for a crash */
    vf.aborted = 1;
    vf_violation(LB("memmove-size-wrapped"), NULL, "memmove called with size %zu (wrapped around below zero) on \"%s\"", n, mdl);
    vf_write();
    _exit(0);
  }
  unsigned char* d = dst; const unsigned char* s_ = src;
  if (d < s_) { for (size_t i = 0; i < n; i++) d[i] = s_[i]; }
  else if (d > s_) { for (size_t i = n; i-- > 0;) d[i] = s_[i]; }
  return dst;
}
#endif
static int probe_kind; static const char* probe_arg;
static uint64_t nprobes;

static void probe_child(void* unused) {
  (void)unused;
  /* a sanitizer report in the child must not clobber the result file, and need not be
     printed and symbolised (15 ms each): vf.h's report hook ends the process with status 2
     when the result file cannot be opened.  A replay runs without probes and shows the report. */
  vf.out = "/nonexistent-dir/probe-child";
  in_probe_child = 1;
  { int fd = open("/dev/null", O_WRONLY); if (fd >= 0) { dup2(fd, 2); close(fd); } }
  var e = NULL;
  if (probe_kind == -1) e = VF_CATCH(rem(S, $S((char*)probe_arg)));
  else if (probe_kind == M_ASSIGN_SELF) e = VF_CATCH(assign(S, S));
  else if (probe_kind == M_CONCAT_SELF) e = VF_CATCH(concat(S, S));
  else if (probe_kind == M_REM_SELF) e = VF_CATCH(rem(S, S));
  else if (probe_kind == M_REM_EQUAL_VALUE) { var t = new_raw(String, $S(mdl)); e = VF_CATCH(rem(S, t)); del_raw(t); }
  (void)e;
  /* hand the result to the explorer: a wrong result may come with a trashed heap (memmove with a
     wrapped-around size does not always fault), so the explorer must not repeat such an operation */
  char* v = sval();
  if (!v) probe_done[1] = 1;
  else {
    size_t us = malloc_usable_size(v); size_t n = strnlen(v, us);
    if (n == us) probe_done[1] = 2;
    if (n > 200) n = 200;
    memcpy((char*)probe_done + 8, v, n); probe_done[8 + n] = 0;
  }
  probe_done[0] = 1;
}

/* after a successful probe: does the child's result equal the expected string? records a violation if not */
static int probe_result_wrong(const char* expect, const char* what) {
  if (!do_probe) return 0;
  if (probe_done[1] == 1) { vf_violation(LB("null-buffer"), NULL, "%s on \"%s\" left the String with a NULL buffer (observed in a child process sharing this state)", what, mdl); return 1; }
  if (probe_done[1] == 2) { vf_violation(LB("not-terminated-in-allocation"), NULL, "%s on \"%s\" left no NUL inside the allocation (observed in a child process sharing this state)", what, mdl); return 1; }
  if (strcmp((char*)probe_done + 8, expect) != 0) {
    vf_violation(LB("wrong-result"), NULL, "%s on \"%s\" left \"%s\"; expected \"%s\" (observed in a child process sharing this state)", what, mdl, (char*)probe_done + 8, expect);
    return 1;
  }
  return 0;
}

static const char* probe(void (*fn)(void*)) {
  if (!do_probe) return NULL;
  if (!probe_done) probe_done = mmap(NULL, 4096, PROT_READ | PROT_WRITE, MAP_SHARED | MAP_ANONYMOUS, -1, 0);
  memset((void*)probe_done, 0, 256);
  nprobes++;
  struct vf_child c = vf_fork_run(fn, NULL, 20);
  static char sym[64];
  if (c.timed_out) return "crash/hang";
  if (c.signaled) { snprintf(sym, sizeof sym, "crash/%s", c.sig == SIGSEGV ? "SIGSEGV" : c.sig == SIGABRT ? "SIGABRT" : c.sig == SIGBUS ? "SIGBUS" : "signal"); return sym; }
  if (probe_done[2]) return "memmove-size-wrapped";   /* memmove asked to move more than 2^30 bytes */
  if (!*probe_done) return "sanitizer/report";      /* left without finishing: the ASan/UBSan hook fired */
  return NULL;
}

static const char* where_of(const char* hay, const char* needle) {
  /* feature of a rem/mem operand relative to the target, for labels */
  size_t hl = strlen(hay), nl = strlen(needle);
  const char* p = strstr(hay, needle);
  if (nl == 0) return "empty";
  if (!p) return "absent";
  if (nl == hl) return "whole";
  if (p + nl == hay + hl) return "suffix";         /* first occurrence ends the string */
  if (p == hay) return "prefix";
  return "middle";
}

static int expect_fail(var e, var a1, var a2, var a3, int optional, const char* what, const char* before) {
  char after[512];
  if (e == NULL && !optional) { vf_violation(LB("no-exception"), NULL, "%s did not raise (\"%s\")", what, mdl); return VF_BAD; }
  if (e != NULL && e != a1 && e != a2 && e != a3) { vf_violation(LB("wrong-exception"), NULL, "%s raised %s", what, vf_exc_name(e)); return VF_BAD; }
  canon(after, sizeof after);
  if (strcmp(before, after) != 0) {
    vf_violation(LB("state-changed"), NULL, "%s %s but changed the string: %s -> %s", what, e ? "raised" : "returned", before, after); return VF_BAD;
  }
  if (len(current(Exception)) != 0) { vf_violation(LB("exception-depth"), NULL, "%s: exception depth not restored", what); return VF_BAD; }
  return VF_OK;
}

static char phasebuf[96];
static void setkind(const char* k) {
  /* the kind of the operation in progress: prefix of every label, and of the label of a crash */
  lastkind = k;
  snprintf(phasebuf, sizeof phasebuf, "string/%s", k);
  vf.phase = phasebuf;
}

/*
** In light mode (hashop=1) operations run WITHOUT a try block: entering and leaving one looks the
** Exception object up in the thread-local Table, i.e. hashes another String between any two
** operations, which would hide anything String_Hash remembers about this one.  Only operations that
** must succeed are enabled there; an exception would end the process (reported as a dead harness).
*/
#define RUN(stmt) (hashop ? ({ stmt; (var)NULL; }) : VF_CATCH(stmt))

static int apply_inner(int op) {
  var e;
  char before[512];
  size_t rl = strlen(mdl);

  if (op < NU) {                                            /* assign(u) */
    const char* u = U[op];
    setkind("assign");
    e = RUN(assign(S, $S((char*)u)));
    if (e) { vf_violation(LB("raises"), NULL, "assign(\"%s\", \"%s\") raised %s", mdl, u, vf_exc_name(e)); return VF_BAD; }
    strcpy(mdl, u);
    return VF_OK;
  }
  if (op < 3 * NU) {                                        /* concat(u) / append(u) */
    int app = op >= 2 * NU;
    const char* u = U[op % NU];
    if (rl + strlen(u) > (size_t)L) return VF_SKIP;
    setkind(app ? "append" : "concat");
    if (app) e = RUN(append(S, $S((char*)u))); else e = RUN(concat(S, $S((char*)u)));
    if (e) { vf_violation(LB("raises"), NULL, "%s(\"%s\", \"%s\") raised %s", lastkind, mdl, u, vf_exc_name(e)); return VF_BAD; }
    strcat(mdl, u);
    return VF_OK;
  }
  if (op < 4 * NU) {                                        /* rem(u) */
    const char* u = U[op % NU];
    static char kind[64];
    const char* w = where_of(mdl, u);
    snprintf(kind, sizeof kind, "rem-%s", w);
    setkind(kind);
    char* p = strstr(mdl, u);
    if (propC12 && p != NULL) return VF_SKIP;
    if (hashop && p == NULL) return VF_SKIP;   /* light mode runs without try blocks: only operations that must succeed */   /* removing a present substring is a valid operation: judged by C16, not repeated here */
    {
      probe_kind = -1; probe_arg = u;
      const char* sym = probe(probe_child);
      if (sym) {
        vf_violation(LB(sym), NULL, "rem(\"%s\", \"%s\") (%s substring): %s in a child process sharing this state", mdl, u, w, sym);
        return VF_BAD;
      }
    }
    {
      char exp0[REFCAP]; strcpy(exp0, mdl);
      if (p) { size_t off0 = (size_t)(p - mdl); strcpy(exp0 + off0, p + strlen(u)); }
      char what[64]; snprintf(what, sizeof what, "rem(s, \"%s\") (%s substring)", u, w);
      if (probe_result_wrong(exp0, what)) { strcpy(mdl, exp0); return VF_BAD; }
    }
    if (p == NULL) {
      /* absent: the string must be left unchanged; an exception is optional (ValueError|KeyError) */
      canon(before, sizeof before);
      e = RUN(rem(S, $S((char*)u)));
      return expect_fail(e, ValueError, KeyError, KeyError, 1, "rem of an absent substring", before);
    }
    e = RUN(rem(S, $S((char*)u)));
    if (e) { vf_violation(LB("raises"), NULL, "rem(\"%s\", \"%s\") of a present substring raised %s", mdl, u, vf_exc_name(e)); return VF_BAD; }
    {
      char exp[REFCAP]; size_t ul = strlen(u);
      size_t off = (size_t)(p - mdl);
      memcpy(exp, mdl, off); strcpy(exp + off, p + ul);
      char* v = sval(); size_t us = malloc_usable_size(v);
      if (memchr(v, 0, us) && strcmp(v, exp) != 0) {
        vf_violation(LB("wrong-result"), NULL, "rem(\"%s\", \"%s\") left \"%s\"; deleting the first occurrence gives \"%s\"", mdl, u, v, exp);
        strcpy(mdl, exp);
        return VF_BAD;
      }
      strcpy(mdl, exp);
    }
    return VF_OK;
  }
  if (op < base_print()) {                                  /* resize(n) */
    size_t n = (size_t)(op - base_resize());
    if (n > rl + 2) return VF_SKIP;
    setkind(n < rl ? "resize-shrink" : n == rl ? "resize-same" : "resize-grow");
    e = RUN(resize(S, n));
    if (e) { vf_violation(LB("raises"), NULL, "resize(\"%s\", %zu) raised %s", mdl, n, vf_exc_name(e)); return VF_BAD; }
    if (n <= rl) { mdl[n] = 0; return VF_OK; }
    /*
    ** growth: the property does not say what the new positions hold (this implementation
    ** fills with NUL, i.e. the C string is unchanged).  Required: terminated inside the
    ** allocation, room for n characters, old content preserved as a prefix, length <= n.
    */
    {
      char* v = sval(); size_t us = malloc_usable_size(v);
      if (us < n + 1) { vf_violation(LB("allocation-too-small"), NULL, "after resize(%zu) the allocation has %zu usable bytes", n, us); return VF_BAD; }
      if (!memchr(v, 0, us)) { vf_violation(LB("not-terminated-in-allocation"), NULL, "after resize(%zu) of \"%s\" no NUL inside the allocation", n, mdl); return VF_BAD; }
      size_t nl = strlen(v);
      if (nl < rl || nl > n || memcmp(v, mdl, rl) != 0) {
        vf_violation(LB("prefix-lost"), NULL, "resize(%zu) of \"%s\" gave \"%s\" (prefix must be preserved, length within [%zu,%zu])", n, mdl, v, rl, n); return VF_BAD;
      }
      if (nl >= REFCAP) return VF_BAD;
      strcpy(mdl, v);         /* adopt whatever padding convention the implementation has */
    }
    return VF_OK;
  }
  if (op < base_misc()) {                                   /* print_to(self, pos, "%s", u) */
    int k = op - base_print();
    size_t pos = (size_t)(k / NU);
    const char* u = U[k % NU];
    if (pos > rl) return VF_SKIP;
    if (pos + strlen(u) > (size_t)L) return VF_SKIP;
    setkind(pos == rl ? "print_to-at-end" : pos == 0 ? "print_to-at-start" : "print_to-inside");
    volatile int ret = -12345;
    e = RUN(ret = print_to(S, (int)pos, "%s", $S((char*)u)));
    if (e) { vf_violation(LB("raises"), NULL, "print_to(\"%s\", %zu, \"%%s\", \"%s\") raised %s", mdl, pos, u, vf_exc_name(e)); return VF_BAD; }
    strcpy(mdl + pos, u);
    if (ret != (int)(pos + strlen(u))) {
      vf_violation(LB("returned-position"), NULL, "print_to at %zu of \"%s\" returned %d, expected %zu", pos, u, (int)ret, pos + strlen(u)); return VF_BAD;
    }
    return VF_OK;
  }

  int m = op - base_misc();
  switch (m) {
  case M_COPY:
    setkind("copy");
    e = RUN(R[1] = copy(S));
    if (e) { vf_violation(LB("raises"), NULL, "copy raised %s", vf_exc_name(e)); return VF_BAD; }
    if (R[1] == S || sval() == ((struct String*)R[1])->val) { vf_violation(LB("copy-shares-buffer"), NULL, "copy shares the original's buffer"); return VF_BAD; }
    del_S(); S = R[1]; R[1] = NULL; S_managed = 1;
    return VF_OK;
  case M_ASSIGN_INTO_FRESH:
    setkind("assign-into-fresh");
    R[1] = new_raw(String, $S("bbbbbbbb"));
    e = RUN(assign(R[1], S));
    if (e) { vf_violation(LB("raises"), NULL, "assign raised %s", vf_exc_name(e)); del_raw(R[1]); R[1] = NULL; return VF_BAD; }
    del_S(); S = R[1]; R[1] = NULL; S_managed = 0;
    return VF_OK;
  case M_ASSIGN_EQUAL_VALUE: case M_CONCAT_EQUAL_VALUE: case M_REM_EQUAL_VALUE:
    /* a distinct heap String equal in value to the target */
    if (m == M_CONCAT_EQUAL_VALUE && 2 * rl > (size_t)L) return VF_SKIP;
    if (m == M_REM_EQUAL_VALUE && propC12) return VF_SKIP;
    setkind(m == M_ASSIGN_EQUAL_VALUE ? "assign-equal-value" : m == M_CONCAT_EQUAL_VALUE ? "concat-equal-value" : "rem-equal-value");
    if (m == M_REM_EQUAL_VALUE) {
      probe_kind = m; probe_arg = NULL;
      const char* sym = probe(probe_child);
      if (sym) { vf_violation(LB(sym), NULL, "rem(s, heap string of equal value) on \"%s\": %s in a child process sharing this state", mdl, sym); return VF_BAD; }
      if (probe_result_wrong("", "rem(s, heap string of equal value)")) { mdl[0] = 0; return VF_BAD; }
    }
    R[1] = new_raw(String, $S(mdl));
    if (m == M_ASSIGN_EQUAL_VALUE) e = RUN(assign(S, R[1]));
    else if (m == M_CONCAT_EQUAL_VALUE) e = RUN(concat(S, R[1]));
    else e = RUN(rem(S, R[1]));
    {
      int argbad = strcmp(c_str(R[1]), mdl) != 0;
      del_raw(R[1]); R[1] = NULL;
      if (e) { vf_violation(LB("raises"), NULL, "%s raised %s on \"%s\"", lastkind, vf_exc_name(e), mdl); return VF_BAD; }
      if (argbad) { vf_violation(LB("argument-modified"), NULL, "%s modified its argument", lastkind); return VF_BAD; }
    }
    if (m == M_REM_EQUAL_VALUE) {
      char* v = sval(); size_t us = malloc_usable_size(v);
      if (memchr(v, 0, us) && v[0] != 0) {
        vf_violation(LB("wrong-result"), NULL, "rem(s, heap string of equal value) on \"%s\" left \"%s\"; expected \"\"", mdl, v);
        mdl[0] = 0; return VF_BAD;
      }
    }
    if (m == M_CONCAT_EQUAL_VALUE) { char t[REFCAP]; strcpy(t, mdl); strcat(mdl, t); }
    if (m == M_REM_EQUAL_VALUE) mdl[0] = 0;
    return VF_OK;
  case M_PCT_FIRST: case M_PCT_FIRST + 1: case M_PCT_FIRST + 2: case M_PCT_FIRST + 3: case M_PCT_FIRST + 4:
  case M_PCT_FIRST + 5: case M_PCT_FIRST + 6: case M_PCT_FIRST + 7: case M_PCT_FIRST + 8: case M_PCT_LAST: {
    /* a literal percent sign in a formatted write: alone, leading, trailing, doubled, between two conversions */
    if (!pct) return VF_SKIP;
    static const char* pf[5] = { "%%", "%%%s", "%s%%", "%%%%", "%s%%%s" };
    static const char* pk[5] = { "alone", "leading", "trailing", "doubled", "between-conversions" };
    int k = (m - M_PCT_FIRST) % 5, at0 = (m - M_PCT_FIRST) >= 5;
    size_t pos = at0 ? 0 : rl;
    if (at0 && rl == 0) return VF_SKIP;          /* same as "at the end" */
    char outb[16];
    int on = k == 4 ? snprintf(outb, sizeof outb, pf[k], "a", "b") : (k == 1 || k == 2) ? snprintf(outb, sizeof outb, pf[k], "a") : snprintf(outb, sizeof outb, pf[k], "");
    if (pos + (size_t)on > (size_t)L) return VF_SKIP;
    static char kind[64]; snprintf(kind, sizeof kind, "print_to-percent-%s-%s", pk[k], at0 ? "at-start" : "at-end");
    setkind(kind);
    volatile int ret = -12345;
    if (k == 4) e = RUN(ret = print_to(S, (int)pos, "%s%%%s", $S("a"), $S("b")));
    else if (k == 1) e = RUN(ret = print_to(S, (int)pos, "%%%s", $S("a")));
    else if (k == 2) e = RUN(ret = print_to(S, (int)pos, "%s%%", $S("a")));
    else if (k == 0) e = RUN(ret = print_to(S, (int)pos, "%%"));
    else e = RUN(ret = print_to(S, (int)pos, "%%%%"));
    if (e) { vf_violation(LB("raises"), NULL, "print_to(\"%s\", %zu, \"%s\", ...) raised %s", mdl, pos, pf[k], vf_exc_name(e)); return VF_BAD; }
    strcpy(mdl + pos, outb);
    if (ret != (int)(pos + (size_t)on)) {
      vf_violation(LB("returned-position"), NULL, "print_to at %zu with format \"%s\" wrote \"%s\" and returned %d, expected %zu", pos, pf[k], outb, (int)ret, pos + (size_t)on); return VF_BAD;
    }
    return VF_OK; }
  case M_SHOWPCT_END: case M_SHOWPCT_START: case M_SHOWPCT_SHOW_TO: {
    /* the String "%" shown into the target: its C literal, quote percent quote, must arrive */
    if (pct < 2) return VF_SKIP;
    size_t pos = m == M_SHOWPCT_START ? 0 : rl;
    if (m == M_SHOWPCT_START && rl == 0) return VF_SKIP;
    if (pos + 3 > (size_t)L) return VF_SKIP;
    setkind(m == M_SHOWPCT_END ? "print_to-%$-String-with-percent-at-end" : m == M_SHOWPCT_START ? "print_to-%$-String-with-percent-at-start" : "show_to-String-with-percent-at-end");
    volatile int ret = -12345;
    if (m == M_SHOWPCT_SHOW_TO) e = RUN(ret = show_to($S("%"), S, (int)pos));
    else e = RUN(ret = print_to(S, (int)pos, "%$", $S("%")));
    if (e) { vf_violation(LB("raises"), NULL, "showing the String \"%%\" into \"%s\" at %zu raised %s", mdl, pos, vf_exc_name(e)); return VF_BAD; }
    strcpy(mdl + pos, "\"%\"");
    if (ret != (int)pos + 3) { vf_violation(LB("returned-position"), NULL, "showing the String \"%%\" at %zu returned %d, expected %zu", pos, (int)ret, pos + 3); return VF_BAD; }
    return VF_OK; }
  case M_HASH: {
    /* explicit query (light mode): compared with references that never call String_Hash */
    if (!hashop) return VF_SKIP;
    static char kind[96]; static char prev[64];
    snprintf(prev, sizeof prev, "%s", lastkind);
    if (strncmp(prev, "hash-after-", 11) == 0) memmove(prev, prev + 11, strlen(prev + 11) + 1);
    snprintf(kind, sizeof kind, "hash-after-%s", prev);
    setkind(kind);
    volatile uint64_t h = 0;
    e = RUN(h = hash(S));
    if (e) { vf_violation(LB("raises"), NULL, "hash raised %s", vf_exc_name(e)); return VF_BAD; }
    uint64_t hm = murmur64a(mdl, rl, 0xCe110), hd = hash_data(mdl, rl);
    if (h != hm || h != hd) {
      int stale = hq >= 0 && h == murmur64a(hq_text, strlen(hq_text), 0xCe110);
      vf_violation(LB(stale ? "stale-hash-of-earlier-content" : "wrong-hash"), NULL,
        "hash(s)=%" PRIx64 " for \"%s\"; MurmurHash64A / hash_data of these bytes is %" PRIx64 "%s%s%s", (uint64_t)h, mdl, hm,
        stale ? " - it is the hash of \"" : "", stale ? hq_text : "", stale ? "\", the content when hash was last asked" : "");
      return VF_BAD;
    }
    hq = (int)rl; hfresh = 1; snprintf(hq_text, sizeof hq_text, "%s", mdl);
    vf.evaluations++;
    return VF_OK; }
  case M_ASSIGN_SELF: case M_CONCAT_SELF: case M_REM_SELF: {
    /* the argument IS the target (aliasing); only explored with alias=1 */
    if (!alias) return VF_SKIP;
    if (m == M_CONCAT_SELF && 2 * rl > (size_t)L) return VF_SKIP;
    setkind(m == M_ASSIGN_SELF ? "assign-self" : m == M_CONCAT_SELF ? "concat-self" : "rem-self");
    probe_kind = m; probe_arg = NULL;
    const char* sym = probe(probe_child);
    if (sym) { vf_violation(LB(sym), NULL, "%s on \"%s\": %s", miscname[m], mdl, sym); return VF_BAD; }
    {
      char exp0[REFCAP]; strcpy(exp0, mdl);
      if (m == M_CONCAT_SELF) strcat(exp0, mdl);
      if (m == M_REM_SELF) exp0[0] = 0;
      if (probe_result_wrong(exp0, miscname[m])) return VF_BAD;
    }
    if (m == M_ASSIGN_SELF) e = RUN(assign(S, S));
    else if (m == M_CONCAT_SELF) e = RUN(concat(S, S));
    else e = RUN(rem(S, S));
    if (e) { vf_violation(LB("raises"), NULL, "%s raised %s on \"%s\"", lastkind, vf_exc_name(e), mdl); return VF_BAD; }
    if (m == M_REM_SELF) {
      char* v = sval(); size_t us = malloc_usable_size(v);
      if (memchr(v, 0, us) && v[0] != 0) {
        vf_violation(LB("wrong-result"), NULL, "rem(s,s) on \"%s\" left \"%s\"; expected \"\"", mdl, v);
        mdl[0] = 0; return VF_BAD;
      }
    }
    if (m == M_CONCAT_SELF) { char t[REFCAP]; strcpy(t, mdl); strcat(mdl, t); }
    if (m == M_REM_SELF) mdl[0] = 0;
    return VF_OK; }
  default: break;
  }

  if (!propC12) return VF_SKIP;
  canon(before, sizeof before);
  switch (m) {
  case F_ASSIGN_NULL:
    setkind("assign-null");
    e = VF_CATCH(assign(S, NULL));
    return expect_fail(e, ValueError, ValueError, ValueError, 0, "assign(s, NULL)", before);
  case F_CONCAT_NULL:
    setkind("concat-null");
    e = VF_CATCH(concat(S, NULL));
    return expect_fail(e, ValueError, ValueError, ValueError, 0, "concat(s, NULL)", before);
  case F_APPEND_NULL:
    setkind("append-null");
    e = VF_CATCH(append(S, NULL));
    return expect_fail(e, ValueError, ValueError, ValueError, 0, "append(s, NULL)", before);
  case F_ASSIGN_INT:
    setkind("assign-wrong-type");
    e = VF_CATCH(assign(S, $I(5)));
    return expect_fail(e, ClassError, ValueError, TypeError, 0, "assign(s, Int) (Int has no C_Str)", before);
  case F_CONCAT_INT:
    setkind("concat-wrong-type");
    e = VF_CATCH(concat(S, $I(5)));
    return expect_fail(e, ClassError, ValueError, TypeError, 0, "concat(s, Int)", before);
  case F_APPEND_INT:
    setkind("append-wrong-type");
    e = VF_CATCH(append(S, $I(5)));
    return expect_fail(e, ClassError, ValueError, TypeError, 0, "append(s, Int)", before);
  case F_REM_NULL:
    setkind("rem-null");
    e = VF_CATCH(rem(S, NULL));
    return expect_fail(e, ValueError, ValueError, ValueError, 0, "rem(s, NULL)", before);
  case F_MEM_NULL:
    setkind("mem-null");
    e = VF_CATCH(mem(S, NULL));
    return expect_fail(e, ValueError, ValueError, ValueError, 0, "mem(s, NULL)", before);
  case F_REM_INT:
    /* an Int is never a substring: nothing may change; an exception is optional */
    setkind("rem-wrong-type");
    e = VF_CATCH(rem(S, $I(5)));
    return expect_fail(e, ValueError, TypeError, KeyError, 1, "rem(s, Int)", before);
  case F_MEM_INT: {
    setkind("mem-wrong-type");
    volatile bool r = false;
    e = VF_CATCH(r = mem(S, $I(5)));
    if (!e && r) { vf_violation(LB("mem-true"), NULL, "mem(s, Int) is true"); return VF_BAD; }
    return expect_fail(e, ValueError, TypeError, ClassError, 1, "mem(s, Int)", before); }
  case F_GET:
    setkind("get-unimplemented");
    e = VF_CATCH(get(S, $I(0)));
    return expect_fail(e, ClassError, IndexOutOfBoundsError, KeyError, 0, "get(s, 0) (String does not implement get)", before);
  case F_SET:
    setkind("set-unimplemented");
    e = VF_CATCH(set(S, $I((int64_t)rl + 1), $S("a")));
    return expect_fail(e, ClassError, IndexOutOfBoundsError, KeyError, 0, "set(s, len+1, \"a\") (String does not implement set)", before);
  case F_PRINT_NOARGS:
    setkind("print_to-too-few-arguments");
    e = VF_CATCH(print_to(S, (int)rl, "%s"));
    return expect_fail(e, FormatError, FormatError, FormatError, 0, "print_to(s, len, \"%s\") without an argument", before);
  }
  return VF_SKIP;
}

/* apply + bookkeeping of "was the content edited since hash was last asked" (part of the light-mode state key) */
static int apply(int op) {
  char before[REFCAP]; strcpy(before, mdl);
  int r = apply_inner(op);
  if (r == VF_OK && strcmp(before, mdl) != 0) hfresh = 0;
  return r;
}

static int nontrivial(void) {
  /* a state whose content is non-empty and contains some operand at two different (possibly overlapping) offsets */
  for (int i = 1; i < NU; i++) {
    const char* p = strstr(mdl, U[i]);
    if (p && strstr(p + 1, U[i])) return 1;
  }
  return 0;
}


/* ---- ladder: every length from empty upwards, beyond the BFS bound -------------------
** For every payload length N in 0..maxn and every prefix length P in {0,1,5,127,128}
** each operation is executed once on a fresh heap String and compared with libc:
**   assign(prefix+payload); concat / append(payload) onto the prefix;
**   print_to(s, P, "%s", payload) (must return P+N) followed by append("Z");
**   print_to(s, 0, "%s", payload) over the prefix (overwrite-and-truncate);
**   resize(N) of prefix+payload+suffix (truncate) and of the prefix alone (grow);
**   rem(payload) from prefix+payload+suffix; rem of an absent N+1 character operand; copy;
**   print_to(s, P, f, payload) with a literal "%%" leading, trailing and doubled between two conversions, then append("Z").
** Case id (replayable): "ladder N=<n> P=<p> op=<k>".
*/

#define LCAP 4096
static char l_prefix[LCAP], l_payload[LCAP], l_expect[LCAP], l_tmp[LCAP];
static const char* l_suffix = "XYZ";
static char l_label[160];
static const char* l_opname = "";
static int l_N;

static const char* len_class(int n) {
  /* exact relation to a power of two >= 64 when within one of it, otherwise the binary magnitude */
  static char b[32];
  for (int k = 6; k <= 12; k++) {
    int p = 1 << k;
    if (n == p - 1) { snprintf(b, sizeof b, "N=2^%d-1", k); return b; }
    if (n == p)     { snprintf(b, sizeof b, "N=2^%d", k); return b; }
    if (n == p + 1) { snprintf(b, sizeof b, "N=2^%d+1", k); return b; }
  }
  int k = 0; while ((1 << (k + 1)) <= n) k++;
  if (n == 0) return "N=0";
  snprintf(b, sizeof b, "2^%d<=N<2^%d", k, k + 1);
  return b;
}

static const char* l_feature;      /* when set: replaces the length class in the label */
static const char* LL(const char* sym) {
  snprintf(l_label, sizeof l_label, "string-ladder/%s/%s/%s", l_opname, l_feature ? l_feature : len_class(l_N), sym);
  return l_label;
}

static void short_of(char* out, size_t cap, const char* s_) {
  size_t n = strlen(s_);
  if (n <= 40) snprintf(out, cap, "\"%s\"", s_);
  else snprintf(out, cap, "\"%.16s...%s\" (%zu characters)", s_, s_ + n - 16, n);
}

/* full oracle on one String against the expected text; 1 = violation recorded */
static int ladder_check(var s, const char* expect) {
  char* v = ((struct String*)s)->val;
  size_t el = strlen(expect);
  char a[128], b[128];
  if (!v) { vf_violation(LL("null-buffer"), NULL, "buffer is NULL"); return 1; }
  size_t us = malloc_usable_size(v);
  if (!memchr(v, 0, us)) { vf_violation(LL("not-terminated-in-allocation"), NULL, "no NUL among the %zu usable bytes, expected %zu characters", us, el); return 1; }
  if (us < el + 1) { vf_violation(LL("allocation-too-small"), NULL, "allocation has %zu usable bytes, %zu characters + NUL expected", us, el); return 1; }
  size_t l = len(s);
  if (strcmp(c_str(s), expect) != 0) {
    size_t i = 0; while (v[i] && v[i] == expect[i]) i++;
    short_of(a, sizeof a, v); short_of(b, sizeof b, expect);
    vf_violation(LL(strlen(v) < el && memcmp(v, expect, strlen(v)) == 0 ? "content-truncated" : "content"), NULL,
      "c_str is %s, expected %s; first difference at offset %zu (strlen %zu, expected %zu)", a, b, i, strlen(v), el);
    return 1;
  }
  if (l != el) { vf_violation(LL("len"), NULL, "len=%zu, expected %zu", l, el); return 1; }
  var fresh = $S((char*)expect);
  if (cmp(s, fresh) != 0 || cmp(fresh, s) != 0 || !eq(s, fresh) || neq(s, fresh)) { vf_violation(LL("cmp-eq"), NULL, "cmp/eq against a fresh String of the expected text disagree"); return 1; }
  snprintf(l_tmp, sizeof l_tmp, "%sa", expect);
  if (!(cmp(s, $S(l_tmp)) < 0) || !(cmp($S(l_tmp), s) > 0) || !lt(s, $S(l_tmp)) || eq(s, $S(l_tmp))) { vf_violation(LL("cmp-longer"), NULL, "cmp against expected+\"a\" is not negative"); return 1; }
  if (el > 0) {
    strcpy(l_tmp, expect); l_tmp[el - 1] = (char)(l_tmp[el - 1] == '!' ? '#' : '!');    /* differs in the last character only */
    int want = strcmp(expect, l_tmp);
    int got = cmp(s, $S(l_tmp));
    if ((want > 0) != (got > 0) || (want < 0) != (got < 0) || eq(s, $S(l_tmp))) { vf_violation(LL("cmp-last-char"), NULL, "cmp against a string differing in the last character: %d, strcmp %d", got, want); return 1; }
  }
  /* first hash-related call after the operation is hash(s) itself; references do not go through String_Hash */
  uint64_t h = hash(s);
  if (h != murmur64a(expect, el, 0xCe110)) { vf_violation(LL("hash-not-murmur"), NULL, "hash is not MurmurHash64A of the %zu expected bytes", el); return 1; }
  if (h != hash_data(expect, el)) { vf_violation(LL("hash-not-hash_data"), NULL, "hash is not hash_data of the %zu expected bytes", el); return 1; }
  if (h != hash(fresh)) { vf_violation(LL("hash-differs-from-fresh"), NULL, "hash differs from that of a fresh String of the expected text"); return 1; }
  if (!mem(s, fresh)) { vf_violation(LL("mem-self-value"), NULL, "mem(s, equal string) is false"); return 1; }
  if (!mem(s, $S(l_payload)) != !strstr(expect, l_payload)) { vf_violation(LL("mem"), NULL, "mem(s, payload) disagrees with strstr"); return 1; }
  snprintf(l_tmp, sizeof l_tmp, "%s!", l_payload);
  if (mem(s, $S(l_tmp))) { vf_violation(LL("mem-absent"), NULL, "mem(s, payload+\"!\") is true"); return 1; }
  if (el >= 2 && !mem(s, $S((char*)expect + el - 2))) { vf_violation(LL("mem-tail"), NULL, "mem(s, last two characters) is false"); return 1; }
  /* leave this String as the last one hashed, so that the next edit follows a hash of the same object */
  if (hash(s) != h) { vf_violation(LL("hash-unstable"), NULL, "two consecutive hash(s) calls differ"); return 1; }
  vf.evaluations++;
  return 0;
}

enum { LO_ASSIGN, LO_CONCAT, LO_APPEND, LO_PRINT_END, LO_PRINT_START, LO_RESIZE_SHRINK, LO_RESIZE_GROW, LO_REM, LO_REM_ABSENT, LO_COPY, LO_PCT_LEADING, LO_PCT_TRAILING, LO_PCT_BETWEEN, LO_N };
static const char* lo_name[] = { "assign", "concat", "append", "print_to-at-end", "print_to-at-start", "resize-shrink", "resize-grow", "rem", "rem-absent", "copy", "print_to-percent-leading", "print_to-percent-trailing", "print_to-percent-doubled-between-conversions" };

/*
** hash(s) is asked immediately BEFORE and immediately AFTER the operation, inside the same try block:
** entering or leaving a try block looks the Exception object up in the thread-local Table, which hashes
** a String key of its own - and whatever String_Hash may remember would then be about that key.
*/
static volatile uint64_t l_pre_h, l_post_h;
static volatile int l_post_valid;
#define LOP(stmt) do { \
    l_post_valid = 0; \
    e = VF_CATCH(l_pre_h = hash(s); stmt; l_post_h = hash(s); l_post_valid = 1); \
    if (l_pre_h != murmur64a(l_init, strlen(l_init), 0xCe110)) { \
      vf_violation(LL("hash-before-operation"), NULL, "hash of the initial %zu character string is not MurmurHash64A of its bytes", strlen(l_init)); bad = 1; } \
  } while (0)

static int posthash_bad(const char* expect) {
  if (!l_post_valid) return 0;
  l_post_valid = 0;
  uint64_t want = murmur64a(expect, strlen(expect), 0xCe110);
  if (l_post_h == want) return 0;
  vf_violation(LL(l_post_h == l_pre_h ? "stale-hash-of-earlier-content" : "hash-after-operation"), NULL,
    "hash(s) right after the operation is %" PRIx64 ", MurmurHash64A of the %zu expected bytes is %" PRIx64 "%s", (uint64_t)l_post_h, strlen(expect), want,
    l_post_h == l_pre_h ? " - it is the hash the string had before the operation" : "");
  return 1;
}

static void ladder_one(int N, int P, int op) {
  l_N = N; l_opname = lo_name[op];
  static char ph[64]; snprintf(ph, sizeof ph, "string-ladder/%s/%s", l_opname, len_class(N)); vf.phase = ph;
  vf_set_cur("ladder N=%d P=%d op=%d | %s with a payload of %d characters, prefix of %d", N, P, op, l_opname, N, P);
  for (int i = 0; i < P; i++) l_prefix[i] = (char)('A' + (i * 5 + i / 26) % 26);
  l_prefix[P] = 0;
  if (hifill) {
    /* high bytes: UTF-8 two- and three-byte sequences, lone continuation bytes, 0xFF, a few letters; N counts BYTES */
    static const unsigned char hb[] = { 0xC3, 0xAF, 'n', 0xE2, 0x82, 0xAC, 0x80, 0xBF, 0xFF, 'a', 0xC3, 0xA9, 0xFE, 0x81, 'z', 0xF0, 0x9F, 0x98, 0x80 };
    for (int i = 0; i < N; i++) l_payload[i] = (char)hb[(i + i / 19 * 7) % (int)sizeof hb];
  } else
  for (int i = 0; i < N; i++) l_payload[i] = (char)('a' + (i * 7 + i / 26 + i / 676) % 26);
  l_payload[N] = 0;
  volatile int ret = -12345;
  var e = NULL;
  var s = NULL;
  int bad = 0;
  const char* l_init = "";
  l_post_valid = 0;
  switch (op) {
  case LO_ASSIGN:
    snprintf(l_expect, sizeof l_expect, "%s%s", l_prefix, l_payload);
    s = new_raw(String, $S("seed")); l_init = "seed";
    LOP(assign(s, $S(l_expect)));
    break;
  case LO_CONCAT: case LO_APPEND:
    snprintf(l_expect, sizeof l_expect, "%s%s", l_prefix, l_payload);
    s = new_raw(String, $S(l_prefix)); l_init = l_prefix;
    if (op == LO_CONCAT) LOP(concat(s, $S(l_payload))); else LOP(append(s, $S(l_payload)));
    break;
  case LO_PRINT_END:
    snprintf(l_expect, sizeof l_expect, "%s%s", l_prefix, l_payload);
    s = new_raw(String, $S(l_prefix)); l_init = l_prefix;
    LOP(ret = print_to(s, P, "%s", $S(l_payload)));
    if (!e && ret != P + N) { vf_violation(LL("returned-position"), NULL, "print_to(s, %d, \"%%s\", payload) returned %d, expected %d", P, (int)ret, P + N); bad = 1; }
    if (!e && !bad) bad = posthash_bad(l_expect);
    if (!e && !bad) bad = ladder_check(s, l_expect);
    if (!e && !bad) {
      /* what follows a formatted write must land right behind it */
      static char before[LCAP]; strcpy(before, l_expect); l_init = before;
      strcat(l_expect, "Z");
      LOP(append(s, $S("Z")));
    }
    break;
  case LO_PRINT_START:
    if (P == 0) return;
    snprintf(l_expect, sizeof l_expect, "%s", l_payload);
    s = new_raw(String, $S(l_prefix)); l_init = l_prefix;
    LOP(ret = print_to(s, 0, "%s", $S(l_payload)));
    if (!e && ret != N) { vf_violation(LL("returned-position"), NULL, "print_to(s, 0, \"%%s\", payload) over a %d character string returned %d, expected %d", P, (int)ret, N); bad = 1; }
    break;
  case LO_RESIZE_SHRINK:
    snprintf(l_expect, sizeof l_expect, "%s%s%s", l_prefix, l_payload, l_suffix);
    s = new_raw(String, $S(l_expect)); l_init = l_expect;
    LOP(resize(s, (size_t)N));
    l_expect[N] = 0;                            /* N <= P+N+3 always: truncation to the first N characters */
    break;
  case LO_RESIZE_GROW: {
    if (N <= P) return;
    snprintf(l_expect, sizeof l_expect, "%s", l_prefix);
    s = new_raw(String, $S(l_prefix)); l_init = l_prefix;
    LOP(resize(s, (size_t)N));
    if (!e) {
      char* v = ((struct String*)s)->val; size_t us = malloc_usable_size(v);
      if (us < (size_t)N + 1) { vf_violation(LL("allocation-too-small"), NULL, "after resize(%d) the allocation has %zu usable bytes", N, us); bad = 1; }
      else if (!memchr(v, 0, us)) { vf_violation(LL("not-terminated-in-allocation"), NULL, "after resize(%d) no NUL inside the allocation", N); bad = 1; }
      else if (strlen(v) < (size_t)P || strlen(v) > (size_t)N || memcmp(v, l_prefix, P) != 0) { vf_violation(LL("prefix-lost"), NULL, "resize(%d) of a %d character string: prefix not preserved or length %zu outside [%d,%d]", N, P, strlen(v), P, N); bad = 1; }
      else snprintf(l_expect, sizeof l_expect, "%s", v);      /* padding convention is the implementation's */
    }
    break; }
  case LO_REM:
    snprintf(l_tmp, sizeof l_tmp, "%s%s%s", l_prefix, l_payload, l_suffix);
    snprintf(l_expect, sizeof l_expect, "%s%s", l_prefix, l_suffix);
    s = new_raw(String, $S(l_tmp)); l_init = l_tmp;
    LOP(rem(s, $S(l_payload)));
    break;
  case LO_REM_ABSENT: {
    snprintf(l_expect, sizeof l_expect, "%s%s%s", l_prefix, l_payload, l_suffix);
    s = new_raw(String, $S(l_expect)); l_init = l_expect;
    static char absent[LCAP]; snprintf(absent, sizeof absent, "%s!", l_payload);
    LOP(rem(s, $S(absent)));
    if (e && e != ValueError && e != KeyError) { vf_violation(LL("wrong-exception"), NULL, "rem of an absent substring raised %s", vf_exc_name(e)); bad = 1; }
    e = NULL;
    break; }
  case LO_PCT_LEADING: case LO_PCT_TRAILING: case LO_PCT_BETWEEN: {
    /* a literal "%%" in the format of a formatted write at the end of the prefix, then an append behind it */
    const char* f = op == LO_PCT_LEADING ? "%%%s" : op == LO_PCT_TRAILING ? "%s%%" : "%s%%%%%s";
    int on;
    if (op == LO_PCT_BETWEEN) on = snprintf(l_tmp, sizeof l_tmp, f, l_payload, "Q"); else on = snprintf(l_tmp, sizeof l_tmp, f, l_payload);
    snprintf(l_expect, sizeof l_expect, "%s%s", l_prefix, l_tmp);
    s = new_raw(String, $S(l_prefix)); l_init = l_prefix;
    if (op == LO_PCT_LEADING) LOP(ret = print_to(s, P, "%%%s", $S(l_payload)));
    else if (op == LO_PCT_TRAILING) LOP(ret = print_to(s, P, "%s%%", $S(l_payload)));
    else LOP(ret = print_to(s, P, "%s%%%%%s", $S(l_payload), $S("Q")));
    if (!e && ret != P + on) { vf_violation(LL("returned-position"), NULL, "print_to(s, %d, \"%s\", payload) returned %d, expected %d", P, f, (int)ret, P + on); bad = 1; }
    if (!e && !bad) bad = posthash_bad(l_expect);
    if (!e && !bad) bad = ladder_check(s, l_expect);
    if (!e && !bad) {
      static char before2[LCAP]; strcpy(before2, l_expect); l_init = before2;
      strcat(l_expect, "Z");
      LOP(append(s, $S("Z")));
    }
    break; }
  case LO_COPY:
    snprintf(l_expect, sizeof l_expect, "%s%s", l_prefix, l_payload);
    s = new_raw(String, $S(l_expect)); l_init = l_expect;
    LOP(R[1] = copy(s));
    if (!e) {
      if (((struct String*)R[1])->val == ((struct String*)s)->val) { vf_violation(LL("copy-shares-buffer"), NULL, "copy shares the original's buffer"); bad = 1; }
      if (!bad) bad = ladder_check(R[1], l_expect);
      if (!bad) { if (!eq(R[1], s) || hash(R[1]) != hash(s)) { vf_violation(LL("copy-not-equal"), NULL, "copy is not eq / hashes differently"); bad = 1; } }
      del(R[1]); R[1] = NULL;
    }
    break;
  }
  if (e) { vf_violation(LL("raises"), NULL, "%s raised %s", l_opname, vf_exc_name(e)); bad = 1; }
  if (!bad) bad = posthash_bad(l_expect);
  if (!bad) bad = ladder_check(s, l_expect);
  if (vf.replay) printf("  %s: %s\n", vf_cur, bad ? "VIOLATION" : "ok");
  if (s) del_raw(s);
  vf.transitions++; vf.executions++;
  {
    int t = P + N;
    int near = 0;
    for (int k = 6; k <= 12; k++) { int p = 1 << k; if ((N >= p - 1 && N <= p + 1) || (t >= p - 1 && t <= p + 1)) near = 1; }
    if (near) vf.nontrivial++;
  }
  if (vf_want_sample()) vf_sample("%s", vf_cur);
}

static uint64_t n_showarg;

/* ---- shown String arguments (formatted writes of a String INTO the target) ---------------
** print_to(s, pos, "%$", arg), show_to(arg, s, pos), "<%$>" with literals around and "%$%$" twice,
** for arguments that contain '%' (alone, doubled, looking like a directive, at the end, next to an
** escape, behind 62..64 ordinary characters) and a few without, at EVERY position pos of an
** 8-character target and of the empty target.  Expected text: target[0..pos) + the C literal of the
** argument, written by an independent escaper.  Case id: "showarg a=<arg> op=<k> pos=<p> t=<target>".
*/

static const char* sa_args[] = { "%", "a%b", "%%", "%s", "100%", "%d items", "%$", "50% off", "a%%b", "%\n%", "\"%\"", "%c%i%f%%", "abc", "", "tab\there",
  "0123456789012345678901234567890123456789012345678901234567890%1", "01234567890123456789012345678901234567890123456789012345678901%2", "012345678901234567890123456789012345678901234567890123456789012%3" };
#define NSA ((int)(sizeof sa_args / sizeof sa_args[0]))
static const char* sa_targets[] = { "abcdefgh", "" };
enum { SA_PRINT_DOLLAR, SA_SHOW_TO, SA_FRAMED, SA_TWICE, SA_N };
static const char* sa_opname[] = { "print_to-%$-of-String", "show_to-String", "print_to-literals-around-%$", "print_to-%$%$" };

static size_t c_literal(char* out, size_t cap, const char* s_) {
  /* independent reference for the shown form of a String: a double-quoted C literal */
  size_t o = 0;
  out[o++] = '"';
  for (; *s_ && o + 4 < cap; s_++) {
    char esc = 0;
    switch (*s_) {
      case '\a': esc = 'a'; break; case '\b': esc = 'b'; break; case '\f': esc = 'f'; break; case '\n': esc = 'n'; break;
      case '\r': esc = 'r'; break; case '\t': esc = 't'; break; case '\v': esc = 'v'; break;
      case '\\': esc = '\\'; break; case '\'': esc = '\''; break; case '"': esc = '"'; break; case '?': esc = '?'; break;
    }
    if (esc) { out[o++] = '\\'; out[o++] = esc; } else out[o++] = *s_;
  }
  out[o++] = '"'; out[o] = 0;
  return o;
}

static void showarg_grid(void) {
  int ra = -1, rop = -1, rpos = -1, rt = -1;
  if (vf.replay && sscanf(vf.replay, "showarg a=%d op=%d pos=%d t=%d", &ra, &rop, &rpos, &rt) != 4) return;
  static char lit[512];
  for (int t = 0; t < 2; t++) for (int a = 0; a < NSA; a++) for (int op = 0; op < SA_N; op++) {
    int tl = (int)strlen(sa_targets[t]);
    for (int pos = 0; pos <= tl; pos++) {
      if (vf.replay && !(a == ra && op == rop && pos == rpos && t == rt)) continue;
      const char* arg = sa_args[a];
      l_opname = sa_opname[op]; l_N = (int)strlen(arg);
      l_feature = strchr(arg, '%') ? (strlen(arg) > 60 ? "argument-with-percent-after-60-characters" : "argument-with-percent") : "argument-without-percent";
      static char ph[96]; snprintf(ph, sizeof ph, "string-ladder/%s/%s", l_opname, l_feature); vf.phase = ph;
      char parg[96]; { size_t o = 0; for (const char* q = arg; *q && o + 5 < sizeof parg; q++) { if (*q == '\n') { parg[o++] = '\\'; parg[o++] = 'n'; } else if (*q == '\t') { parg[o++] = '\\'; parg[o++] = 't'; } else parg[o++] = *q; } parg[o] = 0; }
      vf_set_cur("showarg a=%d op=%d pos=%d t=%d | %s of the String \"%s\" at position %d of \"%s\"", a, op, pos, t, l_opname, parg, pos, sa_targets[t]);
      vf_watchdog(30);
      c_literal(lit, sizeof lit, arg);
      strcpy(l_payload, lit);                                       /* ladder_check asks mem() for it */
      memcpy(l_expect, sa_targets[t], (size_t)pos); l_expect[pos] = 0;
      if (op == SA_FRAMED) { strcat(l_expect, "<"); strcat(l_expect, lit); strcat(l_expect, ">"); }
      else if (op == SA_TWICE) { strcat(l_expect, lit); strcat(l_expect, lit); }
      else strcat(l_expect, lit);
      int on = (int)strlen(l_expect) - pos;
      var s = new_raw(String, $S((char*)sa_targets[t]));
      const char* l_init = sa_targets[t];
      var e = NULL; int bad = 0; volatile int ret = -12345;
      if (op == SA_PRINT_DOLLAR) LOP(ret = print_to(s, pos, "%$", $S((char*)arg)));
      else if (op == SA_SHOW_TO) LOP(ret = show_to($S((char*)arg), s, pos));
      else if (op == SA_FRAMED) LOP(ret = print_to(s, pos, "<%$>", $S((char*)arg)));
      else LOP(ret = print_to(s, pos, "%$%$", $S((char*)arg), $S((char*)arg)));
      if (e) {
        char now[80]; snprintf(now, sizeof now, "%.60s", c_str(s));
        vf_violation(LL("raises"), NULL, "raised %s; the target now holds \"%s\"", vf_exc_name(e), now); bad = 1;
      }
      if (!bad && ret != pos + on) { vf_violation(LL("returned-position"), NULL, "returned %d, expected %d + %d", (int)ret, pos, on); bad = 1; }
      if (!bad) bad = posthash_bad(l_expect);
      if (!bad) bad = ladder_check(s, l_expect);
      if (!bad) {
        /* the next write lands right behind it */
        static char before3[LCAP]; strcpy(before3, l_expect); l_init = before3;
        strcat(l_expect, "Z");
        LOP(append(s, $S("Z")));
        if (e) { vf_violation(LL("raises"), NULL, "append after the formatted write raised %s", vf_exc_name(e)); bad = 1; }
        if (!bad) bad = posthash_bad(l_expect);
        if (!bad) bad = ladder_check(s, l_expect);
      }
      if (vf.replay) printf("  %s: %s\n", vf_cur, bad ? "VIOLATION" : "ok");
      del_raw(s);
      vf.transitions++; vf.executions++;
      if (strchr(arg, '%')) vf.nontrivial++;
      n_showarg++;
      if (vf_want_sample()) vf_sample("%s", vf_cur);
    }
  }
  l_feature = NULL;
  vf_watchdog(0); vf_cur_valid = 0;
}

static void ladder(void) {
  static const int prefixes[] = { 0, 1, 5, 127, 128 };
  int maxn = (int)vf_param_i("maxn", 300);
  if (maxn > 1500) maxn = 1500;
  int rN = -1, rP = -1, rop = -1;
  if (vf.replay && strncmp(vf.replay, "showarg", 7) == 0) { showarg_grid(); return; }
  if (vf.replay && sscanf(vf.replay, "ladder N=%d P=%d op=%d", &rN, &rP, &rop) != 3) { fprintf(stderr, "replay: cannot parse '%s'\n", vf.replay); _exit(2); }
  for (int N = 0; N <= maxn; N++) {
    for (size_t pi = 0; pi < sizeof prefixes / sizeof prefixes[0]; pi++) {
      for (int op = 0; op < LO_N; op++) {
        if (vf.replay && !(N == rN && prefixes[pi] == rP && op == rop)) continue;
        vf_watchdog(30);
        ladder_one(N, prefixes[pi], op);
      }
      vf.states++;
    }
    if (vf_deadline_hit()) { vf_note("ladder: deadline hit at N=%d", N); break; }
  }
  vf_watchdog(0);
  vf_cur_valid = 0;
  if (!vf.replay && vf_param_i("showargs", 1)) showarg_grid();
  vf_extra("shown_string_arguments", "\"%" PRIu64 " formatted writes of %d String arguments (15 containing a percent sign) x %d operations x every position of an 8-character and of the empty target\"", n_showarg, NSA, (int)SA_N);
  vf_extra("ladder", "\"payload lengths 0..%d x prefix lengths {0,1,5,127,128} x %d operations\"", maxn, (int)LO_N);
}


/* ---- stack Strings as receivers (C12): every write must be refused ----------------------
** A String that is not on the heap ($S over a writable char array) cannot be reallocated:
** print_to / show_to / format_to into it, and assign / concat / append / resize of it, must raise
** ValueError and leave the String - every byte of the array - exactly as it was, whether
** the output would be shorter than, as long as, or longer than the current content.
** Case id (replayable): "stack c=<content> op=<k> pos=<p> t=<text>".
*/

static const char* st_contents[] = { "0123456789", "abc", "" };
static const char* st_texts[] = { "", "x", "xy", "vwxyz", "123456789", "ABCDEFGHIJ", "ABCDEFGHIJK", "a considerably longer piece of text" };
enum { SO_PRINT_S, SO_PRINT_2S, SO_PRINT_LIT, SO_PRINT_INT, SO_PRINT_DOLLAR, SO_SHOW_INT, SO_SHOW_STR, SO_FORMAT_S, SO_FORMAT_D,
       SO_ASSIGN, SO_CONCAT, SO_APPEND, SO_RESIZE, SO_N };
static const char* so_name[] = { "print_to(s,pos,\"%s\",t)", "print_to(s,pos,\"%s-%s\",t,t)", "print_to(s,pos,literal t)", "print_to(s,pos,\"%li\",n)", "print_to(s,pos,\"%$\",t)",
  "show_to(Int n,s,pos)", "show_to(String t,s,pos)", "format_to(s,pos,\"%s\",t)", "format_to(s,pos,\"%d\",n)",
  "assign(s,t)", "concat(s,t)", "append(s,t)", "resize(s,len t)" };

static void stack_grid(void) {
  int rc = -1, rop = -1, rpos = -1, rt = -1;
  if (vf.replay && sscanf(vf.replay, "stack c=%d op=%d pos=%d t=%d", &rc, &rop, &rpos, &rt) != 4) { fprintf(stderr, "replay: cannot parse '%s'\n", vf.replay); _exit(2); }
  static char ph[96];
  for (int c = 0; c < (int)(sizeof st_contents / sizeof st_contents[0]); c++)
  for (int op = 0; op < SO_N; op++)
  for (int t = 0; t < (int)(sizeof st_texts / sizeof st_texts[0]); t++) {
    size_t cl = strlen(st_contents[c]);
    size_t posv[3] = { 0, cl / 2, cl };
    for (int pi = 0; pi < 3; pi++) {
      int pos = (int)posv[pi];
      if (pi > 0 && posv[pi] == posv[pi - 1]) continue;
      if (op >= SO_ASSIGN && pi > 0) continue;                     /* no position argument */
      if (vf.replay && !(c == rc && op == rop && pos == rpos && t == rt)) continue;
      const char* text = st_texts[t];
      int64_t num = t == 0 ? 7 : t == 1 ? -4 : t == 2 ? 42 : t == 3 ? 12345 : t == 4 ? 123456789 : t == 5 ? 1234567890 : t == 6 ? 12345678901LL : INT64_MIN;
      /* how long would the output be, relative to what the String holds behind pos */
      char outbuf[160]; int outlen;
      switch (op) {
      case SO_PRINT_2S: outlen = snprintf(outbuf, sizeof outbuf, "%s-%s", text, text); break;
      case SO_PRINT_INT: case SO_SHOW_INT: outlen = snprintf(outbuf, sizeof outbuf, "%" PRId64, num); break;
      case SO_FORMAT_D: outlen = snprintf(outbuf, sizeof outbuf, "%d", (int)num); break;
      case SO_PRINT_DOLLAR: case SO_SHOW_STR: outlen = (int)strlen(text) + 2; break;
      default: outlen = (int)strlen(text);
      }
      size_t room = cl - (size_t)pos;
      const char* fit = op >= SO_ASSIGN ? (strlen(text) < cl ? "shorter" : strlen(text) == cl ? "equal" : "longer")
                                        : ((size_t)outlen < room ? "shorter" : (size_t)outlen == room ? "equal" : "longer");
      if (op == SO_PRINT_LIT && t == 0) continue;                  /* an empty format writes nothing and calls nothing */
      snprintf(ph, sizeof ph, "string-stack/%s/%s", so_name[op], fit); vf.phase = ph;
      vf_set_cur("stack c=%d op=%d pos=%d t=%d | $S(char[] = \"%s\"): %s with t=\"%s\" n=%" PRId64 " pos=%d (output %s than what is there)", c, op, pos, t, st_contents[c], so_name[op], text, num, pos, fit);
      vf_watchdog(30);
      /* the receiver: a writable array with a canary behind the terminator */
      char buf[48], orig[48];
      memset(buf, '#', sizeof buf); strcpy(buf, st_contents[c]); memcpy(orig, buf, sizeof buf);
      var s = $S(buf);
      var e = NULL;
      switch (op) {
      case SO_PRINT_S:      e = VF_CATCH(print_to(s, pos, "%s", $S((char*)text))); break;
      case SO_PRINT_2S:     e = VF_CATCH(print_to(s, pos, "%s-%s", $S((char*)text), $S((char*)text))); break;
      case SO_PRINT_LIT:    e = VF_CATCH(print_to(s, pos, text)); break;
      case SO_PRINT_INT:    e = VF_CATCH(print_to(s, pos, "%li", $I(num))); break;
      case SO_PRINT_DOLLAR: e = VF_CATCH(print_to(s, pos, "%$", $S((char*)text))); break;
      case SO_SHOW_INT:     e = VF_CATCH(show_to($I(num), s, pos)); break;
      case SO_SHOW_STR:     e = VF_CATCH(show_to($S((char*)text), s, pos)); break;
      case SO_FORMAT_S:     e = VF_CATCH(format_to(s, pos, "%s", text)); break;
      case SO_FORMAT_D:     e = VF_CATCH(format_to(s, pos, "%d", (int)num)); break;
      case SO_ASSIGN:       e = VF_CATCH(assign(s, $S((char*)text))); break;
      case SO_CONCAT:       e = VF_CATCH(concat(s, $S((char*)text))); break;
      case SO_APPEND:       e = VF_CATCH(append(s, $S((char*)text))); break;
      case SO_RESIZE:       e = VF_CATCH(resize(s, strlen(text))); break;
      }
      char lab[160];
      int bad = 0;
      if (((struct String*)s)->val != buf) {
        snprintf(lab, sizeof lab, "%s/buffer-replaced", ph); vf_violation(lab, NULL, "the String no longer points at its array (exception: %s)", vf_exc_name(e)); bad = 1;
      } else if (memcmp(buf, orig, sizeof buf) != 0) {
        char now[64]; snprintf(now, sizeof now, "%.40s", buf);
        snprintf(lab, sizeof lab, "%s/%s", ph, e ? "raised-but-changed" : "written-without-exception");
        vf_violation(lab, NULL, "the array held \"%s\" and now holds \"%s\" (exception: %s); a String that is not on the heap must refuse with ValueError and stay unchanged", st_contents[c], now, vf_exc_name(e)); bad = 1;
      } else if (e == NULL) {
        snprintf(lab, sizeof lab, "%s/no-exception", ph); vf_violation(lab, NULL, "no exception was raised (array unchanged)"); bad = 1;
      } else if (e != ValueError) {
        snprintf(lab, sizeof lab, "%s/wrong-exception", ph); vf_violation(lab, NULL, "raised %s, ValueError expected", vf_exc_name(e)); bad = 1;
      } else if (len(current(Exception)) != 0) {
        snprintf(lab, sizeof lab, "%s/exception-depth", ph); vf_violation(lab, NULL, "exception depth not restored"); bad = 1;
      }
      if (vf.replay) printf("  %s: raised %s, array now \"%.40s\" -> %s\n", vf_cur, vf_exc_name(e), buf, bad ? "VIOLATION" : "ok");
      vf.executions++; vf.evaluations++; vf.transitions++;
      if (strcmp(fit, "longer") != 0) vf.nontrivial++;
      if (vf_want_sample()) vf_sample("%s", vf_cur);
    }
  }
  vf_watchdog(0); vf_cur_valid = 0;
  vf.states = sizeof st_contents / sizeof st_contents[0];
  vf_extra("stack_grid", "\"%d receiver contents x %d operations x %d texts x positions {0, mid, end}\"", (int)(sizeof st_contents / sizeof st_contents[0]), (int)SO_N, (int)(sizeof st_texts / sizeof st_texts[0]));
}

int main(int argc, char** argv) {
  vf_init(argc, argv);
  var roots[4] = { NULL, NULL, NULL, NULL };
  R = roots;

  A = (int)vf_param_i("alpha", 2);
  {
    /* bytes=c3af: the alphabet is the bytes 0xC3 0xAF (contents then include the UTF-8 sequence C3 AF and its halves) */
    const char* hx = vf_param("bytes", NULL);
    if (hx) {
      int n = 0;
      while (hx[0] && hx[1] && n < 4) { unsigned v = 0; sscanf(hx, "%2x", &v); if (v) ALPHA[n++] = (unsigned char)v; hx += 2; }
      if (n) A = n;
    }
    hifill = vf_param_is("filler", "hi", "ascii");
  }
  L = (int)vf_param_i("maxlen", 5);
  UL = (int)vf_param_i("ulen", 2);
  if (A < 1) A = 1; if (A > 4) A = 4;
  if (L > 12) L = 12;
  if (UL > 3) UL = 3;
  const char* prop = vf_param("prop", "C16");
  propC12 = strcmp(prop, "C12") == 0;
  hashop = (int)vf_param_i("hashop", 0);
  pct = (int)vf_param_i("pct", 0);
  int probe_default = hashop ? 0 : 1;
  SENT = new_raw(String, $S("~another string, never equal in length to the explored ones~"));
  do_probe = (int)vf_param_i("probe", probe_default);
  if (hashop) { do_probe = 0; propC12 = 0; }
  alias = (int)vf_param_i("alias", 0);

  if (vf_param_is("mode", "ladder", "bfs")) { do_probe = 0; ladder(); vf_finish(); }
  if (vf_param_is("mode", "stack", "bfs")) { do_probe = 0; stack_grid(); vf_finish(); }

  { char tmp[MAXU][16]; gen_strings(tmp, &NU, UL, 16); for (int i = 0; i < NU; i++) strcpy(U[i], tmp[i]); }
  {
    size_t total = 0, p = 1; for (int l = 0; l <= L + 1; l++) { total += p; p *= (size_t)A; }
    UNI = malloc((total + 8) * sizeof *UNI);
    gen_strings(UNI, &NUNI, L + 1, 16);
    /* a few strings outside the alphabet: ordering against bytes below/above and a high byte */
    strcpy(UNI[NUNI++], "A"); strcpy(UNI[NUNI++], "z"); strcpy(UNI[NUNI++], "a\xff"); strcpy(UNI[NUNI++], "\x80");
  }

  static char dname[96];
  snprintf(dname, sizeof dname, "string[alpha=%d%s%s,maxlen=%d,ulen=%d,%s%s%s]", A, vf_param("bytes", NULL) ? ",bytes=" : "", vf_param("bytes", ""), L, UL, prop, hashop ? ",hashop" : "", pct ? ",pct" : "");
  struct vf_domain d = { dname, nops_total(), reset, cleanup, apply, check, canon, opname, nontrivial,
                         (size_t)vf_param_i("depth", 0), (size_t)vf_param_i("max_states", 0) };

  if (vf.replay) do_probe = 0;               /* a replay executes the case directly, so that the report is visible */
  if (vf.replay) vf_bfs_replay_case(&d, vf.replay);
  else vf_bfs_run(&d);
  vf_extra("crash_probes", "%" PRIu64, nprobes);
  vf_extra("universe", "\"content: strings of length <= %d over %d letters; %d operand strings of length <= %d; %d comparison strings\"", L, A, NU, UL, NUNI);
  vf_finish();
  return 0;
}
