/*
** h_thread.c - C13: threads are isolated; join publishes; Mutex excludes.
** Exhaustive preemption-bounded exploration of real Cello threads (lib/vf_sched.h).
**
** Params: scn=<scenario>  bound=<preemptions>  max=<schedule cap>
**   scn=dispatch kinds=<I|S|F|P|U per worker> iters=<rounds>     scn=handover del=<0|1>     scn=lazy
**   scn=lockmix  lens=<a,b,..> ops=<alphabet over LTW> first=<first sections of thread 1>  |  prog=<P1+P2+..> (one program tuple)
**   scn=tlshist  minlen=<n> len=<n> mincalls=<n> managed=<0|1>                               |  prog=<history, e.g. n0c0j0d0n0c0j0>
** Build:  hooks variant (-DCELLO_VERIF) + -Wl,--wrap=pthread_create,... (see checks/C13.py)
*/

#include "vf_sched.h"

/* thread ids: assigned by the scheduler, or on first use in the free-running (TSan) mode */
static int free_mode, free_next_id = 1;
static int my_id(void) { if (sch_me < 0) sch_me = __sync_fetch_and_add(&free_next_id, 1); return sch_me; }

/* ---- an object type that knows which thread made it ------------------------------------ */

struct TObj { int64_t val; int64_t owner; int64_t serial; };
static int tobj_made[SCH_MAXT], tobj_fin[SCH_MAXT], tobj_serial;
static uint8_t tobj_state[4096];   /* by serial: 1 live, 2 finalised */

static void TObj_New(var self, var args) {
  struct TObj* o = self;
  o->val = len(args) ? c_int(get(args, $I(0))) : 0;
  o->owner = my_id();
  o->serial = free_mode ? __sync_add_and_fetch(&tobj_serial, 1) : ++tobj_serial;
  if (o->serial < 4096) tobj_state[o->serial] = 1;
  tobj_made[sch_me]++;
}

static void TObj_Del(var self) {
  struct TObj* o = self;
  if (o->owner != my_id()) sch_fail("object-finalised-on-foreign-thread", "an object allocated by thread %d was finalised by thread %d", (int)o->owner, sch_me);
  if (o->serial > 0 && o->serial < 4096) {
    if (tobj_state[o->serial] == 2) sch_fail("object-finalised-twice", "object %d of thread %d finalised twice", (int)o->serial, (int)o->owner);
    tobj_state[o->serial] = 2;
  }
  if (o->owner >= 0 && o->owner < SCH_MAXT) tobj_fin[o->owner]++;
}

var TObj = Cello(TObj, Instance(New, TObj_New, TObj_Del));

/* ---- thread bodies --------------------------------------------------------------------- */

static char order_log[128]; static int order_n;   /* schedule-dependent observation: who got where first */
static int free_mode_flag;
static void olog(char c) { if (free_mode_flag) return; if (order_n < 126) { order_log[order_n++] = c; order_log[order_n] = 0; } }
static int64_t result[SCH_MAXT];        /* per-thread digest, written as the last statement */
static volatile int done_flag[SCH_MAXT];

/* allocation-heavy: allocate until the thread's own collector has run at least twice */
static var body_alloc(var args) {
  int64_t digest = 0;
  var keep[6] = { NULL, NULL, NULL, NULL, NULL, NULL };
  int me = my_id();
  for (int i = 0; i < 14; i++) {
    var o = new(TObj, $I(100 * (me + 1) + i));
    if (i % 3 == 0) keep[(i / 3) % 6] = o;      /* some stay reachable from this stack */
  }
  for (int k = 0; k < 6; k++) {
    if (!keep[k]) continue;
    struct TObj* o = keep[k];
    if (o->owner != me || o->serial <= 0 || tobj_state[o->serial] != 1) sch_fail("live-object-finalised-by-another-threads-work", "thread %d: an object it still holds was finalised or damaged", me);
    digest = digest * 31 + o->val;
  }
  result[me] = digest;
  olog((char)('0' + me));
  done_flag[me] = 1;
  return NULL;
}

/* exception-heavy */
static var ExcA, ExcB;
static int64_t exc_trace(int me) {
  int64_t tr = 0;
  for (int round = 0; round < 2; round++) {
    try {
      tr = tr * 7 + 1;
      try {
        tr = tr * 7 + 2;
        if (round == 0) throw(ValueError, "thread %i inner", $I(me));
        else throw(KeyError, "thread %i inner key", $I(me));
        tr = tr * 7 + 6;   /* not reached */
      } catch (e in ValueError) {
        tr = tr * 7 + 3;
      }
      tr = tr * 7 + 4;
    } catch (e in KeyError) {
      tr = tr * 7 + 5;
    }
  }
  return tr;
}
static var body_exc(var args) {
  int me = my_id();
  volatile int64_t tr = exc_trace(me);
  if (len(current(Exception)) != 0) sch_fail("exception-depth-not-restored", "thread %d: exception nesting depth %d after its constructs", me, (int)len(current(Exception)));
  result[me] = tr;
  olog((char)('0' + me));
  done_flag[me] = 1;
  return NULL;
}

/* thread-local storage */
static var body_tls(var args) {
  int me = my_id();
  int64_t d = 0;
  var v1 = $I(1000 + me), v2 = $I(2000 + me);
  set(current(Thread), $S("alpha"), v1);
  set(current(Thread), $S("beta"), v2);
  if (get(current(Thread), $S("alpha")) != v1) sch_fail("thread-local-value-diverted", "thread %d reads back another value for its thread-local key", me);
  d = c_int(get(current(Thread), $S("alpha"))) * 3 + c_int(get(current(Thread), $S("beta")));
  rem(current(Thread), $S("alpha"));
  if (mem(current(Thread), $S("alpha"))) sch_fail("thread-local-rem-ineffective", "thread %d: removed key still present", me);
  if (!mem(current(Thread), $S("beta"))) sch_fail("thread-local-lost", "thread %d: its other thread-local key vanished", me);
  rem(current(Thread), $S("beta"));
  result[me] = d;
  olog((char)('0' + me));
  done_flag[me] = 1;
  return NULL;
}

/* the argument objects outlive every thread (a compound literal in the calling statement would not) */
static var ARG1, ARG2;
/* call arguments: the thread reads the arguments it was started with at its start, in the middle and at the end of its work */
static var body_args(var args) {
  int me = my_id();
  volatile int64_t d = 0;
  for (int round = 0; round < 3; round++) {
    var e = VF_CATCH({
      if (len(args) != 2) sch_fail("call-arguments-lost", "thread %d: it was started with 2 arguments, len(args) is now %d", me, (int)len(args));
      d = d * 31 + c_int(get(args, $I(0)));
      d = d * 31 + c_int(get(args, $I(1)));
    });
    if (e) sch_fail("call-arguments-lost", "thread %d: reading its call arguments raised %s", me, vf_exc_name(e));
    var o = new(TObj, $I(round)); (void)o;      /* its own allocations in between */
  }
  /* a value another thread put into this thread's storage before it was started */
  if (mem(current(Thread), $S("seed"))) {
    var e = VF_CATCH(d = d * 31 + c_int(get(current(Thread), $S("seed"))));
    if (e) sch_fail("seeded-thread-local-value-lost", "thread %d: reading the thread-local value its parent installed raised %s", me, vf_exc_name(e));
  }
  result[me] = d;
  olog((char)('0' + me));
  done_flag[me] = 1;
  return NULL;
}

/* formatting: each thread formats with its own (different, short) format text into its own String */
static var body_fmt(var args) {
  int me = my_id();
  int64_t d = 0;
  var out = new_raw(String);
  for (int r = 0; r < 2; r++) {
    char expect[64];
    if (me % 2) { print_to(out, 0, "a%ib%sc", $I(me * 10 + r), $S("xy")); snprintf(expect, sizeof expect, "a%db%sc", me * 10 + r, "xy"); }
    else { print_to(out, 0, "<<%s>>=%i;%i", $S("k"), $I(me), $I(r)); snprintf(expect, sizeof expect, "<<%s>>=%d;%d", "k", me, r); }
    if (strcmp(c_str(out), expect) != 0) sch_fail("formatted-text-differs-from-solo-run", "thread %d formatted \"%s\", alone it produces \"%s\"", me, c_str(out), expect);
    /* and reads its own text back */
    { var iv = $I(-1); var e2 = VF_CATCH(scan_from(out, 0, me % 2 ? "a%i" : "<<k>>=%i", iv));
      if (e2 || c_int(iv) != (me % 2 ? me * 10 + r : me)) sch_fail("scanned-value-differs-from-solo-run", "thread %d read %" PRId64 " back from its own text \"%s\"", me, c_int(iv), c_str(out)); }
    for (const char* q = c_str(out); *q; q++) d = d * 131 + *q;
  }
  volatile int64_t dd = d;
  try { throw(ValueError, "thread %i says %s", $I(me), $S(me % 2 ? "odd" : "even")); } catch (e) { dd = dd * 7 + 1; }
  del_raw(out);
  result[me] = dd;
  olog((char)('0' + me));
  done_flag[me] = 1;
  return NULL;
}

/* container work on private containers */
static var body_cont(var args) {
  int me = my_id();
  int64_t d = 0;
  var t = new_raw(Table, Int, Int);
  var a = new_raw(Array, Int);
  for (int i = 0; i < 7; i++) { set(t, $I(i * 55), $I(i + me)); push(a, $I(i * (me + 2))); }
  rem(t, $I(55)); rem(t, $I(0));
  for (int i = 2; i < 7; i++) d = d * 13 + c_int(get(t, $I(i * 55)));
  sort(a);
  /* every other container operation that moves elements through scratch space, on containers only this thread knows */
  push_at(a, $I(100 + me), $I(0)); push_at(a, $I(200 + me), $I(3)); pop_at(a, $I(1)); rem(a, $I(200 + me));
  var l = new_raw(List, Int);
  for (int i = 0; i < 5; i++) push(l, $I(i * 3 + me));
  push_at(l, $I(70 + me), $I(2)); pop_at(l, $I(0)); rem(l, $I(6 + me));
  var tr = new_raw(Tree, Int, Int);
  for (int i = 0; i < 6; i++) set(tr, $I((i * 5) % 7), $I(i * me));
  rem(tr, $I(5)); rem(tr, $I(3));
  var s = new_raw(String, $S("t"));
  for (int i = 0; i < 3; i++) { append(s, $S("ab")); print_to(s, (int)len(s), "%i.", $I(me + i)); }
  var a2 = copy(a); swap(a, a2); resize(a2, 2);
  foreach (x in a) d = d * 13 + c_int(x);
  foreach (x in a2) d = d * 13 + c_int(x);
  foreach (x in l) d = d * 13 + c_int(x);
  foreach (k in tr) d = d * 13 + c_int(k) * 3 + c_int(get(tr, k));
  d = d * 13 + (int64_t)hash(s) % 1000003 + (int64_t)len(s);
  d = d * 13 + (int64_t)len(t);
  del_raw(t); del_raw(a); del(a2); del_raw(l); del_raw(tr); del_raw(s);
  result[me] = d;
  olog((char)('0' + me));
  done_flag[me] = 1;
  return NULL;
}

/* the lazily created thread-local: get; on KeyError create the object and set it.  The main thread keeps an accumulator of
** its own under the same key for the whole scenario; every worker must end up with an accumulator of its own */
static var LAZYMAIN;
static var body_lazy(var args) {
  int me = my_id();
  for (int i = 1; i <= 3; i++) {
    volatile var acc = NULL;
    var e = VF_CATCH(acc = get(current(Thread), $S("acc")));
    if (e) {
      if (e != KeyError) sch_fail("thread-local-storage-unreadable", "thread %d: get of its thread-local key raised %s", me, vf_exc_name(e));
      else if (i != 1) sch_fail("thread-local-lost", "thread %d: the accumulator it created and set in step 1 is gone in step %d", me, i);
      acc = new_raw(Int, $I(0));
      set(current(Thread), $S("acc"), acc);
    } else if (i == 1) {
      if (acc == LAZYMAIN) sch_fail("thread-reads-main-threads-thread-local-value", "thread %d: get of a key it never set (mem says %s) returned the object the main thread keeps under that key in its own storage", me, mem(current(Thread), $S("acc")) ? "present" : "absent");
      else sch_fail("thread-sees-thread-local-value-it-never-set", "thread %d: get of a key it never set returned an object", me);
    }
    assign(acc, $I(c_int(acc) + i * (me + 1)));
    sch_point(SCH_SITE_USER);
  }
  int64_t fin = -1;
  var e = VF_CATCH(fin = c_int(get(current(Thread), $S("acc"))));
  if (e) sch_fail("thread-local-lost", "thread %d: reading its accumulator at the end raised %s", me, vf_exc_name(e));
  if (mem(current(Thread), $S("acc"))) { var a = get(current(Thread), $S("acc")); rem(current(Thread), $S("acc")); if (a != LAZYMAIN) del_raw(a); }
  result[me] = fin;
  olog((char)('0' + me));
  done_flag[me] = 1;
  return NULL;
}

/* ---- mixed dispatch ------------------------------------------------------------------------
** Every worker works on objects only it knows, all of one type of its own (Int, String, Float, a plain struct without
** class instances, a user type with its own Cmp/Hash/Assign/Len/C_Int), and calls the type-dispatched operations in a
** loop; every answer is compared with the value computed in C.  Whatever the other threads look up at the same time,
** a call on an Int must be answered by Int's implementation. */
struct DPair { int32_t a, b; };
var DPair = Cello(DPair);
struct DKey { int64_t k, pad; };
var DKey;
static int DKey_Cmp(var a, var b) { int64_t x = ((struct DKey*)a)->k, y = ((struct DKey*)cast(b, DKey))->k; return x < y ? 1 : x > y ? -1 : 0; }   /* descending */
static uint64_t DKey_Hash(var a) { return (uint64_t)(((struct DKey*)a)->k * 7 + 3); }
static void DKey_Assign(var a, var b) { ((struct DKey*)a)->k = ((struct DKey*)cast(b, DKey))->k; ((struct DKey*)a)->pad = 77; }
static size_t DKey_Len(var a) { return (size_t)(((struct DKey*)a)->k & 7); }
static int64_t DKey_C_Int(var a) { return ((struct DKey*)a)->k + 1000; }
var DKey = Cello(DKey, Instance(Cmp, DKey_Cmp), Instance(Hash, DKey_Hash), Instance(Assign, DKey_Assign), Instance(Len, DKey_Len), Instance(C_Int, DKey_C_Int));

static char disp_kinds[SCH_MAXT + 1] = "ISFPU";
static int disp_iters = 2;
static int64_t disp_result[SCH_MAXT]; static volatile int disp_done[SCH_MAXT];
static int sgn(int64_t x) { return x < 0 ? -1 : x > 0 ? 1 : 0; }

/* one worker's whole workload; `who` names the worker in messages; returns a digest of every answer it received */
static void disp_rounds(int who, char kind, int iters, var st, volatile int64_t* dgp, volatile int* rdp) {
  const char* kn = kind == 'I' ? "Int" : kind == 'S' ? "String" : kind == 'F' ? "Float" : kind == 'P' ? "plain struct" : "user type with its own Cmp";
#define DCHK(what, got, want) do { int64_t g_ = (int64_t)(got), w_ = (int64_t)(want); *dgp = *dgp * 31 + g_; \
    if (g_ != w_) sch_fail("dispatched-call-answered-for-another-type", "worker %d (%s values, round %d): %s gave %" PRId64 ", its own type's implementation gives %" PRId64, who, kn, (int)*rdp, what, g_, w_); } while (0)
  static const int64_t iv[] = { 0, 1, 256, -1, 65536, 255, (int64_t)1 << 40, -256 };
  static const char* sv[] = { "", "a", "ab", "abc", "b", "a\xc3\xa9", "\xff", "ab\x80z" };
  static const double fv[] = { 0.0, 1.5, -2.25, 256.0, 1.0, 1e300, -1.0, 0.5 };
  static const int32_t pv[][2] = { { 0, 0 }, { 1, 0 }, { 256, 0 }, { 0, 1 }, { -1, 5 }, { 1, 256 }, { 65536, 2 }, { 255, 255 } };
  {
    for (int rd = 0; rd < iters; rd++) {
      int i = rd % 8, j = (rd / 8 + rd * 3 + 1) % 8;
      *rdp = rd;
      if (kind == 'I') {
        var x = $I(iv[i]), y = $I(iv[j]), t = $I(-7);
        DCHK("sign of cmp", sgn(cmp(x, y)), sgn(iv[i] < iv[j] ? -1 : iv[i] > iv[j]));
        DCHK("eq", eq(x, y), iv[i] == iv[j]); DCHK("lt", lt(x, y), iv[i] < iv[j]); DCHK("ge", ge(x, y), iv[i] >= iv[j]);
        DCHK("hash", hash(x), (uint64_t)iv[i]); DCHK("c_int", c_int(y), iv[j]);
        assign(t, y); DCHK("c_int after assign", c_int(t), iv[j]);
        DCHK("cast", cast(x, Int) == x, 1);
        if (rd % 4 == 0) { var c = copy(x); DCHK("c_int of copy", c_int(c), iv[i]); DCHK("eq with copy", eq(c, x), 1); del(c); }
      } else if (kind == 'S') {
        var x = $S((char*)sv[i]), y = $S((char*)sv[j]);
        DCHK("sign of cmp", sgn(cmp(x, y)), sgn(strcmp(sv[i], sv[j])));
        DCHK("eq", eq(x, y), strcmp(sv[i], sv[j]) == 0); DCHK("gt", gt(x, y), strcmp(sv[i], sv[j]) > 0); DCHK("le", le(x, y), strcmp(sv[i], sv[j]) <= 0);
        DCHK("len", len(x), strlen(sv[i])); DCHK("hash", hash(y), hash_data((void*)sv[j], strlen(sv[j])));
        assign(st, y); DCHK("c_str after assign", strcmp(c_str(st), sv[j]), 0); DCHK("len after assign", len(st), strlen(sv[j]));
        DCHK("cast", cast(y, String) == y, 1);
        if (rd % 4 == 0) { var c = copy(x); DCHK("c_str of copy", strcmp(c_str(c), sv[i]), 0); DCHK("eq with copy", eq(c, x), 1); del(c); }
      } else if (kind == 'F') {
        var x = $F(fv[i]), y = $F(fv[j]), t = $F(9.0);
        union { double d; uint64_t u; } bits; bits.d = fv[i];
        DCHK("sign of cmp", sgn(cmp(x, y)), fv[i] < fv[j] ? -1 : fv[i] > fv[j]);
        DCHK("eq", eq(x, y), fv[i] == fv[j]); DCHK("lt", lt(x, y), fv[i] < fv[j]);
        DCHK("hash", hash(x), bits.u); DCHK("c_float", c_float(y) == fv[j], 1);
        assign(t, y); DCHK("c_float after assign", c_float(t) == fv[j], 1);
        DCHK("cast", cast(x, Float) == x, 1);
        if (rd % 4 == 0) { var c = copy(y); DCHK("c_float of copy", c_float(c) == fv[j], 1); del(c); }
      } else if (kind == 'P') {
        struct DPair* x = $(DPair, pv[i][0], pv[i][1]); struct DPair* y = $(DPair, pv[j][0], pv[j][1]); struct DPair* t = $(DPair, -3, -3);
        DCHK("sign of cmp", sgn(cmp(x, y)), sgn(memcmp(pv[i], pv[j], sizeof pv[0])));
        DCHK("eq", eq(x, y), memcmp(pv[i], pv[j], sizeof pv[0]) == 0); DCHK("neq", neq(x, y), memcmp(pv[i], pv[j], sizeof pv[0]) != 0);
        DCHK("hash", hash(x), hash_data((void*)pv[i], sizeof pv[0]));
        assign(t, y); DCHK("first field after assign", t->a, pv[j][0]); DCHK("second field after assign", t->b, pv[j][1]);
        DCHK("cast", cast(x, DPair) == (var)x, 1);
        if (rd % 4 == 0) { struct DPair* c = copy(x); DCHK("fields of copy", c->a == pv[i][0] && c->b == pv[i][1], 1); del(c); }
      } else {
        struct DKey* x = $(DKey, iv[i], 1); struct DKey* y = $(DKey, iv[j], 2); struct DKey* t = $(DKey, -5, 3);
        DCHK("sign of cmp", sgn(cmp(x, y)), sgn(iv[i] < iv[j] ? 1 : iv[i] > iv[j] ? -1 : 0));
        DCHK("eq", eq(x, y), iv[i] == iv[j]); DCHK("lt", lt(x, y), iv[i] > iv[j]);
        DCHK("hash", hash(x), (uint64_t)(iv[i] * 7 + 3)); DCHK("len", len(y), (size_t)(iv[j] & 7)); DCHK("c_int", c_int(x), iv[i] + 1000);
        assign(t, y); DCHK("key after assign", t->k, iv[j]); DCHK("marker left by its own Assign", t->pad, 77);
        DCHK("cast", cast(y, DKey) == (var)y, 1);
        if (rd % 4 == 0) { struct DKey* c = copy(x); DCHK("key of copy", c->k, iv[i]); DCHK("marker left by its own Assign in copy", c->pad, 77); del(c); }
      }
    }
  }
#undef DCHK
}
static int64_t disp_work(int who, char kind, int iters) {
  volatile int64_t dg = 0; volatile int rd = 0;
  const char* kn = kind == 'I' ? "Int" : kind == 'S' ? "String" : kind == 'F' ? "Float" : kind == 'P' ? "plain struct" : "user type with its own Cmp";
  var st = kind == 'S' ? new_raw(String, $S("init")) : NULL;
  var e = VF_CATCH(disp_rounds(who, kind, iters, st, &dg, &rd));
  if (e) sch_fail("dispatched-call-raised", "worker %d (%s values, round %d): an operation on its own objects raised %s", who, kn, (int)rd, vf_exc_name(e));
  if (st) del_raw(st);
  return dg;
}

static var body_dispatch(var args) {
  my_id();
  int idx = (int)c_int(get(args, $I(0)));
  disp_result[idx] = disp_work(idx + 1, disp_kinds[idx], disp_iters);
  olog((char)('1' + idx));
  disp_done[idx] = 1;
  return NULL;
}

/* ---- scenarios -------------------------------------------------------------------------- */

static int64_t solo_alloc[SCH_MAXT], solo_exc[SCH_MAXT], solo_tls[SCH_MAXT], solo_cont[SCH_MAXT];
static int nthreads = 2;
static var (*the_body)(var);
static const char* the_body_name;
static int64_t* the_solo;

static void check_teardown(int nt) {
  /* every thread has exited and torn its collector down: all its objects are finalised, on its own thread */
  for (int t = 1; t <= nt; t++) {
    if (tobj_made[t] != tobj_fin[t]) sch_fail("objects-left-after-thread-exit", "thread %d allocated %d objects, %d were finalised by the time it was joined", t, tobj_made[t], tobj_fin[t]);
  }
}

/* N workers running the same kind of body concurrently; the main thread only creates and joins */
static void scn_workers(void) {
  var th[SCH_MAXT];
  var fobj = $(Function, the_body);   /* one object, read-only once the threads run */
  if (the_body == body_lazy) set(current(Thread), $S("acc"), LAZYMAIN);   /* the main thread's own value under the key the workers use */
  for (int i = 0; i < nthreads; i++) { th[i] = new_raw(Thread, fobj); if (the_body == body_args) call(th[i], ARG1, ARG2); else call(th[i]); }
  for (int i = 0; i < nthreads; i++) {
    join(th[i]);
    /* under the scheduler thread ids are creation order; free-running, ids are handed out on first use, so only the
    ** state after the last join can be judged there */
    if (!free_mode && !done_flag[i + 1]) sch_fail("join-returned-before-thread-finished", "join of thread %d returned before its function finished", i + 1);
  }
  if (free_mode) for (int i = 1; i <= nthreads; i++) if (!done_flag[i]) sch_fail("join-returned-before-thread-finished", "all threads joined but worker %d has not finished its function", i);
  uint64_t dg = 0;
  for (int i = 0; i < nthreads; i++) {
    if (result[i + 1] != the_solo[i + 1]) sch_fail("thread-result-differs-from-solo-run", "%s thread %d computed %" PRId64 ", alone it computes %" PRId64, the_body_name, i + 1, result[i + 1], the_solo[i + 1]);
    dg = dg * 1000003 + (uint64_t)result[i + 1];
  }
  check_teardown(nthreads);
  if (the_body == body_lazy) {
    var e = VF_CATCH({ if (get(current(Thread), $S("acc")) != LAZYMAIN || c_int(LAZYMAIN) != 5000) sch_fail("main-threads-thread-local-value-changed-by-workers", "main thread: the accumulator under its own key holds %" PRId64 " after the workers ran, it had set it to 5000 and never touched it", c_int(LAZYMAIN)); });
    if (e) sch_fail("thread-local-lost", "main thread: reading its own key after the workers ran raised %s", vf_exc_name(e));
    rem(current(Thread), $S("acc"));
  }
  for (int i = 0; i < nthreads; i++) del_raw(th[i]);
  sch->digest = dg;
  snprintf(sch->obs, sizeof sch->obs, "%s x%d ok, finish order %s", the_body_name, nthreads, order_log);
}

/* the parent allocates and collects while a child starts, works and exits */
static int managed_thread;   /* the Thread object itself is collector-managed and held on the parent's stack */
static int heap_args;        /* the arguments are handed over as a heap Tuple the caller owns (call_with), not as the stack tuple of the call() macro */
static int seed_tls;         /* the parent installs a collector-managed value in the child's thread-local storage before starting it */
static void scn_parent_collects(void) {
  var th = managed_thread ? (var)new(Thread, $(Function, the_body)) : (var)new_raw(Thread, $(Function, the_body));
  /* (a raw Thread object is invisible to the parent's collector, so only a managed one can keep a managed value alive) */
  if (seed_tls) set(th, $S("seed"), managed_thread ? (var)new(Int, $I(7777)) : (var)new_raw(Int, $I(7777)));
  var hargs = NULL;
  if (the_body == body_args && heap_args) { hargs = new_raw(Tuple, ARG1, ARG2); call_with(th, hargs); }
  else if (the_body == body_args) call(th, ARG1, ARG2); else call(th);
  var keep[4];
  for (int i = 0; i < 12; i++) { var o = new(TObj, $I(i)); if (i % 3 == 0) keep[i / 3] = o; }
  for (int k = 0; k < 4; k++) { struct TObj* o = keep[k]; if (o->owner != 0 || tobj_state[o->serial] != 1) sch_fail("live-object-finalised-by-another-threads-work", "main thread: an object it still holds was finalised"); }
  join(th);
  if (hargs) {
    /* the caller's own object: still its to read and to delete, exactly once */
    var e = VF_CATCH({ if (len(hargs) != 2 || get(hargs, $I(0)) != ARG1 || get(hargs, $I(1)) != ARG2) sch_fail("callers-argument-object-changed", "the heap Tuple the caller passed to call_with no longer holds its two items after the thread finished"); });
    if (e) sch_fail("callers-argument-object-released-by-the-thread", "reading the caller's own argument Tuple after join raised %s", vf_exc_name(e));
    del_raw(hargs);
  }
  if (!done_flag[1]) sch_fail("join-returned-before-thread-finished", "join returned before the thread's function finished");
  if (result[1] != the_solo[1]) sch_fail("thread-result-differs-from-solo-run", "%s thread computed %" PRId64 ", alone it computes %" PRId64, the_body_name, result[1], the_solo[1]);
  check_teardown(1);
  if (managed_thread) del(th); else del_raw(th);
  sch->digest = (uint64_t)result[1];
  snprintf(sch->obs, sizeof sch->obs, "parent-collects+%s ok, main made %d finalised %d when child finished", the_body_name, tobj_made[0], tobj_fin[0]);
}

/* mutual exclusion */
static var mtx;
static volatile int in_section, counter, entered;
static int mutex_pattern;   /* 0 lock/unlock, 1 trylock-else-retry, 2 with-block */

static void critical(void) {
  if (in_section) sch_fail("critical-sections-overlap", "thread %d entered the section guarded by the Mutex while another thread was inside", sch_me);
  in_section = 1;
  olog((char)('0' + sch_me));
  int c = counter;
  sch_point(SCH_SITE_USER);          /* a preemption here must not let anyone else in */
  counter = c + 1;
  entered++;
  in_section = 0;
}

static var body_mutex(var args) {
  int me = my_id();
  for (int k = 0; k < 2; k++) {
    if (mutex_pattern == 0) { lock(mtx); critical(); unlock(mtx); }
    else if (mutex_pattern == 1) {
      int tries = 0;
      while (!trylock(mtx)) { if (++tries > 50) { sch_fail("trylock-never-succeeds", "thread %d: trylock failed 50 times", me); break; } sch_yield(); }
      if (tries <= 50) { critical(); unlock(mtx); }
    } else {
      with (m in mtx) { critical(); }
    }
  }
  done_flag[me] = 1;
  return NULL;
}

static void scn_mutex(void) {
  mtx = new_raw(Mutex);
  var th[SCH_MAXT];
  var fobj = $(Function, body_mutex);
  for (int i = 0; i < nthreads; i++) { th[i] = new_raw(Thread, fobj); if (the_body == body_args) call(th[i], ARG1, ARG2); else call(th[i]); }
  for (int i = 0; i < nthreads; i++) join(th[i]);
  if (counter != entered || entered != 2 * nthreads) sch_fail("lost-update-in-critical-section", "counter=%d after %d sections (expected %d)", counter, entered, 2 * nthreads);
  for (int i = 0; i < nthreads; i++) del_raw(th[i]);
  del_raw(mtx);
  sch->digest = (uint64_t)counter;
  snprintf(sch->obs, sizeof sch->obs, "mutex pattern %d: %d sections, entry order %s", mutex_pattern, entered, order_log);
}

/* a thread that ends inside its critical section: its section never ends, so nobody may enter afterwards (trylock keeps
** failing; nobody calls lock, which would wait for ever) and the threads that keep trying never overlap */
static volatile int abandoned;
static var body_abandon(var args) {
  my_id();
  lock(mtx);
  abandoned = 1;
  olog('A');
  done_flag[sch_me] = 1;
  return NULL;              /* no unlock */
}
static int abandon_tries = 3;   /* tries=<n>: attempts per thread (3 threads x 3 attempts is beyond an exhaustive bound-1 run) */
static var body_try_after_abandon(var args) {
  int me = my_id();
  for (int k = 0; k < abandon_tries; k++) {
    if (trylock(mtx)) {
      sch_fail("abandoned-mutex-acquired", "thread %d: trylock succeeded on a Mutex whose owner ended inside its critical section without unlocking", me);
      critical();
      unlock(mtx);
    }
    sch_yield();
  }
  done_flag[me] = 1;
  return NULL;
}
static void scn_abandon(void) {
  mtx = new_raw(Mutex);
  var t0 = new_raw(Thread, $(Function, body_abandon));
  call(t0); join(t0);
  var th[SCH_MAXT];
  var fobj = $(Function, body_try_after_abandon);
  for (int i = 0; i < nthreads; i++) { th[i] = new_raw(Thread, fobj); call(th[i]); }
  for (int i = 0; i < nthreads; i++) join(th[i]);
  if (entered) sch_fail("abandoned-mutex-acquired", "%d critical sections were entered after the owner of the Mutex had ended inside its own", entered);
  sch->digest = (uint64_t)entered;
  snprintf(sch->obs, sizeof sch->obs, "abandoned mutex: %d sections entered afterwards", entered);
  /* the Mutex is still locked by a thread that no longer exists: it is not destroyed */
}

/* one Thread object run twice (call, join, call) while another thread is alive in between */
static void scn_rerun(void) {
  var t = new_raw(Thread, $(Function, body_exc)), u = new_raw(Thread, $(Function, body_exc));
  call(t); join(t);
  call(u);
  call(t);
  join(u); join(t);
  for (int id = 1; id <= 3; id++) {
    if (!done_flag[id]) sch_fail("join-returned-before-thread-finished", "run %d did not finish", id);
    if (result[id] != the_solo[1]) sch_fail("thread-result-differs-from-solo-run", "run %d of the exception workload computed %" PRId64 ", alone it computes %" PRId64, id, result[id], the_solo[1]);
  }
  del_raw(t); del_raw(u);
  sch->digest = (uint64_t)result[3];
  snprintf(sch->obs, sizeof sch->obs, "rerun ok");
}

/* join publishes: the joiner reads what the child wrote, immediately after join */
static volatile int64_t shared_cell[4];
static var body_writer(var args) {
  my_id();
  for (int i = 0; i < 4; i++) { shared_cell[i] = 10 + i; if (i == 1) sch_point(SCH_SITE_USER); }
  done_flag[sch_me] = 1;
  return NULL;
}
static void scn_join(void) {
  var th = new_raw(Thread, $(Function, body_writer));
  call(th);
  sch_point(SCH_SITE_USER);
  join(th);
  if (!done_flag[1]) sch_fail("join-returned-before-thread-finished", "join returned before the thread's function finished");
  for (int i = 0; i < 4; i++) if (shared_cell[i] != 10 + i) sch_fail("join-does-not-publish", "after join cell %d reads %" PRId64, i, shared_cell[i]);
  if (running(th) && 0) { }
  del_raw(th);
  sch->digest = 1;
  snprintf(sch->obs, sizeof sch->obs, "join ok");
}

/* mixed dispatch: worker i works on values of kind disp_kinds[i]; the reference digests come from the same workload run
** in the explorer process before any thread exists */
static int64_t disp_solo[SCH_MAXT];
static var MIXIDX[SCH_MAXT];             /* static argument objects: the worker's index */
static void scn_dispatch(void) {
  var th[SCH_MAXT];
  var fobj = $(Function, body_dispatch);
  for (int i = 0; i < nthreads; i++) { th[i] = new_raw(Thread, fobj); call(th[i], MIXIDX[i]); }
  for (int i = 0; i < nthreads; i++) join(th[i]);
  uint64_t dg = 0;
  for (int i = 0; i < nthreads; i++) {
    if (!disp_done[i]) sch_fail("join-returned-before-thread-finished", "all threads joined but worker %d has not finished its function", i + 1);
    else if (disp_result[i] != disp_solo[i]) sch_fail("thread-result-differs-from-solo-run", "dispatch worker %d (kind %c) computed %" PRId64 ", alone it computes %" PRId64, i + 1, disp_kinds[i], disp_result[i], disp_solo[i]);
    dg = dg * 1000003 + (uint64_t)disp_result[i];
  }
  for (int i = 0; i < nthreads; i++) del_raw(th[i]);
  sch->digest = dg;
  snprintf(sch->obs, sizeof sch->obs, "dispatch %.*s x%d rounds ok, finish order %s", nthreads, disp_kinds, disp_iters, order_log);
}

/* hand-over: the main thread makes objects (registered with its collector, held on its stack), a child uses them and -
** hand_del=1 - calls del() on every other one; the main thread allocates (and collects) meanwhile, joins, reads all of
** them and deletes them itself.  An object belongs to the collector of the thread that made it: whatever the child does,
** it is finalised once, by the main thread, and not before the main thread lets go of it */
#define HAND_N 6
static var hand_obj[HAND_N]; static int hand_del = 1;
static var body_handover(var args) {
  int me = my_id();
  int64_t d = 0;
  for (int k = 0; k < HAND_N; k++) {
    struct TObj* o = hand_obj[k];
    d = d * 31 + o->val;
    if (k == 2) { var mine = new(TObj, $I(9000 + k)); (void)mine; }   /* its own collector has objects of its own, too */
    if (hand_del && k % 2 == 0) {
      var e = VF_CATCH(del(o));
      if (e) sch_fail("del-of-foreign-object-raised", "child: del() of an object made by the main thread raised %s", vf_exc_name(e));
    }
  }
  for (int k = 0; k < HAND_N; k++) d = d * 31 + ((struct TObj*)hand_obj[k])->val;
  result[me] = d;
  olog((char)('0' + me));
  done_flag[me] = 1;
  return NULL;
}
static void scn_handover(void) {
  var keep[HAND_N];
  int64_t want = 0;
  for (int k = 0; k < HAND_N; k++) { keep[k] = new(TObj, $I(500 + k)); hand_obj[k] = keep[k]; }
  for (int k = 0; k < HAND_N; k++) want = want * 31 + 500 + k;
  for (int k = 0; k < HAND_N; k++) want = want * 31 + 500 + k;
  var th = new_raw(Thread, $(Function, body_handover));
  call(th);
  for (int i = 0; i < 10; i++) { var o = new(TObj, $I(i)); (void)o; }     /* the owner's collector works meanwhile */
  join(th);
  if (!done_flag[1]) sch_fail("join-returned-before-thread-finished", "join returned before the thread's function finished");
  else if (result[1] != want) sch_fail("thread-result-differs-from-solo-run", "the child read %" PRId64 " from the objects handed to it, their contents give %" PRId64, result[1], want);
  for (int k = 0; k < HAND_N; k++) {
    struct TObj* o = keep[k];
    if (o->serial <= 0 || o->serial >= 4096 || tobj_state[o->serial] != 1 || o->owner != 0 || o->val != 500 + k) {
      sch_fail("object-finalised-while-its-owner-still-holds-it", "main thread: object %d, made by it and still on its stack, was finalised or damaged while the child %s it", k, hand_del && k % 2 == 0 ? "called del() on" : "read");
      continue;
    }
    var e = VF_CATCH({ if (type_of(o) != TObj) sch_fail("object-finalised-while-its-owner-still-holds-it", "main thread: object %d is no longer a TObj", k); });
    if (e) sch_fail("object-finalised-while-its-owner-still-holds-it", "main thread: looking at object %d after join raised %s", k, vf_exc_name(e));
  }
  int fin_before = tobj_fin[0];
  if (!sch->failed) for (int k = 0; k < HAND_N; k++) {
    int64_t serial = ((struct TObj*)keep[k])->serial;
    del(keep[k]);
    if (tobj_state[serial] != 2) sch_fail("owners-del-does-not-finalise", "main thread: del() of its own object %d did not finalise it (the child %s it before)", k, hand_del && k % 2 == 0 ? "called del() on" : "only read");
  }
  if (!sch->failed && tobj_fin[0] - fin_before != HAND_N) sch_fail("object-finalised-twice", "%d finalisations for the %d objects the main thread deleted", tobj_fin[0] - fin_before, HAND_N);
  check_teardown(1);
  del_raw(th);
  sch->digest = (uint64_t)result[1];
  snprintf(sch->obs, sizeof sch->obs, "handover ok, main made %d finalised %d", tobj_made[0], tobj_fin[0]);
}

/* ---- mixed entry kinds on one Mutex ("lockmix") ------------------------------------------
** Every worker runs its own short program over L (lock, section, unlock), T (one trylock; on success section, unlock;
** on failure it goes on without entering) and W (`with (x in m) { section }`).  Whatever the mix: no thread is inside a
** section while another is; a with block holds the Mutex for its whole body (there is a scheduling point inside every
** section) and its exit releases exactly the hold its entry took (the sections that follow still exclude each other and
** the Mutex is free once every section has ended); every L and W section runs exactly once. */
static char mix_prog[SCH_MAXT][8];       /* program of worker i (0-based) */
static volatile int mix_holder, mix_holder_kind;   /* harness view: id+1 of the thread between its entry and its release */
static volatile int mix_expected, mix_try_failed;

static void mix_critical_section(int me, char kind) {
  if (in_section || mix_holder)
    sch_fail("critical-sections-overlap", "thread %d entered its section through %s while thread %d, which entered through %s, was still inside the section guarded by the same Mutex",
      me, kind == 'L' ? "lock" : kind == 'T' ? "trylock" : "a with block", mix_holder - 1, mix_holder_kind == 'L' ? "lock" : mix_holder_kind == 'T' ? "trylock" : "a with block");
  mix_holder = me + 1; mix_holder_kind = kind;
  in_section = 1;
  olog((char)('0' + me)); olog(kind);
  int c = counter;
  sch_point(SCH_SITE_USER);          /* a preemption here must not let anyone else in */
  if (mix_holder != me + 1) sch_fail("critical-sections-overlap", "thread %d: while it was inside its %s section another thread entered and left", me, kind == 'L' ? "lock" : kind == 'T' ? "trylock" : "with-block");
  counter = c + 1;
  entered++;
  in_section = 0;
  mix_holder = 0;
}

static var body_mix(var args) {
  int me = my_id();
  const char* p = mix_prog[c_int(get(args, $I(0)))];
  for (; *p; p++) {
    if (*p == 'L') { lock(mtx); mix_critical_section(me, 'L'); unlock(mtx); __sync_fetch_and_add(&mix_expected, 1); }
    else if (*p == 'T') {
      if (trylock(mtx)) { mix_critical_section(me, 'T'); unlock(mtx); __sync_fetch_and_add(&mix_expected, 1); }
      else {
        /* under the scheduler nothing runs between the library's attempt and this line, and the harness view changes only
        ** while the Mutex is held: a refusal with nobody inside is "busy" reported for a free Mutex */
        if (!free_mode && !mix_holder) sch_fail("trylock-refused-on-free-mutex", "thread %d: trylock returned false although no thread was inside a section of this Mutex", me);
        __sync_fetch_and_add(&mix_try_failed, 1);
      }
    }
    else { with (m in mtx) { mix_critical_section(me, 'W'); } __sync_fetch_and_add(&mix_expected, 1); }
  }
  done_flag[me] = 1;
  return NULL;
}

static void scn_lockmix(void) {
  mtx = new_raw(Mutex);
  var th[SCH_MAXT];
  var fobj = $(Function, body_mix);
  for (int i = 0; i < nthreads; i++) { th[i] = new_raw(Thread, fobj); call(th[i], MIXIDX[i]); }
  for (int i = 0; i < nthreads; i++) join(th[i]);
  for (int i = 1; i <= nthreads; i++) if (!done_flag[i]) sch_fail("join-returned-before-thread-finished", "all threads joined but worker %d has not finished its program", i);
  if (counter != entered || entered != mix_expected) sch_fail("lost-update-in-critical-section", "counter=%d after %d sections were entered and %d left", counter, entered, mix_expected);
  /* every section has ended, every entry was paired with its own release: the Mutex is free */
  if (!trylock(mtx)) sch_fail("mutex-still-held-after-every-section-ended", "all %d sections ended and released, but the main thread's trylock is refused", entered);
  else unlock(mtx);
  for (int i = 0; i < nthreads; i++) del_raw(th[i]);
  del_raw(mtx);
  sch->digest = (uint64_t)counter * 16 + (uint64_t)mix_try_failed;
  snprintf(sch->obs, sizeof sch->obs, "lockmix: %d sections, %d refused trylocks, entry order %s", entered, mix_try_failed, order_log);
}

/* ---- thread-local storage across Thread object lifetimes ("tlshist") --------------------
** The main thread runs a history over two Thread slots: n<s> create, c<s> call, j<s> join, d<s> delete.  Every run of a
** Thread (a) looks at its own storage, current(Thread) used as a key/value store, before touching it: a key may be there
** only if an earlier run of this same Thread object left it, and then with that run's value - a freshly created Thread
** holds nothing, whatever other Thread objects existed, ran, were joined or deleted before; (b) sets one or two keys to
** values only this run uses and reads them back, again after a scheduling point.  The main thread keeps a value of its own
** under one of the same key names for the whole history and never sees a key only the workers set. */
#define HIST_KEYS 2
#define HIST_MAXRUN 8
static const char* hist_key[HIST_KEYS] = { "ka", "kb" };
static char hist_prog[40];
static var hist_model[2][HIST_KEYS];       /* what earlier runs of the Thread object now in the slot left in its storage */
static int hist_model_run[2][HIST_KEYS];
static int hist_gen[2], hist_ngen, hist_obj_runs[2];   /* the how-manieth Thread object created is in the slot; how often it was run */
static int hist_run_slot[HIST_MAXRUN + 1], hist_last_run[2], hist_nrun;
static var HISTVAL[HIST_MAXRUN + 1][HIST_KEYS], HISTRUN[HIST_MAXRUN + 1], HISTMAIN;
static volatile int hist_done[HIST_MAXRUN + 1];

static var body_hist(var args) {
  my_id();
  int r = (int)c_int(get(args, $I(0)));
  int s = hist_run_slot[r];
  var self = current(Thread);
  for (int k = 0; k < HIST_KEYS; k++) {
    volatile int present = 0; volatile var got = NULL;
    var e = VF_CATCH({ present = mem(self, $S((char*)hist_key[k])); if (present) got = get(self, $S((char*)hist_key[k])); });
    if (e) { sch_fail("thread-local-storage-unreadable", "run %d: looking up \"%s\" in its own storage raised %s", r, hist_key[k], vf_exc_name(e)); continue; }
    if (present && !hist_model[s][k])
      sch_fail("thread-sees-thread-local-value-it-never-set", "run %d (the %s run of Thread object #%d) finds key \"%s\" in its own storage at start; no run of this Thread object ever set it", r, hist_obj_runs[s] > 1 ? "second or later" : "first", hist_gen[s], hist_key[k]);
    else if (present && got != hist_model[s][k])
      sch_fail("thread-local-value-diverted", "run %d (Thread object #%d): key \"%s\" was left by run %d of the same object, but holds another value now", r, hist_gen[s], hist_key[k], hist_model_run[s][k]);
    if (!present) { hist_model[s][k] = NULL; hist_model_run[s][k] = 0; }
    if (!present) {
      /* get() of a key this thread does not hold is a KeyError - also, and above all, when the main thread holds a value
      ** under the same name ("ka") in its own storage: the lazily-created thread-local idiom relies on it */
      volatile var leaked = NULL;
      var e2 = VF_CATCH(leaked = get(self, $S((char*)hist_key[k])));
      if (!e2) sch_fail(leaked == HISTMAIN ? "thread-reads-main-threads-thread-local-value" : "thread-local-get-answers-for-absent-key",
        "run %d (Thread object #%d): mem() says key \"%s\" is not in its own storage, yet get() returns %s", r, hist_gen[s], hist_key[k], leaked == HISTMAIN ? "the object the main thread keeps under that name in the main thread's storage" : "an object");
      else if (e2 != KeyError) sch_fail("thread-local-storage-unreadable", "run %d: get() of the absent key \"%s\" raised %s, not KeyError", r, hist_key[k], vf_exc_name(e2));
    }
  }
  /* its own values: key r%2 always, the other one too in every third run */
  for (int k = 0; k < HIST_KEYS; k++) {
    if (k != r % 2 && r % 3 != 0) continue;
    set(self, $S((char*)hist_key[k]), HISTVAL[r][k]);
    hist_model[s][k] = HISTVAL[r][k]; hist_model_run[s][k] = r;
  }
  for (int pass = 0; pass < 2; pass++) {
    for (int k = 0; k < HIST_KEYS; k++) {
      volatile int present = 0; volatile var got = NULL;
      var e = VF_CATCH({ present = mem(self, $S((char*)hist_key[k])); if (present) got = get(self, $S((char*)hist_key[k])); });
      if (e) { sch_fail("thread-local-storage-unreadable", "run %d: looking up \"%s\" in its own storage raised %s", r, hist_key[k], vf_exc_name(e)); continue; }
      if (hist_model[s][k] && (!present || got != hist_model[s][k])) sch_fail("thread-local-value-not-seen-by-its-own-thread", "run %d: key \"%s\" of its own storage %s", r, hist_key[k], present ? "holds a value it did not put there" : "vanished");
      if (!hist_model[s][k] && present) sch_fail("thread-sees-thread-local-value-it-never-set", "run %d: key \"%s\" appeared in its own storage while it ran", r, hist_key[k]);
    }
    if (pass == 0) sch_point(SCH_SITE_USER);
  }
  olog((char)('0' + r));
  hist_done[r] = 1;
  return NULL;
}

static void scn_tlshist(void) {
  var hist_th[2] = { NULL, NULL };   /* on this stack: a collector-managed Thread object stays reachable */
  var fobj = $(Function, body_hist);
  set(current(Thread), $S("ka"), HISTMAIN);
  for (const char* p = hist_prog; p[0] && p[1]; p += 2) {
    int s = p[1] - '0';
    switch (p[0]) {
    case 'n':
      hist_th[s] = managed_thread ? (var)new(Thread, fobj) : (var)new_raw(Thread, fobj);
      hist_gen[s] = ++hist_ngen; hist_last_run[s] = 0; hist_obj_runs[s] = 0;
      for (int k = 0; k < HIST_KEYS; k++) { hist_model[s][k] = NULL; hist_model_run[s][k] = 0; }
      break;
    case 'c':
      if (hist_nrun == HIST_MAXRUN) { fprintf(stderr, "h_thread: too many runs in %s\n", hist_prog); _exit(2); }
      hist_nrun++; hist_run_slot[hist_nrun] = s; hist_last_run[s] = hist_nrun; hist_obj_runs[s]++;
      call(hist_th[s], HISTRUN[hist_nrun]);
      break;
    case 'j':
      join(hist_th[s]);
      if (!hist_done[hist_last_run[s]]) sch_fail("join-returned-before-thread-finished", "join of run %d returned before its function finished", hist_last_run[s]);
      break;
    case 'd':
      if (managed_thread) del(hist_th[s]); else del_raw(hist_th[s]);
      hist_th[s] = NULL;
      break;
    }
    /* the main thread's own storage is its own */
    if (!mem(current(Thread), $S("ka")) || get(current(Thread), $S("ka")) != HISTMAIN) sch_fail("thread-local-value-not-seen-by-its-own-thread", "main thread: its own key \"ka\" changed after step %c%c of the history", p[0], p[1]);
    if (mem(current(Thread), $S("kb"))) sch_fail("thread-sees-thread-local-value-it-never-set", "main thread finds key \"kb\", which only worker threads set, after step %c%c of the history", p[0], p[1]);
  }
  for (int s = 0; s < 2; s++) if (hist_th[s]) { if (managed_thread) del(hist_th[s]); else del_raw(hist_th[s]); }
  rem(current(Thread), $S("ka"));
  sch->digest = (uint64_t)hist_nrun;
  snprintf(sch->obs, sizeof sch->obs, "tlshist %s: %d runs ok, finish order %s", hist_prog, hist_nrun, order_log);
}

/* explore one program of a family with the shared explorer settings; counts accumulate in *ex */
static char family_name[96];
static void explore_program(struct sch_explorer* ex, const char* fmt, ...) {
  va_list ap; va_start(ap, fmt); vsnprintf(family_name, sizeof family_name, fmt, ap); va_end(ap);
  ex->name = family_name; vf.phase = family_name;
  vf_set_init(&ex->outcomes, 64); vf_set_init(&ex->traces, 1024);
  ex->ntraces = 0;
  vf_set_cur("%s: exploring", family_name);
  sch_explore_rec(ex, NULL, 0, 0);
  vf.states += ex->ntraces;
  for (size_t i = 0; i < ex->traces.cap; i++) free(ex->traces.keys[i]);
  free(ex->traces.keys); free(ex->traces.vals);
  for (size_t i = 0; i < ex->outcomes.cap; i++) free(ex->outcomes.keys[i]);
  free(ex->outcomes.keys); free(ex->outcomes.vals);
}

/* all tuples of non-empty programs over `ops`, thread i at most maxlen[i] long */
static uint64_t mix_programs;
static void mix_enumerate(struct sch_explorer* ex, const char* ops, const int* maxlen, int t) {
  if (t == nthreads) {
    char nm[64] = ""; for (int i = 0; i < nthreads; i++) { strcat(nm, i ? "+" : ""); strcat(nm, mix_prog[i]); }
    mix_programs++;
    explore_program(ex, "lockmix/%s/t%d/b%d", nm, nthreads, ex->bound);
    return;
  }
  int nops = (int)strlen(ops), idx[8];
  for (int len = 1; len <= maxlen[t]; len++) {
    memset(idx, 0, sizeof idx);
    for (;;) {
      for (int i = 0; i < len; i++) mix_prog[t][i] = ops[idx[i]];
      mix_prog[t][len] = 0;
      /* first=<ops>: only the programs of thread 1 that begin with one of these (splits the family over instances) */
      if (!(t == 0 && !strchr(vf_param("first", ops), mix_prog[0][0]))) mix_enumerate(ex, ops, maxlen, t + 1);
      int i = len - 1;
      while (i >= 0 && ++idx[i] == nops) idx[i--] = 0;
      if (i < 0) break;
    }
  }
  mix_prog[t][0] = 0;
}

/* all histories of exactly `len` steps over two slots that leave no thread running, contain at least `mincalls` calls,
** never delete a Thread object that was never run, and use slot 1 only after slot 0 (the slots are interchangeable) */
static uint64_t hist_programs;
static void hist_enumerate(struct sch_explorer* ex, int len, int mincalls, int pos, int* st, int* ran, int calls, int used0) {
  if (pos == len) {
    if (st[0] == 2 || st[1] == 2 || calls < mincalls) return;
    hist_prog[2 * pos] = 0;
    hist_programs++;
    explore_program(ex, "tlshist/%s/%s/b%d", hist_prog, managed_thread ? "managed" : "raw", ex->bound);
    return;
  }
  for (int s = 0; s < 2; s++) {
    if (s == 1 && !used0) continue;
    const char* cand = st[s] == 0 ? "n" : st[s] == 1 ? "cd" : "j";
    for (const char* c = cand; *c; c++) {
      if (*c == 'd' && !ran[s]) continue;
      if (*c == 'c' && calls == HIST_MAXRUN) continue;
      int st0 = st[s], ran0 = ran[s];
      st[s] = *c == 'n' ? 1 : *c == 'c' ? 2 : *c == 'j' ? 1 : 0;
      if (*c == 'n') ran[s] = 0;
      if (*c == 'c') ran[s] = 1;
      hist_prog[2 * pos] = *c; hist_prog[2 * pos + 1] = (char)('0' + s);
      hist_enumerate(ex, len, mincalls, pos + 1, st, ran, calls + (*c == 'c'), used0 || s == 0);
      st[s] = st0; ran[s] = ran0;
    }
  }
}

int64_t seq_ref(int id);

/* ---- free-running pass under ThreadSanitizer ---------------------------------------------
** The same scenario bodies, real concurrency, no scheduler: a data race report whose stacks lie
** in the per-thread singletons (GC.c, Exception.c) or the thread-local table (Table.c, Thread.c)
** is a violation of thread isolation; races in the type cache (idempotent fills of a type object's own words) are
** suppressed (lib/tsan.supp) or, for the instances that run without the suppression file, recognised by the memory
** they are about.  An execution that ends before the scenario does (signal, fault, uncaught exception) is a violation. */
static void run_free(struct sch_explorer* ex, int runs) {
  vf.phase = ex->name;
  char path[256];
  for (int k = 0; k < runs; k++) {
    /* one log per execution; instances of one scenario that differ in a parameter run side by side in one directory */
    snprintf(path, sizeof path, "tsan-%s%s%s%s%s%s-t%d-%d.log", vf_param("scn", "x"), vf_param("prog", NULL) ? "-" : "", vf_param("prog", ""), vf_param("kinds", NULL) ? "-" : "", vf_param("kinds", ""),
      managed_thread ? "-managed" : "", nthreads, k);
    for (char* c = path; *c; c++) if (*c == '/' || *c == '+') *c = '_';
    fflush(NULL);
    pid_t pid = fork();
    if (pid == 0) {
      int fd = open(path, O_WRONLY | O_CREAT | O_TRUNC, 0644);
      dup2(fd, 2);
      free_mode = 1; free_mode_flag = 1; sch_me = 0;
      memset(sch, 0, sizeof *sch);
      /* a fault in this execution belongs to it: the explorer's handlers (which write the result file) are not inherited */
      signal(SIGSEGV, SIG_DFL); signal(SIGFPE, SIG_DFL); signal(SIGBUS, SIG_DFL); signal(SIGABRT, SIG_DFL); signal(SIGILL, SIG_DFL); signal(SIGALRM, SIG_DFL);
      alarm(60);
      ex->scenario();
      sch->completed = 1;
      fflush(NULL);
      _exit(sch->failed ? 7 : 0);
    }
    int st = 0; waitpid(pid, &st, 0);
    vf.executions++; vf.transitions++;
    vf_set_cur("free-running %s run %d", ex->name, k);
    if (sch->failed) { char lab[200]; snprintf(lab, sizeof lab, "free/%s/%s", ex->name, sch->label); vf_violation(lab, NULL, "%s", sch->detail); }
    /* parse the sanitizer log: one violation per distinct pair of racing functions in isolated modules */
    int d23_seen = 0;
    FILE* f = fopen(path, "r");
    char line[1024]; int in_report = 0, frame = 0; char f1[96] = "", f2[96] = "", loc[96] = ""; int stack = 0, relevant = 0, in_type_c = 0;
    while (f && fgets(line, sizeof line, f)) {
      if (strstr(line, "WARNING: ThreadSanitizer: data race")) { in_report = 1; stack = 0; f1[0] = f2[0] = loc[0] = 0; relevant = 0; in_type_c = 0; continue; }
      if (!in_report) continue;
      if (strstr(line, "Write of size") || strstr(line, "Read of size") || strstr(line, "Previous write") || strstr(line, "Previous read") || strstr(line, "Previous atomic")) { stack++; frame = 0; continue; }
      char fn[96], file[256];
      if (stack >= 1 && stack <= 2 && sscanf(line, " #%*d %95s %255s", fn, file) == 2) {
        /* the access itself: the innermost frame that has source in the library or the harness (skips libc interceptors) */
        int is_src = strstr(file, "/src/") != NULL || strstr(file, "/harness/") != NULL || strstr(file, "/lib/vf") != NULL;
        if (is_src && !(stack == 1 ? f1[0] : f2[0])) {
          snprintf(stack == 1 ? f1 : f2, 96, "%s", fn);
          /* any unsynchronised access inside the library or inside the Mutex-guarded section of the harness; the accesses of
          ** src/Type.c are judged by the memory they are about, below (most instances also suppress them in lib/tsan.supp) */
          if ((strstr(file, "/src/") && !strstr(file, "/src/Type.c")) || strstr(fn, "critical")) relevant = 1;
          if (strstr(file, "/src/Type.c")) in_type_c = 1;
        }
        frame++;
      }
      if (sscanf(line, " Location is global '%95[^']'", loc) == 1) continue;
      if (strstr(line, "SUMMARY: ThreadSanitizer")) {
        in_report = 0;
        /* the type lookup fills words of the type object itself lazily, every thread with the same value (cache entries, the
        ** class memo of an entry, the header's type word); type objects are anonymous compound literals (or heap blocks).
        ** A race of the lookup code on any other global - a named file- or function-level variable - is state that one
        ** thread's lookup leaves for another thread's lookup */
        int shared_lookup_state = !relevant && in_type_c && loc[0] && strncmp(loc, ".compoundliteral", 16) != 0 && strncmp(loc, "__compound_literal", 18) != 0;
        if (shared_lookup_state) {
          char lab[300]; snprintf(lab, sizeof lab, "tsan/%s/race/type-lookup-state-shared-between-threads/%s", vf_param("scn", "x"), loc);
          vf_violation(lab, NULL, "ThreadSanitizer: data race between %s and %s on the global '%s': the type lookup of one thread leaves state the lookup of another thread uses (log %s)", f1, f2, loc, path);
        } else if (relevant) {
          /* D23 shape: a collector marking (Table_Mark and what it calls) races with a mutation of the same table by its owner thread */
          static const char* markers[] = { "Table_Mark", "Table_Key_Hash", "Table_Key", "Table_Val", "Table_Step", "GC_Recurse", "GC_Mark_Item", "GC_Mark_And_Recurse", "Thread_Mark", NULL };
          static const char* mutators[] = { "Table_Set_Move", "Table_Set", "Table_Rehash", "Table_Rem", "Table_Clear", "Table_Resize_More", "Table_Resize_Less", "Table_Swapspace_Key", NULL };
          int m1 = 0, m2 = 0, u1 = 0, u2 = 0;
          for (int q = 0; markers[q]; q++) { if (!strcmp(f1, markers[q])) m1 = 1; if (!strcmp(f2, markers[q])) m2 = 1; }
          for (int q = 0; mutators[q]; q++) { if (!strcmp(f1, mutators[q])) u1 = 1; if (!strcmp(f2, mutators[q])) u2 = 1; }
          char lab[300];
          if ((m1 || u1) && (m2 || u2) && (m1 || m2)) { d23_seen = 1; snprintf(lab, sizeof lab, "tsan/%s/race/collector-marks-table-while-owner-mutates-it", vf_param("scn", "x")); }
          else snprintf(lab, sizeof lab, "tsan/%s/race/%s~%s", vf_param("scn", "x"), f1[0] ? f1 : "-", f2[0] ? f2 : "-");
          vf_violation(lab, NULL, "ThreadSanitizer: data race between %s and %s in per-thread state (log %s)", f1, f2, path);
        } else vf.evaluations++;
      }
    }
    if (f) fclose(f);
    /* an execution that did not reach the end of the scenario: killed by a signal, or - the sanitizer run-time turns a fault,
    ** and the library an uncaught exception, into an ordinary exit - gone without the completion mark.  When the log of this
    ** very execution shows a collector walking a table its owner was mutating, the early end is that walk reading a
    ** half-written table (seen: "bad magic number" raised in the marking thread) and is reported with the race */
    if (WIFSIGNALED(st) || (!sch->failed && !sch->completed)) {
      char lab[300], how[96];
      if (WIFSIGNALED(st)) snprintf(how, sizeof how, "died with signal %d", WTERMSIG(st)); else snprintf(how, sizeof how, "left the process (exit status %d)", WIFEXITED(st) ? WEXITSTATUS(st) : -1);
      if (d23_seen) {
        snprintf(lab, sizeof lab, "tsan/%s/race/collector-marks-table-while-owner-mutates-it", vf_param("scn", "x"));
        vf_violation(lab, NULL, "free-running execution %s before the scenario reached its end, after a collector walked a table while its owner thread was mutating it (log %s)", how, path);
      } else {
        if (WIFSIGNALED(st)) snprintf(lab, sizeof lab, "free/%s/crash-signal-%d", ex->name, WTERMSIG(st)); else snprintf(lab, sizeof lab, "free/%s/execution-ended-before-the-scenario-did", ex->name);
        vf_violation(lab, NULL, "free-running execution %s before the scenario reached its end: a fault or an uncaught exception (log %s)", how, path);
      }
    }
  }
  vf.states = 1;
  vf_sample("free-running %s x%d under ThreadSanitizer", ex->name, runs);
}

#ifdef CELLO_VERIF
#define M(s) (1ULL << (s))
#else
#define M(s) 0ULL
#endif

int main(int argc, char** argv) {
  vf_init(argc, argv);
  sch = mmap(NULL, sizeof *sch, PROT_READ | PROT_WRITE, MAP_SHARED | MAP_ANONYMOUS, -1, 0);
  const char* scn = vf_param("scn", "mutex-lock");
  ARG1 = new_raw(Int, $I(41)); ARG2 = new_raw(Int, $I(42));
  nthreads = (int)vf_param_i("threads", 2);
  managed_thread = (int)vf_param_i("managed", 0);
  struct sch_explorer ex; memset(&ex, 0, sizeof ex);
  ex.bound = (int)vf_param_i("bound", 2);
  ex.max_schedules = (uint64_t)vf_param_i("max", 0);
  static char name[64]; snprintf(name, sizeof name, "%s/t%d/b%d", scn, nthreads, ex.bound);
  ex.name = name;
  uint64_t gc_sites = 0, exc_sites = 0, tab_sites = 0, thr_sites = 0;
#ifdef CELLO_VERIF
  gc_sites = M(CELLO_VP_GC_SET) | M(CELLO_VP_GC_MARK) | M(CELLO_VP_GC_SWEEP) | M(CELLO_VP_GC_FINALISE) | M(CELLO_VP_GC_REM);
  exc_sites = M(CELLO_VP_EXC_TRY) | M(CELLO_VP_EXC_THROW) | M(CELLO_VP_EXC_CATCH) | M(CELLO_VP_EXC_TRY_END);
  tab_sites = M(CELLO_VP_TABLE_SET) | M(CELLO_VP_TABLE_REHASH);
  thr_sites = M(CELLO_VP_THREAD_RUN_BEGIN) | M(CELLO_VP_THREAD_RUN_END) | M(CELLO_VP_THREAD_KEY_CREATE) | M(CELLO_VP_THREAD_MAIN_CREATE);
#endif

  if (strncmp(scn, "mutex-", 6) == 0) {
    mutex_pattern = strcmp(scn, "mutex-lock") == 0 ? 0 : strcmp(scn, "mutex-trylock") == 0 ? 1 : 2;
    ex.scenario = scn_mutex; ex.site_mask = 0;
  } else if (strcmp(scn, "lockmix") == 0 || strcmp(scn, "tlshist") == 0) {
    /* families of small programs, each explored exhaustively within the bound; handled below */
  } else if (strcmp(scn, "rerun") == 0) {
    the_body = body_exc; the_body_name = "exc"; ex.site_mask = exc_sites | thr_sites;
    static int64_t solo_r[SCH_MAXT]; the_solo = solo_r; the_solo[1] = seq_ref(1);
    ex.scenario = scn_rerun;
  } else if (strcmp(scn, "abandon") == 0) {
    ex.scenario = scn_abandon; ex.site_mask = 0; abandon_tries = (int)vf_param_i("tries", 3);
  } else if (strcmp(scn, "join") == 0) {
    ex.scenario = scn_join; ex.site_mask = thr_sites;
  } else if (strcmp(scn, "handover") == 0) {
    ex.scenario = scn_handover; ex.site_mask = gc_sites | thr_sites; hand_del = (int)vf_param_i("del", 1);
  } else if (strcmp(scn, "dispatch") == 0) {
    /* kinds=<one letter per worker over I S F P U>; iters=<rounds per worker>; scheduling points: every read / fill of a type's
    ** cache entries, the class memo of Type_Scan and the lazy header fill of type_of */
    snprintf(disp_kinds, sizeof disp_kinds, "%s", vf_param("kinds", "ISFPU"));
    if ((int)strlen(disp_kinds) < nthreads || strspn(disp_kinds, "ISFPU") != strlen(disp_kinds)) { fprintf(stderr, "h_thread: kinds=%s does not name a kind (I S F P U) for each of %d workers\n", disp_kinds, nthreads); _exit(2); }
    disp_iters = (int)vf_param_i("iters", 2);
    for (int i = 0; i < SCH_MAXT; i++) MIXIDX[i] = new_raw(Int, $I(i));
    ex.scenario = scn_dispatch;
    ex.site_mask = M(CELLO_VP_TYPE_CACHE_READ) | M(CELLO_VP_TYPE_CACHE_WRITE) | M(CELLO_VP_TYPE_SCAN_MEMO) | M(CELLO_VP_TYPE_OF_LAZY);
    for (int i = 0; i < nthreads; i++) {
      disp_solo[i] = disp_work(i + 1, disp_kinds[i], disp_iters);
      if (sch->failed) { char lab[200]; snprintf(lab, sizeof lab, "%s/single-threaded/%s", name, sch->label); vf_violation(lab, NULL, "with no other thread in the process: %s", sch->detail); vf_finish(); }
    }
  } else {
    int parent = strncmp(scn, "parent+", 7) == 0;
    const char* b = parent ? scn + 7 : scn;
    if (strcmp(b, "alloc") == 0) { the_body = body_alloc; the_body_name = "alloc"; ex.site_mask = gc_sites | thr_sites; }
    else if (strcmp(b, "exc") == 0) { the_body = body_exc; the_body_name = "exc"; ex.site_mask = exc_sites | (parent ? gc_sites : 0); }
    else if (strcmp(b, "tls") == 0) { the_body = body_tls; the_body_name = "tls"; ex.site_mask = tab_sites | (parent ? gc_sites : 0); }
    else if (strcmp(b, "lazy") == 0) { the_body = body_lazy; the_body_name = "lazy"; ex.site_mask = tab_sites; LAZYMAIN = new_raw(Int, $I(5000)); }
    else if (strcmp(b, "cont") == 0) { the_body = body_cont; the_body_name = "cont"; ex.site_mask = tab_sites | (parent ? gc_sites : 0); }
    else if (strcmp(b, "args") == 0) { the_body = body_args; the_body_name = "args"; ex.site_mask = gc_sites | thr_sites; seed_tls = (int)vf_param_i("seed", 0); heap_args = (int)vf_param_i("heapargs", 0); }
    else if (strcmp(b, "fmt") == 0) { the_body = body_fmt; the_body_name = "fmt"; ex.site_mask = M(CELLO_VP_TYPE_CACHE_READ) | exc_sites; }
    else { fprintf(stderr, "unknown scenario %s\n", scn); _exit(2); }
    static int64_t solo[SCH_MAXT];
    the_solo = solo;
    ex.scenario = parent ? scn_parent_collects : scn_workers;
    /* reference values: each worker run as the id-th created thread with nothing else running concurrently */
    for (int id = 1; id <= (parent ? 1 : nthreads); id++) the_solo[id] = seq_ref(id);
  }

  if (strcmp(scn, "lockmix") == 0 || strcmp(scn, "tlshist") == 0) {
    int is_mix = scn[0] == 'l';
    int freerun = vf_param_is("mode", "free", "sched");
    ex.scenario = is_mix ? scn_lockmix : scn_tlshist;
    ex.site_mask = is_mix ? 0 : (tab_sites | thr_sites);
    for (int i = 0; i < SCH_MAXT; i++) MIXIDX[i] = new_raw(Int, $I(i));
    for (int r = 0; r <= HIST_MAXRUN; r++) { HISTRUN[r] = new_raw(Int, $I(r)); for (int k = 0; k < HIST_KEYS; k++) HISTVAL[r][k] = new_raw(Int, $I(1000 * r + k)); }
    HISTMAIN = new_raw(Int, $I(-1));
    /* one program: prog=<text> (free-running pass), or the one named in a replayed case "family/<program>/..." */
    char one[64] = ""; const char* pp = vf_param("prog", NULL);
    if (vf.replay) { const char* a = strchr(vf.replay, '/'); const char* b = a ? strchr(a + 1, '/') : NULL; if (a && b && b - a - 1 < (long)sizeof one) { memcpy(one, a + 1, (size_t)(b - a - 1)); one[b - a - 1] = 0; } }
    else if (pp) snprintf(one, sizeof one, "%s", pp);
    if (vf.replay && strstr(vf.replay, "/managed/")) managed_thread = 1;
    if (one[0]) {
      if (is_mix) {
        nthreads = 0;
        for (char* tok = strtok(one, "+"); tok && nthreads < SCH_MAXT - 1; tok = strtok(NULL, "+")) snprintf(mix_prog[nthreads++], sizeof mix_prog[0], "%s", tok);
        char nm[64] = ""; for (int i = 0; i < nthreads; i++) { strcat(nm, i ? "+" : ""); strcat(nm, mix_prog[i]); }
        snprintf(family_name, sizeof family_name, "lockmix/%s/t%d/b%d", nm, nthreads, ex.bound);
      } else {
        snprintf(hist_prog, sizeof hist_prog, "%s", one);
        snprintf(family_name, sizeof family_name, "tlshist/%s/%s/b%d", hist_prog, managed_thread ? "managed" : "raw", ex.bound);
      }
      ex.name = family_name;
      if (freerun) { run_free(&ex, (int)vf_param_i("runs", 5)); vf_finish(); }
      if (vf.replay) sch_replay(&ex, vf.replay);
      else { explore_program(&ex, "%s", strdup(family_name)); mix_programs = hist_programs = 1; }
    } else if (is_mix) {
      /* lens=2,1: the longest program of thread 1, 2, ...; ops=LTW the alphabet */
      int maxlen[SCH_MAXT]; const char* ls = vf_param("lens", "2,1"); nthreads = 0;
      while (*ls && nthreads < SCH_MAXT - 1) { maxlen[nthreads++] = (int)strtol(ls, (char**)&ls, 10); if (*ls == ',') ls++; }
      mix_enumerate(&ex, vf_param("ops", "LTW"), maxlen, 0);
    } else {
      int st[2] = { 0, 0 }, ran[2] = { 0, 0 };
      for (int len = (int)vf_param_i("minlen", 4); len <= (int)vf_param_i("len", 7); len++) hist_enumerate(&ex, len, (int)vf_param_i("mincalls", 2), 0, st, ran, 0, 0);
    }
    if (!vf.replay) {
      uint64_t np = is_mix ? mix_programs : hist_programs;
      if (ex.capped) { vf.exhaustive = 0; vf_note("%s: schedule cap/deadline hit after %" PRIu64 " schedules of %" PRIu64 " programs", scn, ex.schedules, np); }
      else vf_note("%s: %" PRIu64 " programs, for each all schedules with at most %d preemptions: %" PRIu64 " schedules (by preemptions: %" PRIu64 "/%" PRIu64 "/%" PRIu64 "/%" PRIu64 "), up to %d choice points each, %" PRIu64 " distinct (program, interleaving) pairs",
        scn, np, ex.bound, ex.schedules, ex.by_preempt[0], ex.by_preempt[1], ex.by_preempt[2], ex.by_preempt[3], ex.max_points, (uint64_t)vf.states);
      vf_extra("programs", "%" PRIu64, np);
    }
    vf_extra("schedules", "%" PRIu64, ex.schedules);
    vf_extra("preemption_bound", "%d", ex.bound);
    vf_extra("max_choice_points", "%d", ex.max_points);
    vf_extra("distinct_outcomes", "%" PRIu64, ex.noutcomes);
    vf.outcomes = ex.noutcomes;
    vf_finish();
    return 0;
  }

  if (vf_param_is("mode", "free", "sched")) { run_free(&ex, (int)vf_param_i("runs", 5)); vf_finish(); }
  if (vf.replay) sch_replay(&ex, vf.replay);
  else sch_explore(&ex);
  vf_extra("schedules", "%" PRIu64, ex.schedules);
  vf_extra("preemption_bound", "%d", ex.bound);
  vf_extra("max_choice_points", "%d", ex.max_points);
  vf_extra("distinct_outcomes", "%" PRIu64, ex.noutcomes);
  vf.outcomes = ex.noutcomes;
  vf_finish();
  return 0;
}

/* run the body as the id-th created thread with nothing else running concurrently */
static int seq_id;
static var body_nop(var args) { return NULL; }
static void seq_scenario(void) {
  for (int i = 1; i < seq_id; i++) { var d = new_raw(Thread, $(Function, body_nop)); call(d); join(d); del_raw(d); }
  var th = new_raw(Thread, $(Function, the_body));
  if (seed_tls) set(th, $S("seed"), new_raw(Int, $I(7777)));
  if (the_body == body_args) call(th, ARG1, ARG2); else call(th);
  join(th); del_raw(th);
  sch->digest = (uint64_t)result[seq_id];
}
int64_t seq_ref(int id) {
  seq_id = id;
  struct vf_child r = sch_run_one(seq_scenario, NULL, 0, 0, 20);
  if (!sch->completed || r.signaled || sch->failed) { fprintf(stderr, "h_thread: sequential reference run of %s as thread %d failed (%s %s)\n", the_body_name, id, sch->label, sch->detail); _exit(2); }
  return (int64_t)sch->digest;
}
