/*
** h_tree.c - explicit-state exploration of Tree (C03; with prop=C05/C09/C10/C12 the
** ledger / total-order / equality+hash / failed-operation oracles are added on the same
** state graph).
**
** Parameters: keys=int|wideint|str|probe|picky  vals=int|probe|blob|picky  nkeys=N (<=16)  nvals=1|2
**             (blob = plain 20-byte struct without any class instance; every byte of every
**              binding is compared with the reference after every operation; key and value
**              types of different sizes: int->probe 8/24, probe->int 24/8, str->probe 8/24,
**              int->blob 8/20, probe->blob 24/20)
**             (wideint = Int keys 0, 1, -1, 2^31, -2^31, 2^32, -2^32, 2^31-1, 2^32+1, INT64_MAX,
**              INT64_MIN, 2^62: pairs 2^31 and 2^32 apart; the reference order is the int64 order)
**             (picky = Probe's twin - same layout, same ledger - whose Assign raises ValueError for
**              the value 77 before it changes anything.  With picky values the alphabet gains
**              set(k, refused value) for every key (new and existing), with picky keys
**              set(refused key, v): ValueError, tree unchanged node for node and binding for
**              binding, ledger unchanged.  leaky=1 also offers set(NEW key, refused value) when
**              the key type owns resources - see proposed/tree-set-refused-value-leaks-key.md)
**             prop=C03|C05|C09|C10|C12
**             two=0|1   (second tree B: copy/assign/swap/del between A and B)
**             mode=bfs|ladder|pairs   depth=N (0 = fixpoint)  memo=0|1
**             alias=0|1 (adds set(t, k, v) where k is the key object the tree's own
**                        iteration yields - the  foreach (k in t) set(t, k, v)  idiom)
**             cross=0|1 (adds assignment onto an already constructed tree of OTHER element
**                        types: for every type pair out of {Int->Int, Int->Blob, Int->Probe,
**                        Probe->Int, String->Probe, Probe->Blob} that shares exactly one side
**                        with this instance's pair: A=assign(empty Tree<K',V'>, A),
**                        A=assign(filled Tree<K',V'>, A), with two=1 also B=filled Tree<K',V'>;
**                        assign(B,A).  The target must end up with the source's types, slot
**                        sizes, bindings byte for byte; its old contents finalised once.)
**             table=0|1 (adds A = Tree<..> := Table<..> := A, a round trip through a Table)
**             ladder: sizes=a,b,c  (key counts; keys=int|str)
**
** Alphabet (simplest first): set(k,v) for every key and value, rem(k) for every key (a
** self-loop demanding KeyError when k is absent), resize(0), A=copy(A), assign into a new
** and into a non-empty tree, A=new(Tree,K,V,bindings...), [alias], [B-side operations],
** [C12 failing operations].  State = nitems + pre-order dump of shape, colours, keys, values.
**
** White-box: includes the library's own Tree.c so that struct Tree and the node
** accessors are visible (exact state canonicalisation and the red-black audit).  The
** verdict on the map behaviour rests on the public API (len/mem/get/iteration).
**
** The implementation descends "left" for larger keys, so iteration is in descending key
** order.  Nothing here depends on that: the audit and the iteration oracle only demand
** that the in-order sequence is strictly monotone (either direction, consistently).
*/

#include "Tree.c"
#include "vf_bfs.h"
#include "vf_probe.h"

/* ---- Picky: Probe's twin (same layout, same ledger) whose assign refuses one value ---------- */
#define PICKY_POISON 77
struct Picky { int64_t val; uint64_t token; char* block; };
extern var Picky;
static int64_t Picky_Value_Of(var obj) {
  if (obj == NULL) return 0;
  int64_t v = (type_of(obj) is Picky or type_of(obj) is Probe) ? ((struct Probe*)obj)->val : c_int(obj);
  /* refuse BEFORE anything is constructed or changed: a well-behaved element type */
  if (v == PICKY_POISON) throw(ValueError, "Picky refuses the value %i", $I(v));
  return v;
}
static void Picky_New(var self, var args) {
  int64_t v = len(args) >= 1 ? Picky_Value_Of(get(args, $I(0))) : 0;
  Probe_Ensure(self, "construct"); ((struct Probe*)self)->val = v;
}
static void Picky_Assign(var self, var obj) {
  int64_t v = Picky_Value_Of(obj);
  Probe_Ensure(self, "assign"); ((struct Probe*)self)->val = v;
}
var Picky = Cello(Picky,
  Instance(New,    Picky_New, Probe_Del),
  Instance(Assign, Picky_Assign),
  Instance(Cmp,    Probe_Cmp),
  Instance(Hash,   Probe_Hash),
  Instance(C_Int,  Probe_C_Int),
  Instance(Show,   Probe_Show, NULL));
static int kpicky, vpicky, leaky;     /* keys=picky / vals=picky are kind 2 (Probe layout and ledger) with the type Picky */
static var refusedkey, refusedval;     /* Picky objects carrying the refused value */

#define MAXK 16
static var* R;                  /* stack-resident root slots (scanned by the collector) */
#define TA (R[0])
#define TB (R[1])

static int K;                   /* universe size */
static int NV;                  /* number of distinct values (1 or 2) */
static int two, propC05, propC09, propC10, propC12, pairs_mode, memo, alias_op;
/* light=1: the per-state oracle reads the nodes through the white-box view only (no mem/get/iteration between two operations),
** get(k) and mem(k) are operations of the alphabet, and the key asked for last is part of the state key: whatever a lookup
** leaves behind in hidden state (a memo of the node found last, a cursor) survives until the next operation */
static int light, lastq = -1;
/* ... together with the (at most qwin) operations applied since: a memo that one modification path forgets to drop shows only
** in 'query ; modification ; modification ; query', and a key made of the visible tree and the last query alone merges that
** history with shorter ones that end in the same tree.  After more than qwin operations the query is forgotten (a bound). */
static int qwin = 2, since[4], since_n;
static var KT, VT;              /* key and value types */
static int kkind, vkind;        /* 0 int, 1 str, 2 probe, 3 blob (values only) */
static var keyobj[MAXK];
static var valobj[2];
static var blobobj[MAXK][2];    /* blob values: one carrier per (key, value index), all 20 bytes depend on both */
/* carriers of the other element types, for targets constructed with foreign types (cross=1 / table=1) */
static var fkey[3][MAXK];       /* by key kind */
static var fval[4][MAXK][2];    /* by value kind (0 int, 2 probe, 3 blob), key, value index */
static int cross_op, table_op;
struct tpair { int kk, vk; };
static const struct tpair type_pairs[] = { {0, 0}, {0, 3}, {0, 2}, {2, 0}, {1, 2}, {2, 3} };
static struct tpair foreign[6]; static int nforeign;
static char xname[16][96];
static var wrongkey, wrongval;
static char skeys[MAXK][8];
static int in_ladder;
static int wide;                /* keys=wideint */
static int64_t kval[MAXK];      /* the number key #i is made from (its place in the key order) */
static const int64_t widekeys[12] = { 0, 1, -1, INT64_C(2147483648), -INT64_C(2147483648), INT64_C(4294967296), -INT64_C(4294967296),
  INT64_C(2147483647), INT64_C(4294967297), INT64_MAX, INT64_MIN, INT64_C(4611686018427387904) };

/* reference model: association lists for A and B */
#define BLOBSZ 20
struct Blob { unsigned char b[BLOBSZ]; };
var Blob = Cello(Blob);

struct model { int exists; int present[MAXK]; int val[MAXK]; unsigned char bytes[MAXK][BLOBSZ]; };
static struct model MA, MB;
static int A_managed, B_managed;
static int64_t led_base;
static const char* lastkind = "init";

/* history of the execution in progress (for the pairs mode) */
static int hist[4096]; static int hist_n;

static int mcount(struct model* m) { int n = 0; for (int i = 0; i < K; i++) n += m->present[i]; return n; }

static int model_equal(struct model* a, struct model* b) {
  for (int i = 0; i < K; i++) {
    if (a->present[i] != b->present[i]) return 0;
    if (a->present[i] && a->val[i] != b->val[i]) return 0;
  }
  return 1;
}

static const char* kname(void) { return kkind == 0 ? (wide ? "wideint" : "int") : kkind == 1 ? "str" : kpicky ? "picky" : "probe"; }
static const char* vname(void) { return vkind == 2 ? (vpicky ? "picky" : "probe") : vkind == 3 ? "blob" : "int"; }

/* name the kind of operation in progress: it is the middle part of every site label, and
** (through vf.phase) of the label of a crash / hang / sanitizer report during or after it */
static char phasebuf[96];
static void kind(const char* k) {
  lastkind = k;
  snprintf(phasebuf, sizeof phasebuf, "tree/%s-%s/%s", kname(), vname(), k);
  vf.phase = phasebuf;
}

static char labelbuf[160];
static const char* L(const char* oracle) {
  snprintf(labelbuf, sizeof labelbuf, "tree/%s-%s/%s/%s", kname(), vname(), lastkind, oracle);
  return labelbuf;
}

/* rank of a key object in the key order (the number it was made from) */
static int64_t keyrank(var k) {
  if (kkind == 1) {
    const char* s = c_str(k);
    if (s == NULL || s[0] != 'k' || !isdigit((unsigned char)s[1])) return -1000000;
    char* end; long r = strtol(s + 1, &end, 10);
    if (*end) return -1000000;
    return r;
  }
  return c_int(k);
}

static int key_index(var k) {
  int64_t r = keyrank(k);
  if (kkind == 1) {
    if (r < 0 || r >= K) return -1;
    if (strcmp(c_str(k), skeys[r]) != 0) return -1;
    return (int)r;
  }
  for (int i = 0; i < K; i++) if (kval[i] == r) return i;
  return -1;
}

/* place of key #i in the reference order, computed on int64 (String keys "k00".. sort like their index) */
static int64_t kord(int i) { return kkind == 1 ? i : kval[i]; }

/* the 20 bytes a blob value for (key k, value index v) consists of: no two alike, no zero byte */
static void blob_fill(unsigned char* b, int k, int v) {
  for (int i = 0; i < BLOBSZ; i++) b[i] = (unsigned char)(1 + ((k * 37 + v * 101 + i * 11 + (i * i) % 7) % 251));
}

/* value index stored at v (for blob: only if all 20 bytes are those of (ki, index)), else -1 */
static int64_t val_at(var v, int ki) {
  if (vkind != 3) return c_int(v);
  if (ki < 0) return -1;
  for (int x = 0; x < 2; x++) { unsigned char b[BLOBSZ]; blob_fill(b, ki, x); if (memcmp(v, b, BLOBSZ) == 0) return x; }
  return -1;
}

/* the object to pass as value argument for set(key k, value index v) */
static var valarg(int k, int v) { return vkind == 3 ? blobobj[k][v] : valobj[v]; }

/* reference side of a set */
static void model_set(struct model* m, int k, int v) {
  m->present[k] = 1; m->val[k] = v;
  if (vkind == 3) memcpy(m->bytes[k], blobobj[k][v], BLOBSZ);
}

static var mk_tree(void) { return new_raw(Tree, KT, VT); }

static void del_tree(var t, int managed) { if (managed) del(t); else del_raw(t); }

static void make_carriers(void) {
  for (int i = 0; i < K; i++) {
    keyobj[i] = kkind == 0 ? (var)new_raw(Int, $I(kval[i])) : kkind == 1 ? (var)new_raw(String, $S(skeys[i])) : new_raw_with(kpicky ? Picky : Probe, tuple($I(kval[i])));
  }
  for (int v = 0; v < 2; v++) valobj[v] = vkind == 2 ? new_raw_with(vpicky ? Picky : Probe, tuple($I(v))) : (var)new_raw(Int, $I(v));
  if (kpicky || vpicky) {
    refusedkey = new_raw(Picky, $I(0)); ((struct Picky*)refusedkey)->val = PICKY_POISON;
    refusedval = new_raw(Picky, $I(0)); ((struct Picky*)refusedval)->val = PICKY_POISON;
  }
  if (vkind == 3 && blobobj[0][0] == NULL) {
    for (int i = 0; i < K; i++) for (int v = 0; v < 2; v++) { blobobj[i][v] = new_raw(Blob); blob_fill(((struct Blob*)blobobj[i][v])->b, i, v); }
  }
  if (cross_op || table_op) {
    for (int i = 0; i < K; i++) {
      fkey[0][i] = new_raw(Int, $I(kval[i])); fkey[1][i] = new_raw(String, $S(skeys[i])); fkey[2][i] = new_raw(Probe, $I(kval[i]));
      for (int v = 0; v < 2; v++) {
        fval[0][i][v] = new_raw(Int, $I(v)); fval[2][i][v] = new_raw(Probe, $I(v));
        fval[3][i][v] = new_raw(Blob); blob_fill(((struct Blob*)fval[3][i][v])->b, i, v);
      }
    }
  }
  led_base = vf_led_live;
}

static void drop_foreign_carriers(void) {
  if (!(cross_op || table_op)) return;
  for (int i = 0; i < K; i++) {
    for (int kk = 0; kk < 3; kk++) del_raw(fkey[kk][i]);
    for (int v = 0; v < 2; v++) { del_raw(fval[0][i][v]); del_raw(fval[2][i][v]); del_raw(fval[3][i][v]); }
  }
}

static var ktype_of(int kk) { return kk == 0 ? Int : kk == 1 ? String : Probe; }
static var vtype_of(int vk) { return vk == 2 ? Probe : vk == 3 ? Blob : Int; }
static const char* kkname(int kk) { return kk == 0 ? "Int" : kk == 1 ? "String" : "Probe"; }
static const char* vkname(int vk) { return vk == 2 ? "Probe" : vk == 3 ? "Blob" : "Int"; }

/* a tree (or table) constructed with the foreign element types, optionally holding three bindings of its own */
static var mk_foreign(var container, struct tpair fp, int fill) {
  var t = new_raw_with(container, tuple(ktype_of(fp.kk), vtype_of(fp.vk)));
  if (fill) {
    int vb = NV - 1;
    set(t, fkey[fp.kk][0], fval[fp.vk][0][vb]);
    set(t, fkey[fp.kk][K - 1], fval[fp.vk][K - 1][vb]);
    if (K > 2) set(t, fkey[fp.kk][K / 2], fval[fp.vk][K / 2][0]);
  }
  return t;
}

static void reset(void) {
  /* ledger tokens are never reused: when half of them are spent and nothing but the
  ** argument carriers is live, start a fresh ledger */
  if ((kkind == 2 || vkind == 2 || cross_op || table_op) && vf_led_next > VF_LED_MAX / 2 && vf_led_live == led_base && !vf_led_err[0]) {
    for (int i = 0; i < K; i++) del_raw(keyobj[i]);
    for (int v = 0; v < 2; v++) del_raw(valobj[v]);
    if (kpicky || vpicky) { del_raw(refusedkey); del_raw(refusedval); }
    drop_foreign_carriers();
    vf_led_reset();
    make_carriers();
  }
  vf_led_err[0] = 0;
  TA = mk_tree(); A_managed = 0;
  TB = NULL; B_managed = 0;
  memset(&MA, 0, sizeof MA); memset(&MB, 0, sizeof MB);
  MA.exists = 1; lastq = -1; since_n = 0;
  kind("init");
  hist_n = 0;
}

static void cleanup(void) {
  if (TA) { var e = VF_CATCH(del_tree(TA, A_managed)); (void)e; TA = NULL; }
  if (TB) { var e = VF_CATCH(del_tree(TB, B_managed)); (void)e; TB = NULL; }
  if (propC05 && !vf_led_err[0] && vf_led_live != led_base) {
    vf_violation(L("leak-after-delete"), NULL, "after deleting every tree %" PRId64 " Probe elements are still live (expected 0)", vf_led_live - led_base);
  }
  /* resynchronise so that one leak is not reported for every later execution */
  led_base = vf_led_live;
}

/* ---- white-box canonical form and red-black audit ------------------------------- */

static size_t canon_node(struct Tree* m, var node, char* buf, size_t cap, size_t o, int depth, long* budget) {
  if (o + 8 >= cap) return o;
  if (node == NULL) { buf[o++] = '.'; return o; }
  if (depth > 48 || --*budget < 0) { buf[o++] = '!'; return o; }
  int ki = key_index(Tree_Key(m, node));
  int64_t v = val_at(Tree_Val(m, node), ki);
  buf[o++] = ki < 0 ? '?' : "0123456789abcdefghijklmnopqrstuv"[ki];
  buf[o++] = Tree_Is_Red(m, node) ? 'r' : 'b';
  buf[o++] = (v >= 0 && v <= 9) ? (char)('0' + v) : '?';
  o = canon_node(m, *Tree_Left(m, node), buf, cap, o, depth + 1, budget);
  o = canon_node(m, *Tree_Right(m, node), buf, cap, o, depth + 1, budget);
  return o;
}

/* nitems, then pre-order with explicit NULL markers: <key><r|b><value> left right  ('.' = no child) */
static size_t canon_one(var t_, char* buf, size_t cap) {
  struct Tree* m = t_;
  if (!m) return (size_t)snprintf(buf, cap, "-");
  long budget = 4 * MAXK + 8;
  size_t o = (size_t)snprintf(buf, cap, "%zu:", m->nitems);
  o = canon_node(m, m->root, buf, cap, o, 0, &budget);
  buf[o] = 0;
  return o;
}

static size_t canon(char* buf, size_t cap) {
  size_t o = canon_one(TA, buf, cap);
  if (two) { o += snprintf(buf + o, cap - o, " B:"); o += canon_one(TB, buf + o, cap - o); }
  if (light && lastq >= 0) {
    o += snprintf(buf + o, cap - o, " q%d", lastq);
    for (int i = 0; i < since_n; i++) o += snprintf(buf + o, cap - o, ";%d", since[i]);
  }
  return o;
}

struct aud {
  struct Tree* m; size_t count, limit; int maxh;
  int have_prev; int64_t prev; int dir;
  const char* err; char msg[200];
};

static int aud_fail(struct aud* a, const char* err, const char* fmt, ...) {
  if (!a->err) {
    a->err = err;
    va_list ap; va_start(ap, fmt); vsnprintf(a->msg, sizeof a->msg, fmt, ap); va_end(ap);
  }
  return -1;
}

/* returns the black height of the subtree (NULL = 0), or -1 after recording the first fault */
static int audit_node(struct aud* a, var node, var parent, int depth) {
  struct Tree* m = a->m;
  if (node == NULL) return 0;
  if (depth > 200) return aud_fail(a, "audit-too-deep", "path longer than 200 nodes (cycle?)");
  if (++a->count > a->limit) return aud_fail(a, "audit-node-count", "more than %zu nodes reachable from the root, len is %zu", a->limit, m->nitems);
  if (Tree_Get_Parent(m, node) != parent)
    return aud_fail(a, "audit-parent-link", "a node at depth %d does not point back to its parent", depth);
  bool red = Tree_Is_Red(m, node);
  if (red && parent != NULL && Tree_Is_Red(m, parent))
    return aud_fail(a, "audit-red-red", "red node at depth %d has a red parent", depth);
  if (depth + 1 > a->maxh) a->maxh = depth + 1;
  int l = audit_node(a, *Tree_Left(m, node), node, depth + 1);
  if (l < 0) return -1;
  if (header(Tree_Key(m, node))->type != m->ktype || header(Tree_Val(m, node))->type != m->vtype)
    return aud_fail(a, "audit-header", "a node's key/value header does not carry the tree's key/value type");
  int64_t rk = keyrank(Tree_Key(m, node));
  if (!in_ladder && key_index(Tree_Key(m, node)) < 0) return aud_fail(a, "audit-foreign-key", "a node holds a key outside the universe");
  if (a->have_prev) {
    int d = rk < a->prev ? -1 : rk > a->prev ? 1 : 0;
    if (d == 0) return aud_fail(a, "audit-duplicate-key", "key %" PRId64 " is stored in two nodes", rk);
    if (a->dir == 0) a->dir = d;
    else if (d != a->dir) return aud_fail(a, "audit-search-order", "in-order walk is not monotone at key %" PRId64 " (after %" PRId64 ")", rk, a->prev);
  }
  a->have_prev = 1; a->prev = rk;
  int r = audit_node(a, *Tree_Right(m, node), node, depth + 1);
  if (r < 0) return -1;
  if (l != r) return aud_fail(a, "audit-black-height", "black heights %d and %d below a node at depth %d", l, r, depth);
  return l + (red ? 0 : 1);
}

/* h <= 2*log2(n+1)  <=>  2^h <= (n+1)^2 */
static int height_ok(int h, size_t n) {
  if (h >= 62) return 0;
  return ((uint64_t)1 << h) <= (uint64_t)(n + 1) * (uint64_t)(n + 1);
}

static int audit(var t_, const char* who) {
  struct Tree* m = t_;
  struct aud a; memset(&a, 0, sizeof a);
  a.m = m; a.limit = m->nitems + 4;
  /* every node embeds one key and one value: the slot sizes the tree allocates and copies
  ** with must cover the types it says it holds (they differ in size in the mixed instances) */
  if (m->ktype != KT || m->vtype != VT) { vf_violation(L("audit-types"), NULL, "%s: key/value type of the tree changed", who); return 1; }
  if (m->ksize < size(KT) || m->vsize < size(VT)) {
    vf_violation(L(m->ksize < size(KT) ? "audit-key-slot-too-small" : "audit-value-slot-too-small"), NULL,
      "%s: the tree reserves %zu/%zu bytes per key/value, the types need %zu/%zu", who, m->ksize, m->vsize, size(KT), size(VT));
#ifndef VF_ASAN
    /* the next insertion into such a tree writes past its node: without a sanitizer the heap
    ** (and with it this process and its result file) cannot be trusted after that, so the
    ** instance ends here with what it has; the ASan build goes on and reports the overflow */
    vf.exhaustive = 0;
    vf_note("exploration stopped at the first tree whose slots are smaller than its types (heap corruption would follow)");
    vf_finish();
#endif
    return 1;
  }
  if (m->root == NULL) {
    if (m->nitems != 0) { vf_violation(L("audit-nitems"), NULL, "%s: no root but nitems=%zu", who, m->nitems); return 1; }
    return 0;
  }
  if (Tree_Is_Red(m, m->root)) { vf_violation(L("audit-root-red"), NULL, "%s: the root is red", who); return 1; }
  int bh = audit_node(&a, m->root, NULL, 0);
  if (bh < 0) { vf_violation(L(a.err), NULL, "%s: %s", who, a.msg); return 1; }
  if (a.count != m->nitems) { vf_violation(L("audit-nitems"), NULL, "%s: %zu nodes reachable, nitems=%zu", who, a.count, m->nitems); return 1; }
  if (!height_ok(a.maxh, a.count)) { vf_violation(L("audit-height"), NULL, "%s: height %d exceeds 2*log2(n+1) for n=%zu", who, a.maxh, a.count); return 1; }
  return 0;
}

/* ---- black-box ordered-map oracle ---------------------------------------------- */

static int check_map(var t, struct model* m, const char* who) {
  size_t n = (size_t)mcount(m);
  size_t l = len(t);
  if (l != n) { vf_violation(L("len"), NULL, "%s: len=%zu, reference has %zu bindings", who, l, n); return 1; }
  for (int i = 0; i < K; i++) {
    volatile bool isin = false;
    var e = VF_CATCH(isin = mem(t, keyobj[i]));
    if (e) { vf_violation(L("mem-raises"), NULL, "%s: mem(key#%d) raised %s", who, i, vf_exc_name(e)); return 1; }
    if ((int)isin != m->present[i]) { vf_violation(L("mem"), NULL, "%s: mem(key#%d)=%d, reference says %d", who, i, (int)isin, m->present[i]); return 1; }
    volatile var got = NULL;
    e = VF_CATCH(got = get(t, keyobj[i]));
    if (m->present[i]) {
      if (e) { vf_violation(L("get-raises"), NULL, "%s: get(key#%d) raised %s for a present key", who, i, vf_exc_name(e)); return 1; }
      if (val_at(got, i) != m->val[i]) { vf_violation(L("get-value"), NULL, "%s: get(key#%d)=%" PRId64 ", last set value is %d", who, i, val_at(got, i), m->val[i]); return 1; }
      if (vkind == 3 && memcmp(got, m->bytes[i], BLOBSZ) != 0) { vf_violation(L("get-value-bytes"), NULL, "%s: the %d bytes of get(key#%d) differ from the bytes last stored", who, BLOBSZ, i); return 1; }
      if (type_of(got) != VT) { vf_violation(L("get-type"), NULL, "%s: get(key#%d) is not of the value type", who, i); return 1; }
    } else {
      if (e != KeyError) { vf_violation(L("get-absent"), NULL, "%s: get(key#%d) of an absent key gave %s, KeyError expected", who, i, vf_exc_name(e)); return 1; }
    }
  }
  /* forward iteration: strictly monotone, every key of the reference once */
  int fwd[MAXK + 16]; size_t nf = 0; int dir = 0;
  size_t horizon = l + 8;
  var it = iter_init(t);
  while (it != Terminal && nf < horizon) {
    int ki = key_index(it);
    if (ki < 0) { vf_violation(L("iter-foreign"), NULL, "%s: iteration yielded a key outside the universe", who); return 1; }
    if (!m->present[ki]) { vf_violation(L("iter-ghost"), NULL, "%s: iteration yielded absent key#%d", who, ki); return 1; }
    if (nf > 0) {
      int d = kord(ki) < kord(fwd[nf - 1]) ? -1 : kord(ki) > kord(fwd[nf - 1]) ? 1 : 0;
      if (d == 0) { vf_violation(L("iter-duplicate"), NULL, "%s: iteration yielded key#%d twice in a row", who, ki); return 1; }
      if (dir == 0) dir = d;
      else if (d != dir) { vf_violation(L("iter-not-monotone"), NULL, "%s: forward iteration is not strictly monotone: key#%d after key#%d", who, ki, fwd[nf - 1]); return 1; }
    }
    if (type_of(it) != KT) { vf_violation(L("iter-type"), NULL, "%s: iterated key is not of the key type", who); return 1; }
    if (val_at(get(t, it), ki) != m->val[ki]) { vf_violation(L("iter-get"), NULL, "%s: get(iterated key#%d) disagrees with the reference", who, ki); return 1; }
    fwd[nf++] = ki;
    it = iter_next(t, it);
  }
  if (nf != n) { vf_violation(L("iter-count"), NULL, "%s: forward iteration yielded %zu keys, len is %zu", who, nf, n); return 1; }
  size_t nb = 0;
  it = iter_last(t);
  while (it != Terminal && nb < horizon) {
    int ki = key_index(it);
    if (nb >= nf || ki != fwd[nf - 1 - nb]) { vf_violation(L("iter-backward"), NULL, "%s: backward iteration is not the reverse of forward iteration (position %zu)", who, nb); return 1; }
    nb++;
    it = iter_prev(t, it);
  }
  if (nb != nf) { vf_violation(L("iter-backward-count"), NULL, "%s: backward iteration yielded %zu keys, forward %zu", who, nb, nf); return 1; }
  if (key_type(t) != KT || val_type(t) != VT || iter_type(t) != KT) { vf_violation(L("types"), NULL, "%s: key_type/val_type/iter_type changed", who); return 1; }
  return 0;
}

/* ---- C05: ledger ---------------------------------------------------------------- */

static int intact_node(struct Tree* m, var node, long* budget) {
  if (node == NULL) return 0;
  if (--*budget < 0) return 0;
  if (kkind == 2 && !vf_probe_intact(Tree_Key(m, node))) return 1;
  if (vkind == 2 && !vf_probe_intact(Tree_Val(m, node))) return 2;
  int r = intact_node(m, *Tree_Left(m, node), budget);
  if (r) return r;
  return intact_node(m, *Tree_Right(m, node), budget);
}

static int check_ledger(void) {
  if (vf_led_err[0]) { vf_violation(L("ledger"), NULL, "%s", vf_led_err); vf_led_err[0] = 0; return 1; }
  int64_t expect = 0;
  int per = (kkind == 2) + (vkind == 2);
  expect += per * mcount(&MA);
  if (TB) expect += per * mcount(&MB);
  if (vf_led_live - led_base != expect) {
    vf_violation(L(vf_led_live - led_base > expect ? "ledger-live-too-many" : "ledger-live-too-few"), NULL,
      "%" PRId64 " Probe elements live, the trees contain %" PRId64, vf_led_live - led_base, expect);
    return 1;
  }
  for (int w = 0; w < 2; w++) {
    struct Tree* t = w ? TB : TA;
    if (!t) continue;
    long budget = 4 * MAXK + 8;
    int r = intact_node(t, t->root, &budget);
    if (r == 1) { vf_violation(L("ledger-stored-key-dead"), NULL, "a stored key is finalised or corrupted while still contained"); return 1; }
    if (r == 2) { vf_violation(L("ledger-stored-val-dead"), NULL, "a stored value is finalised or corrupted while still contained"); return 1; }
  }
  return 0;
}

/* ---- C10: copy / assign / hash --------------------------------------------------- */

static struct vf_set hashgroups; static uint64_t* grouphash; static size_t ngroups, capgroups;

static void abstract_key(struct model* m, char* buf, size_t cap) {
  size_t o = 0; buf[0] = 0;
  for (int i = 0; i < K; i++) if (m->present[i]) o += snprintf(buf + o, cap - o, "%d=%d,", i, m->val[i]);
}

static int same_as(var t, uint64_t h, const char* what, const char* ak) {
  char lab[64];
  if (hash(t) != h) { snprintf(lab, sizeof lab, "%s-hash", what); vf_violation(L(lab), NULL, "%s: hash differs for bindings {%s}", what, ak); return 1; }
  if (!eq(t, TA) || !eq(TA, t)) { snprintf(lab, sizeof lab, "%s-not-eq", what); vf_violation(L(lab), NULL, "%s: not eq to the original with bindings {%s}", what, ak); return 1; }
  if (neq(t, TA) || cmp(t, TA) != 0 || cmp(TA, t) != 0) { snprintf(lab, sizeof lab, "%s-cmp", what); vf_violation(L(lab), NULL, "%s: cmp of equal trees is not 0 / neq is true", what); return 1; }
  if (len(t) != len(TA)) { snprintf(lab, sizeof lab, "%s-len", what); vf_violation(L(lab), NULL, "%s: len differs", what); return 1; }
  return 0;
}

static int check_eqhash(void) {
  /* hash is a function of the abstract value alone */
  char ak[256]; abstract_key(&MA, ak, sizeof ak);
  uint64_t h = hash(TA);
  if (!hashgroups.cap) { vf_set_init(&hashgroups, 1024); capgroups = 1024; grouphash = malloc(capgroups * sizeof *grouphash); }
  long gi = vf_set_put(&hashgroups, ak, (uint32_t)ngroups);
  if (gi < 0) {
    if (ngroups == capgroups) { capgroups *= 2; grouphash = realloc(grouphash, capgroups * sizeof *grouphash); }
    grouphash[ngroups++] = h;
  } else if (grouphash[gi] != h) {
    vf_violation(L("hash-depends-on-history"), NULL, "two trees with the same bindings {%s} hash differently (%" PRIx64 " vs %" PRIx64 ")", ak, h, grouphash[gi]);
    return 1;
  }
  if (hash(TA) != h) { vf_violation(L("hash-unstable"), NULL, "hash(t) differs between two calls"); return 1; }
  vf.evaluations++;
  int bad = 0;
  /* copy is eq and hashes the same */
  R[2] = copy(TA);
  bad = same_as(R[2], h, "copy", ak);
  del(R[2]); R[2] = NULL;
  if (bad) return 1;
  /* assign into a non-empty tree */
  R[2] = mk_tree();
  set(R[2], keyobj[K - 1], valarg(K - 1, NV - 1)); set(R[2], keyobj[K / 2], valarg(K / 2, 0));
  assign(R[2], TA);
  bad = same_as(R[2], h, "assign", ak);
  del_raw(R[2]); R[2] = NULL;
  if (bad) return 1;
  /* trees rebuilt from the reference in other insertion orders (copy inserts in iteration order) */
  for (int ord = 0; ord < 2 && !bad; ord++) {
    R[2] = mk_tree();
    for (int j = 0; j < K; j++) {
      int i = ord == 0 ? j : ((j & 1) ? K / 2 - 1 - j / 2 : K / 2 + j / 2);   /* ascending / middle-out */
      if (ord == 1 && (i < 0 || i >= K)) continue;
      if (MA.present[i]) set(R[2], keyobj[i], valarg(i, MA.val[i]));
    }
    if (ord == 1) for (int i = 0; i < K; i++) if (MA.present[i] && !mem(R[2], keyobj[i])) set(R[2], keyobj[i], valarg(i, MA.val[i]));
    bad = same_as(R[2], h, ord == 0 ? "rebuild-ascending" : "rebuild-middle-out", ak);
    del_raw(R[2]); R[2] = NULL;
  }
  return bad;
}

/* ---- state oracle ----------------------------------------------------------------- */

static struct vf_set checked;   /* canonical strings whose black-box oracle already passed */

/* light oracle: the bindings read off the nodes themselves must be exactly the reference's */
static int wb_seen[MAXK];
static int wb_walk(struct Tree* m, var node, struct model* mo, const char* who, int depth) {
  if (node == NULL) return 0;
  if (depth > 64) { vf_violation(L("wb-too-deep"), NULL, "%s: path longer than 64 nodes", who); return 1; }
  if (wb_walk(m, *Tree_Left(m, node), mo, who, depth + 1)) return 1;
  int ki = key_index(Tree_Key(m, node));
  if (ki < 0) { vf_violation(L("wb-foreign-key"), NULL, "%s: a node holds a key outside the universe", who); return 1; }
  if (!mo->present[ki]) { vf_violation(L("wb-ghost"), NULL, "%s: a node holds key#%d, which the reference does not have", who, ki); return 1; }
  if (wb_seen[ki]++) { vf_violation(L("wb-duplicate"), NULL, "%s: key#%d is stored in two nodes", who, ki); return 1; }
  if (val_at(Tree_Val(m, node), ki) != mo->val[ki]) { vf_violation(L("wb-value"), NULL, "%s: the node of key#%d holds value %" PRId64 ", last set value is %d", who, ki, val_at(Tree_Val(m, node), ki), mo->val[ki]); return 1; }
  return wb_walk(m, *Tree_Right(m, node), mo, who, depth + 1);
}
static int wb_check(var t, struct model* mo, const char* who) {
  struct Tree* m = t;
  memset(wb_seen, 0, sizeof wb_seen);
  if (wb_walk(m, m->root, mo, who, 0)) return 1;
  for (int i = 0; i < K; i++) if (mo->present[i] && !wb_seen[i]) { vf_violation(L("wb-missing"), NULL, "%s: no node holds key#%d, which the reference has", who, i); return 1; }
  if (m->nitems != (size_t)mcount(mo)) { vf_violation(L("wb-count"), NULL, "%s: nitems=%zu, reference has %d bindings", who, m->nitems, mcount(mo)); return 1; }
  return 0;
}

static int check(void) {
  if (audit(TA, "A")) return 1;
  if (TB && audit(TB, "B")) return 1;
  if (propC05 && check_ledger()) return 1;
  if (light) {
    if (wb_check(TA, &MA, "A")) return 1;
    if (TB && wb_check(TB, &MB, "B (must be independent of A)")) return 1;
    vf.evaluations++;
    return 0;
  }
  /* The audit has just established that the node structure is exactly what canon()
  ** prints (shape, colours, keys, values, parent links, nitems, types), and the answers
  ** to len/mem/get/iteration are a function of that structure alone, so the black-box
  ** comparison with the reference is evaluated once per distinct pair (concrete state,
  ** reference bindings) - not once per concrete state: an operation that lands in a
  ** well-formed but *wrong* tree meets a different reference and is compared again.
  ** (memo=0 turns the memoisation off.) */
  int fresh = 1;
  if (memo) {
    char cb[2048];
    size_t o = canon(cb, sizeof cb);
    o += (size_t)snprintf(cb + o, sizeof cb - o, " |");
    for (int i = 0; i < K && o + 8 < sizeof cb; i++) cb[o++] = MA.present[i] ? (char)('0' + MA.val[i]) : '-';
    if (TB) { cb[o++] = '|'; for (int i = 0; i < K && o + 8 < sizeof cb; i++) cb[o++] = MB.present[i] ? (char)('0' + MB.val[i]) : '-'; }
    cb[o] = 0;
    if (!checked.cap) vf_set_init(&checked, 1 << 12);
    fresh = vf_set_put(&checked, cb, 1) < 0;
  }
  if (fresh) {
    if (check_map(TA, &MA, "A")) return 1;
    if (TB && check_map(TB, &MB, "B (must be independent of A)")) return 1;
    vf.evaluations++;
  } else {
    /* cheap part on every transition all the same */
    if (len(TA) != (size_t)mcount(&MA)) { vf_violation(L("len"), NULL, "A: len=%zu, reference has %d bindings", len(TA), mcount(&MA)); return 1; }
    if (TB && len(TB) != (size_t)mcount(&MB)) { vf_violation(L("len"), NULL, "B: len=%zu, reference has %d bindings", len(TB), mcount(&MB)); return 1; }
  }
  if (propC10 && fresh && check_eqhash()) return 1;
  return 0;
}

/* ---- alphabet -------------------------------------------------------------------- */

enum { OP_RESIZE0, OP_COPY, OP_ASSIGN_EMPTY, OP_ASSIGN_FULL, OP_NEW_ARGS, OP_SET_ALIAS,
       OP_B_COPY, OP_B_ASSIGN_FROM_A, OP_A_ASSIGN_FROM_B, OP_B_DEL, OP_B_SET, OP_B_REM, OP_SWAP,
       OP_F_GET_WRONGKEY, OP_F_SET_WRONGKEY, OP_F_SET_WRONGVAL, OP_F_REM_WRONGKEY, OP_F_MEM_WRONGKEY,
       OP_F_GET_NULL, OP_F_SET_NULLKEY, OP_F_SET_NULLVAL, OP_F_REM_NULL, OP_F_MEM_NULL,
       OP_F_RESIZE1, OP_F_RESIZELEN, OP_F_RESIZEBIG, OP_F_ASSIGN_INT, OP_F_ASSIGN_STR, OP_F_ASSIGN_FLOAT,
       OP_F_LAST = OP_F_ASSIGN_FLOAT,
       OP_X_EMPTY0, OP_X_EMPTY1, OP_X_EMPTY2, OP_X_FULL0, OP_X_FULL1, OP_X_FULL2, OP_B_X0, OP_B_X1, OP_B_X2, OP_VIA_TABLE,
       OP_NMISC };

static const char* miscname[] = { "resize(0)", "A=copy(A)", "A=assign(new,A)", "A=assign(nonempty,A)", "A=new(Tree,K,V,bindings of A...)", "set(first key yielded by iteration itself, other value)",
    "B=copy(A)", "assign(B,A)", "assign(A,B)", "del(B)", "set(B,k0,v)", "rem(B,k0)", "swap(A,B)",
    "get(wrong-type key)", "set(wrong-type key)", "set(wrong-type val)", "rem(wrong-type key)", "mem(wrong-type key)",
    "get(NULL)", "set(NULL,v)", "set(k0,NULL)", "rem(NULL)", "mem(NULL)",
    "resize(1)", "resize(len)", "resize(len+7)", "assign(A, $I(5))", "assign(A, $S(\"xy\"))", "assign(A, $F(1.0))",
    xname[0], xname[1], xname[2], xname[3], xname[4], xname[5], xname[6], xname[7], xname[8], xname[9] };

static int misctab[OP_NMISC]; static int nmisc;

static void build_alphabet(void) {
  nmisc = 0;
  misctab[nmisc++] = OP_RESIZE0;
  if (!pairs_mode) misctab[nmisc++] = OP_COPY;
  misctab[nmisc++] = OP_ASSIGN_EMPTY;
  misctab[nmisc++] = OP_ASSIGN_FULL;
  misctab[nmisc++] = OP_NEW_ARGS;
  if (alias_op) misctab[nmisc++] = OP_SET_ALIAS;
  nforeign = 0;
  for (size_t q = 0; q < sizeof type_pairs / sizeof type_pairs[0]; q++)
    if ((type_pairs[q].kk == kkind) != (type_pairs[q].vk == vkind) && nforeign < 3) foreign[nforeign++] = type_pairs[q];
  for (int j = 0; j < nforeign; j++) {
    snprintf(xname[j], sizeof xname[j], "A=assign(empty Tree<%s,%s>,A)", kkname(foreign[j].kk), vkname(foreign[j].vk));
    snprintf(xname[3 + j], sizeof xname[j], "A=assign(filled Tree<%s,%s>,A)", kkname(foreign[j].kk), vkname(foreign[j].vk));
    snprintf(xname[6 + j], sizeof xname[j], "B=filled Tree<%s,%s>; assign(B,A)", kkname(foreign[j].kk), vkname(foreign[j].vk));
  }
  snprintf(xname[9], sizeof xname[9], "A=assign(filled Tree, assign(filled Table, A))");
  if (cross_op) for (int j = 0; j < nforeign; j++) { misctab[nmisc++] = OP_X_EMPTY0 + j; misctab[nmisc++] = OP_X_FULL0 + j; }
  if (table_op) misctab[nmisc++] = OP_VIA_TABLE;
  if (two) {
    for (int o = OP_B_COPY; o <= OP_B_REM; o++) misctab[nmisc++] = o;
    if (propC10) misctab[nmisc++] = OP_SWAP;
    if (cross_op) for (int j = 0; j < nforeign; j++) misctab[nmisc++] = OP_B_X0 + j;
  }
  if (propC12) for (int o = OP_F_GET_WRONGKEY; o <= OP_F_LAST; o++) misctab[nmisc++] = o;
}

/* after the miscellaneous operations: set(k_i, refused value) for every key (picky values), set(refused key, v) (picky keys) */
static int nrefval(void) { return vpicky ? K : 0; }
static int nrefkey(void) { return kpicky ? 1 : 0; }
static int nops_base(void) { return NV * K + K + nmisc + nrefval() + nrefkey(); }
static int nops_total(void) { return nops_base() + (light ? 2 * K : 0); }

static void opname(int op, char* buf, size_t cap) {
  /* called by the explorer once per history element per transition: no printf here */
  if (op >= nops_base()) { int a = op - nops_base(); snprintf(buf, cap, "%s(k%d)", a < K ? "get" : "mem", a % K); return; }
  if (op < NV * K + K && cap >= 12) {
    int isset = op < NV * K;
    int k = isset ? op / NV : op - NV * K;
    char* q = buf;
    memcpy(q, isset ? "set(k" : "rem(k", 5); q += 5;
    if (k >= 10) *q++ = (char)('0' + k / 10);
    *q++ = (char)('0' + k % 10);
    if (isset) { *q++ = ','; *q++ = (char)('0' + op % NV); }
    *q++ = ')'; *q = 0;
    return;
  }
  int m = op - NV * K - K;
  if (m >= nmisc && m < nmisc + nrefval()) { snprintf(buf, cap, "set(k%d,refused value)", m - nmisc); return; }
  if (m >= nmisc + nrefval() && m < nmisc + nrefval() + nrefkey()) { snprintf(buf, cap, "set(refused key,0)"); return; }
  snprintf(buf, cap, "%s", (m >= 0 && m < nmisc) ? miscname[misctab[m]] : "?");
}

/* a failed operation: expected exception from the accept set, state unchanged */
static int expect_fail(var e, var a1, var a2, var a3, const char* what, const char* before, int64_t live_before) {
  char after[2048];
  if (e == NULL) { vf_violation(L("no-exception"), NULL, "%s did not raise", what); return VF_BAD; }
  if (e != a1 && e != a2 && e != a3) { vf_violation(L("wrong-exception"), NULL, "%s raised %s", what, vf_exc_name(e)); return VF_BAD; }
  canon(after, sizeof after);
  if (strcmp(before, after) != 0) { vf_violation(L("state-changed"), NULL, "%s raised %s but changed the tree: %s -> %s", what, vf_exc_name(e), before, after); return VF_BAD; }
  if (len(current(Exception)) != 0) { vf_violation(L("exception-depth"), NULL, "%s: exception depth not restored", what); return VF_BAD; }
  if (vf_led_live != live_before) { vf_violation(L("ledger-changed"), NULL, "%s: number of live Probe elements changed from %" PRId64 " to %" PRId64, what, live_before, vf_led_live); return VF_BAD; }
  return VF_OK;
}

static int apply_inner(int op) {
  var e;
  char before[2048];
  if (op >= nops_base()) {
    int a = op - nops_base(), k = a % K;
    lastq = a;
    if (a < K) {
      kind(MA.present[k] ? "get-present" : "get-absent");
      volatile var got = NULL;
      e = VF_CATCH(got = get(TA, keyobj[k]));
      if (MA.present[k]) {
        if (e) { vf_violation(L("get-raises"), NULL, "get(key#%d) raised %s for a present key", k, vf_exc_name(e)); return VF_BAD; }
        if (val_at(got, k) != MA.val[k]) { vf_violation(L("get-value"), NULL, "get(key#%d)=%" PRId64 ", last set value is %d", k, val_at(got, k), MA.val[k]); return VF_BAD; }
      } else if (e != KeyError) { vf_violation(L("get-absent"), NULL, "get(key#%d) of an absent key gave %s, KeyError expected", k, vf_exc_name(e)); return VF_BAD; }
      return VF_OK;
    }
    kind(MA.present[k] ? "mem-present" : "mem-absent");
    volatile bool isin = false;
    e = VF_CATCH(isin = mem(TA, keyobj[k]));
    if (e) { vf_violation(L("mem-raises"), NULL, "mem(key#%d) raised %s", k, vf_exc_name(e)); return VF_BAD; }
    if ((int)isin != MA.present[k]) { vf_violation(L("mem"), NULL, "mem(key#%d)=%d, reference says %d", k, (int)isin, MA.present[k]); return VF_BAD; }
    return VF_OK;
  }
  if (op < NV * K) {
    int k = op / NV, v = op % NV;
    kind(MA.present[k] ? "set-existing" : "set-new");
    e = VF_CATCH(set(TA, keyobj[k], valarg(k, v)));
    if (e) { vf_violation(L("raises"), NULL, "set raised %s", vf_exc_name(e)); return VF_BAD; }
    model_set(&MA, k, v);
    return VF_OK;
  }
  if (op < NV * K + K) {
    int k = op - NV * K;
    if (MA.present[k]) {
      kind("rem-present");
      e = VF_CATCH(rem(TA, keyobj[k]));
      if (e) { vf_violation(L("raises"), NULL, "rem of a present key raised %s", vf_exc_name(e)); return VF_BAD; }
      MA.present[k] = 0;
      return VF_OK;
    }
    kind("rem-absent");
    canon(before, sizeof before);
    int64_t lb = vf_led_live;
    e = VF_CATCH(rem(TA, keyobj[k]));
    return expect_fail(e, KeyError, KeyError, KeyError, "rem of an absent key", before, lb);
  }
  int mi = op - NV * K - K;
  if (mi >= nmisc && mi < nmisc + nrefval()) {
    /* the value type's own assign refuses the value: nothing may have been linked, counted or overwritten */
    int k = mi - nmisc;
    if (!MA.present[k] && kkind != 0 && !leaky) return VF_SKIP;   /* see proposed/tree-set-refused-value-leaks-key.md */
    kind(MA.present[k] ? "set-existing-refused-value" : "set-new-refused-value");
    canon(before, sizeof before);
    int64_t lb = vf_led_live;
    e = VF_CATCH(set(TA, keyobj[k], refusedval));
    return expect_fail(e, ValueError, ValueError, ValueError, MA.present[k] ? "set(existing key, value its type refuses)" : "set(new key, value its type refuses)", before, lb);
  }
  if (mi >= nmisc + nrefval() && mi < nmisc + nrefval() + nrefkey()) {
    kind("set-refused-key");
    canon(before, sizeof before);
    int64_t lb = vf_led_live;
    e = VF_CATCH(set(TA, refusedkey, valarg(0, 0)));
    return expect_fail(e, ValueError, ValueError, ValueError, "set(key its type refuses, value)", before, lb);
  }
  if (mi < 0 || mi >= nmisc) return VF_SKIP;
  int m = misctab[mi];
  size_t l = len(TA);
  int vb = NV - 1;   /* value used by the B-side and pre-fill operations */
  switch (m) {
  case OP_RESIZE0:
    kind("resize0");
    e = VF_CATCH(resize(TA, 0));
    if (e) { vf_violation(L("raises"), NULL, "resize(0) raised %s", vf_exc_name(e)); return VF_BAD; }
    memset(MA.present, 0, sizeof MA.present);
    return VF_OK;
  case OP_COPY: {
    kind("copy");
    e = VF_CATCH(R[2] = copy(TA));
    if (e) { vf_violation(L("raises"), NULL, "copy raised %s", vf_exc_name(e)); return VF_BAD; }
    del_tree(TA, A_managed); TA = R[2]; R[2] = NULL; A_managed = 1;
    return VF_OK; }
  case OP_ASSIGN_EMPTY: case OP_ASSIGN_FULL: {
    kind(m == OP_ASSIGN_EMPTY ? "assign-into-empty" : "assign-into-nonempty");
    R[2] = mk_tree();
    if (m == OP_ASSIGN_FULL) { set(R[2], keyobj[0], valarg(0, vb)); set(R[2], keyobj[K - 1], valarg(K - 1, vb)); if (K > 2) set(R[2], keyobj[K / 2], valarg(K / 2, 0)); }
    e = VF_CATCH(assign(R[2], TA));
    if (e) { vf_violation(L("raises"), NULL, "assign raised %s", vf_exc_name(e)); del_raw(R[2]); R[2] = NULL; return VF_BAD; }
    del_tree(TA, A_managed); TA = R[2]; R[2] = NULL; A_managed = 0;
    return VF_OK; }
  case OP_X_EMPTY0: case OP_X_EMPTY1: case OP_X_EMPTY2: case OP_X_FULL0: case OP_X_FULL1: case OP_X_FULL2: {
    /* the target was constructed (and, for "filled", used) with other element types that share
    ** exactly one side with A's: afterwards it must be a tree of A's types in every respect */
    int fill = m >= OP_X_FULL0;
    int j = fill ? m - OP_X_FULL0 : m - OP_X_EMPTY0;
    if (j >= nforeign) return VF_SKIP;
    static char kb[64];
    snprintf(kb, sizeof kb, "assign-into-%s-%s-%s-tree", fill ? "filled" : "empty", kkname(foreign[j].kk), vkname(foreign[j].vk));
    kind(kb);
    R[2] = mk_foreign(Tree, foreign[j], fill);
    e = VF_CATCH(assign(R[2], TA));
    if (e) { vf_violation(L("raises"), NULL, "assign raised %s", vf_exc_name(e)); del_raw(R[2]); R[2] = NULL; return VF_BAD; }
    del_tree(TA, A_managed); TA = R[2]; R[2] = NULL; A_managed = 0;
    return VF_OK; }
  case OP_B_X0: case OP_B_X1: case OP_B_X2: {
    int j = m - OP_B_X0;
    if (!two || j >= nforeign) return VF_SKIP;
    static char kb[64];
    snprintf(kb, sizeof kb, "assign(B,A)-B-was-filled-%s-%s-tree", kkname(foreign[j].kk), vkname(foreign[j].vk));
    kind(kb);
    if (TB) { del_tree(TB, B_managed); TB = NULL; }
    TB = mk_foreign(Tree, foreign[j], 1); B_managed = 0;
    e = VF_CATCH(assign(TB, TA));
    if (e) { vf_violation(L("raises"), NULL, "assign raised %s", vf_exc_name(e)); return VF_BAD; }
    MB = MA;
    return VF_OK; }
  case OP_VIA_TABLE: {
    /* map <-> map across kinds: Table<K',V'> := A, then Tree<K',V'> := that table */
    kind("assign-through-table");
    struct tpair fp = nforeign ? foreign[0] : (struct tpair){ kkind, vkind };
    R[3] = mk_foreign(Table, fp, 1);
    e = VF_CATCH(assign(R[3], TA));
    if (e) { vf_violation(L("raises"), NULL, "assign(table, tree) raised %s", vf_exc_name(e)); del_raw(R[3]); R[3] = NULL; return VF_BAD; }
    int tbad = 0;
    if (len(R[3]) != l || key_type(R[3]) != KT || val_type(R[3]) != VT) tbad = 1;
    for (int i = 0; i < K && !tbad; i++) {
      if ((bool)mem(R[3], keyobj[i]) != (bool)MA.present[i]) tbad = 1;
      else if (MA.present[i]) {
        var g = get(R[3], keyobj[i]);
        if (val_at(g, i) != MA.val[i]) tbad = 1;
      }
    }
    if (tbad) { vf_violation(L("table-differs"), NULL, "the Table assigned from the tree does not hold the tree's bindings / element types"); del_raw(R[3]); R[3] = NULL; return VF_BAD; }
    R[2] = mk_foreign(Tree, fp, 1);
    e = VF_CATCH(assign(R[2], R[3]));
    del_raw(R[3]); R[3] = NULL;
    if (e) { vf_violation(L("raises"), NULL, "assign(tree, table) raised %s", vf_exc_name(e)); del_raw(R[2]); R[2] = NULL; return VF_BAD; }
    del_tree(TA, A_managed); TA = R[2]; R[2] = NULL; A_managed = 0;
    return VF_OK; }
  case OP_NEW_ARGS: {
    /* the constructor's own insertion loop: new(Tree, K, V, k, v, k, v, ...) in ascending key order */
    kind("new-with-bindings");
    var items[2 * MAXK + 3]; int n = 0;
    items[n++] = KT; items[n++] = VT;
    for (int i = 0; i < K; i++) if (MA.present[i]) { items[n++] = keyobj[i]; items[n++] = valarg(i, MA.val[i]); }
    items[n] = Terminal;
    e = VF_CATCH(R[2] = new_raw_with(Tree, $(Tuple, items)));
    if (e) { vf_violation(L("raises"), NULL, "new(Tree, K, V, ...) raised %s", vf_exc_name(e)); return VF_BAD; }
    del_tree(TA, A_managed); TA = R[2]; R[2] = NULL; A_managed = 0;
    return VF_OK; }
  case OP_SET_ALIAS: {
    /* the idiom  foreach (k in t) set(t, k, v):  the key argument is the stored key object itself */
    var it = iter_init(TA);
    if (it == Terminal) return VF_SKIP;
    int k = key_index(it);
    if (k < 0 || !MA.present[k]) return VF_SKIP;   /* the state oracle reports a wrong first key */
    int v = (MA.val[k] + 1) % NV;
    kind("set-existing-by-stored-key");
    e = VF_CATCH(set(TA, it, valarg(k, v)));
    if (e) { vf_violation(L("raises"), NULL, "set raised %s", vf_exc_name(e)); return VF_BAD; }
    model_set(&MA, k, v);
    return VF_OK; }
  case OP_B_COPY:
    if (!two) return VF_SKIP;
    kind("B=copy(A)");
    if (TB) { del_tree(TB, B_managed); TB = NULL; }
    e = VF_CATCH(TB = copy(TA));
    if (e) { vf_violation(L("raises"), NULL, "copy raised %s", vf_exc_name(e)); return VF_BAD; }
    B_managed = 1; MB = MA;
    return VF_OK;
  case OP_B_ASSIGN_FROM_A:
    if (!two || !TB) return VF_SKIP;
    kind("assign(B,A)");
    e = VF_CATCH(assign(TB, TA));
    if (e) { vf_violation(L("raises"), NULL, "assign raised %s", vf_exc_name(e)); return VF_BAD; }
    MB = MA;
    return VF_OK;
  case OP_A_ASSIGN_FROM_B:
    if (!two || !TB) return VF_SKIP;
    kind("assign(A,B)");
    e = VF_CATCH(assign(TA, TB));
    if (e) { vf_violation(L("raises"), NULL, "assign raised %s", vf_exc_name(e)); return VF_BAD; }
    MA = MB;
    return VF_OK;
  case OP_B_DEL:
    if (!two || !TB) return VF_SKIP;
    kind("del(B)");
    e = VF_CATCH(del_tree(TB, B_managed));
    TB = NULL; memset(&MB, 0, sizeof MB);
    if (e) { vf_violation(L("raises"), NULL, "del raised %s", vf_exc_name(e)); return VF_BAD; }
    return VF_OK;
  case OP_B_SET:
    if (!two || !TB) return VF_SKIP;
    kind("set(B)");
    e = VF_CATCH(set(TB, keyobj[0], valarg(0, vb)));
    if (e) { vf_violation(L("raises"), NULL, "set raised %s", vf_exc_name(e)); return VF_BAD; }
    model_set(&MB, 0, vb);
    return VF_OK;
  case OP_B_REM:
    if (!two || !TB || !MB.present[0]) return VF_SKIP;
    kind("rem(B)");
    e = VF_CATCH(rem(TB, keyobj[0]));
    if (e) { vf_violation(L("raises"), NULL, "rem raised %s", vf_exc_name(e)); return VF_BAD; }
    MB.present[0] = 0;
    return VF_OK;
  case OP_SWAP: {
    if (!two || !TB || !propC10) return VF_SKIP;
    kind("swap(A,B)");
    e = VF_CATCH(swap(TA, TB));
    if (e) { vf_violation(L("raises"), NULL, "swap raised %s", vf_exc_name(e)); return VF_BAD; }
    struct model t = MA; MA = MB; MB = t;
    return VF_OK; }
  default: break;
  }
  if (!propC12) return VF_SKIP;
  canon(before, sizeof before);
  int64_t lb = vf_led_live;
  switch (m) {
  case OP_F_GET_WRONGKEY:
    kind("get-wrong-type-key");
    e = VF_CATCH(get(TA, wrongkey));
    return expect_fail(e, ValueError, TypeError, TypeError, "get with a key of the wrong type", before, lb);
  case OP_F_SET_WRONGKEY:
    kind("set-wrong-type-key");
    e = VF_CATCH(set(TA, wrongkey, valarg(0, 0)));
    return expect_fail(e, ValueError, TypeError, TypeError, "set with a key of the wrong type", before, lb);
  case OP_F_SET_WRONGVAL:
    kind("set-wrong-type-val");
    e = VF_CATCH(set(TA, keyobj[0], wrongval));
    return expect_fail(e, ValueError, TypeError, TypeError, "set with a value of the wrong type", before, lb);
  case OP_F_REM_WRONGKEY:
    kind("rem-wrong-type-key");
    e = VF_CATCH(rem(TA, wrongkey));
    return expect_fail(e, ValueError, TypeError, TypeError, "rem with a key of the wrong type", before, lb);
  case OP_F_MEM_WRONGKEY:
    kind("mem-wrong-type-key");
    e = VF_CATCH(mem(TA, wrongkey));
    return expect_fail(e, ValueError, TypeError, TypeError, "mem with a key of the wrong type", before, lb);
  case OP_F_GET_NULL:
    kind("get-null-key");
    e = VF_CATCH(get(TA, NULL));
    return expect_fail(e, ValueError, ValueError, ValueError, "get(NULL)", before, lb);
  case OP_F_SET_NULLKEY:
    kind("set-null-key");
    e = VF_CATCH(set(TA, NULL, valarg(0, 0)));
    return expect_fail(e, ValueError, ValueError, ValueError, "set with a NULL key", before, lb);
  case OP_F_SET_NULLVAL:
    kind("set-null-val");
    e = VF_CATCH(set(TA, keyobj[0], NULL));
    return expect_fail(e, ValueError, ValueError, ValueError, "set with a NULL value", before, lb);
  case OP_F_REM_NULL:
    kind("rem-null-key");
    e = VF_CATCH(rem(TA, NULL));
    return expect_fail(e, ValueError, ValueError, ValueError, "rem(NULL)", before, lb);
  case OP_F_MEM_NULL:
    kind("mem-null-key");
    e = VF_CATCH(mem(TA, NULL));
    return expect_fail(e, ValueError, ValueError, ValueError, "mem(NULL)", before, lb);
  case OP_F_ASSIGN_INT: case OP_F_ASSIGN_STR: case OP_F_ASSIGN_FLOAT: {
    /* a source that is no container at all (no Iter, no Get): refused with ClassError, and
    ** refused before the target is cleared */
    kind(m == OP_F_ASSIGN_INT ? "assign-from-Int" : m == OP_F_ASSIGN_STR ? "assign-from-String" : "assign-from-Float");
    var src = m == OP_F_ASSIGN_INT ? (var)$I(5) : m == OP_F_ASSIGN_STR ? (var)$S("xy") : (var)$F(1.0);
    e = VF_CATCH(assign(TA, src));
    return expect_fail(e, ClassError, ClassError, ClassError, "assign(tree, object that is not a container)", before, lb); }
  case OP_F_RESIZE1: case OP_F_RESIZELEN: case OP_F_RESIZEBIG: {
    /* Tree documents that it can only be resized to 0.  C12 only says how a request the
    ** container cannot honour is reported, so: if it raises, the exception must come from
    ** the accept set and the tree must be untouched; if an implementation accepts the
    ** request, keeping the bindings is all that is required for n >= len (the state
    ** oracle compares with the unchanged reference) and a truncation is not judged. */
    size_t n = m == OP_F_RESIZE1 ? 1 : m == OP_F_RESIZELEN ? l : l + 7;
    if (m == OP_F_RESIZE1 && l == 1) return VF_SKIP;   /* same request as resize(len) */
    if (n == 0) return VF_SKIP;                         /* resize(0) is the valid clear */
    kind(m == OP_F_RESIZE1 ? "resize-1" : m == OP_F_RESIZELEN ? "resize-len" : "resize-grow");
    e = VF_CATCH(resize(TA, n));
    if (e == NULL) return n >= l ? VF_OK : VF_SKIP;
    return expect_fail(e, FormatError, ResourceError, ValueError, "resize(n>0) of a Tree", before, lb); }
  }
  return VF_SKIP;
}

static int apply(int op) {
  int r = apply_inner(op);
  if (light && r != VF_SKIP) {
    if (op >= nops_base()) since_n = 0;
    else if (lastq >= 0) { if (since_n < qwin) since[since_n++] = op; else { lastq = -1; since_n = 0; } }
  }
  if (r != VF_SKIP && hist_n < 4096) hist[hist_n++] = op;
  return r;
}

/* non-trivial state: the tree has a black node below the root (black height >= 2): it can
** only be reached through recolouring that propagated upwards, and it is where the
** double-black repair cases of removal become reachable */
static int nontrivial_tree(var t_) {
  struct Tree* m = t_;
  var n = m->root; int blacks = 0, guard = 0;
  while (n != NULL && guard++ < 64) { if (Tree_Is_Black(m, n)) blacks++; n = *Tree_Left(m, n); }
  return blacks >= 2;
}

/* ---- C09: pairs of reachable trees ----------------------------------------------- */

struct ptree { var t; char* hist; char* canon; int n; int seq[MAXK][2]; };
static struct ptree* PT; static size_t npt, cappt;

static void collect_current(void) {
  /* called by the explorer exactly once per newly discovered concrete state, with the
  ** real tree still alive: keep it (ownership moves to the collection) */
  if (A_managed) return;
  if (npt == cappt) { cappt = cappt ? cappt * 2 : 256; PT = realloc(PT, cappt * sizeof *PT); }
  struct ptree* p = &PT[npt++];
  char cb[1024]; canon_one(TA, cb, sizeof cb);
  p->canon = strdup(cb);
  char hb[4096]; vf_bfs_case(hist, (size_t)hist_n, -1, hb, sizeof hb);
  p->hist = strdup(hb[0] ? hb : "-");
  /* its own forward (key, value) sequence, through the public iteration interface */
  p->n = 0;
  var it = iter_init(TA);
  while (it != Terminal && p->n < MAXK) {
    p->seq[p->n][0] = key_index(it);
    p->seq[p->n][1] = (int)val_at(get(TA, it), p->seq[p->n][0]);
    p->n++;
    it = iter_next(TA, it);
  }
  p->t = TA; TA = NULL;
}

static int nontrivial(void) {
  int nt = TA ? nontrivial_tree(TA) : 0;
  /* two trees: non-trivial when B exists and differs from A (independence is then observable) */
  if (two) nt = TB != NULL && !model_equal(&MA, &MB);
  if (pairs_mode) collect_current();
  return nt;
}

static int sgn(int c) { return c < 0 ? -1 : c > 0 ? 1 : 0; }

/* lexicographic order of two (key,value) sequences: key, then value; a proper prefix is smaller */
static int ref_cmp(struct ptree* a, struct ptree* b, int* where, int* inval) {
  int i = 0;
  *inval = 0;
  for (;; i++) {
    *where = i;
    if (i == a->n && i == b->n) return 0;
    if (i == a->n) return -1;
    if (i == b->n) return 1;
    if (a->seq[i][0] != b->seq[i][0]) return kord(a->seq[i][0]) < kord(b->seq[i][0]) ? -1 : 1;
    if (a->seq[i][1] != b->seq[i][1]) { *inval = 1; return a->seq[i][1] < b->seq[i][1] ? -1 : 1; }
  }
}

static const char* pair_feature(struct ptree* a, struct ptree* b) {
  int w, iv; int r = ref_cmp(a, b, &w, &iv);
  static char f[64];
  if (r == 0) return "equal-contents";
  if (w == a->n || w == b->n) return w == 0 ? "empty-vs-nonempty" : "proper-prefix";
  snprintf(f, sizeof f, "first-difference-in-%s-at-%s", iv ? "value" : "key", w == 0 ? "first-item" : "later-item");
  return f;
}

static int pair_oracle(size_t i, size_t j, int8_t* sign_out, int verbose) {
  struct ptree* a = &PT[i]; struct ptree* b = &PT[j];
  char kase[8192], lab[200];
  snprintf(kase, sizeof kase, "pair a=%s b=%s | a is %s, b is %s", a->hist, b->hist, a->canon, b->canon);
  vf_set_cur("%s", kase);
  volatile int c = 0;
  var e = VF_CATCH(c = cmp(a->t, b->t));
  const char* feat = pair_feature(a, b);
  vf.evaluations++;
  if (e) { snprintf(lab, sizeof lab, "tree/%s/cmp/%s/raises", kname(), feat); vf_violation(lab, kase, "cmp raised %s", vf_exc_name(e)); return 1; }
  int w, iv; int r = ref_cmp(a, b, &w, &iv);
  if (w > 0 && r != 0) vf.nontrivial++;
  if (verbose) printf("  cmp = %d, lexicographic order of the (key,value) sequences = %d (%s)\n", (int)c, r, feat);
  if (sign_out) *sign_out = (int8_t)sgn(c);
  if (sgn(c) != r) {
    snprintf(lab, sizeof lab, "tree/%s/cmp/%s/%s", kname(), feat, (r == 0) ? "nonzero-for-equal" : (c == 0) ? "zero-for-different" : "wrong-sign");
    vf_violation(lab, kase, "cmp=%d but the lexicographic order of the trees' own (key,value) sequences is %d", (int)c, r);
    return 1;
  }
  int eqv = eq(a->t, b->t), nev = neq(a->t, b->t), ltv = lt(a->t, b->t), gtv = gt(a->t, b->t), lev = le(a->t, b->t), gev = ge(a->t, b->t);
  const char* pred = NULL;
  if (eqv != (c == 0)) pred = "eq"; else if (nev != (c != 0)) pred = "neq"; else if (ltv != (c < 0)) pred = "lt";
  else if (gtv != (c > 0)) pred = "gt"; else if (lev != (c <= 0)) pred = "le"; else if (gev != (c >= 0)) pred = "ge";
  if (pred) {
    snprintf(lab, sizeof lab, "tree/%s/cmp/%s/%s-inconsistent", kname(), feat, pred);
    vf_violation(lab, kase, "%s disagrees with cmp=%d", pred, (int)c);
    return 1;
  }
  if (i == j && c != 0) { snprintf(lab, sizeof lab, "tree/%s/cmp/not-reflexive", kname()); vf_violation(lab, kase, "cmp(t,t)=%d", (int)c); return 1; }
  return 0;
}

static var build_from_history(const char* h) {
  reset();
  const char* p = h;
  while (*p) {
    while (*p == ',' || *p == ' ' || *p == '-') p++;
    if (!isdigit((unsigned char)*p)) break;
    int op = (int)strtol(p, (char**)&p, 10);
    if (apply(op) == VF_BAD) break;
  }
  return TA;
}

static void pairs_replay(const char* kase) {
  char a[4096] = "", b[4096] = "";
  const char* pa = strstr(kase, "a="); const char* pb = strstr(kase, " b=");
  if (!pa || !pb) { fprintf(stderr, "replay: expected 'pair a=<ops> b=<ops>'\n"); _exit(2); }
  snprintf(a, sizeof a, "%.*s", (int)(pb - pa - 2), pa + 2);
  snprintf(b, sizeof b, "%s", pb + 3);
  char* bar = strchr(b, '|'); if (bar) *bar = 0;
  pairs_mode = 1; build_alphabet();
  for (int w = 0; w < 2; w++) {
    build_from_history(w ? b : a);
    if (check()) { printf("  state oracle failed while rebuilding %s\n", w ? "b" : "a"); }
    collect_current();
    printf("  %s: history %s -> %s\n", w ? "b" : "a", PT[npt - 1].hist, PT[npt - 1].canon);
    cleanup();
  }
  if (npt == 2) { pair_oracle(0, 1, NULL, 1); pair_oracle(1, 0, NULL, 1); }
  vf.states = 2; vf.executions = 1;
}

static void pairs_phase(void) {
  vf.phase = "tree-pairs";
  size_t n = npt;
  int8_t* S = malloc(n * n);
  struct vf_set absset; vf_set_init(&absset, 1024); size_t nabs = 0;
  for (size_t i = 0; i < n; i++) {
    char ak[256]; size_t o = 0; ak[0] = 0;
    for (int q = 0; q < PT[i].n; q++) o += snprintf(ak + o, sizeof ak - o, "%d=%d,", PT[i].seq[q][0], PT[i].seq[q][1]);
    if (vf_set_put(&absset, ak, 0) < 0) nabs++;
  }
  int bad = 0;
  for (size_t i = 0; i < n && !bad; i++) {
    vf_watchdog(120);
    for (size_t j = 0; j < n; j++) {
      S[i * n + j] = 2;
      if (pair_oracle(i, j, &S[i * n + j], 0)) { bad++; if (bad > 8) break; }
      if (i <= j && vf_want_sample()) vf_sample("cmp(%s, %s) = %d", PT[i].canon, PT[j].canon, (int)S[i * n + j]);
    }
    vf.executions++;
  }
  if (!bad) {
    char lab[200];
    /* antisymmetry over all ordered pairs, transitivity over all ordered triples (on the observed signs) */
    for (size_t i = 0; i < n && !bad; i++) for (size_t j = 0; j < n && !bad; j++) {
      if (S[i * n + j] != -S[j * n + i]) {
        char kase[8192]; snprintf(kase, sizeof kase, "pair a=%s b=%s | a is %s, b is %s", PT[i].hist, PT[j].hist, PT[i].canon, PT[j].canon);
        snprintf(lab, sizeof lab, "tree/%s/cmp/%s/not-antisymmetric", kname(), pair_feature(&PT[i], &PT[j]));
        vf_violation(lab, kase, "cmp(a,b)=%d but cmp(b,a)=%d", S[i * n + j], S[j * n + i]); bad++;
      }
    }
    /* S is a total preorder  <=>  S[i][j] == sign(r(i) - r(j)) with r(i) = #{ j : S[i][j] > 0 }  (O(n^2), exact) */
    size_t* rank = calloc(n, sizeof *rank);
    for (size_t i = 0; i < n; i++) for (size_t j = 0; j < n; j++) if (S[i * n + j] > 0) rank[i]++;
    for (size_t i = 0; i < n && !bad; i++) for (size_t j = 0; j < n && !bad; j++) {
      int want = rank[i] < rank[j] ? -1 : rank[i] > rank[j] ? 1 : 0;
      if (S[i * n + j] != want) {
        char kase[8192]; snprintf(kase, sizeof kase, "pair a=%s b=%s | a is %s, b is %s", PT[i].hist, PT[j].hist, PT[i].canon, PT[j].canon);
        snprintf(lab, sizeof lab, "tree/%s/cmp/not-a-total-preorder", kname());
        vf_violation(lab, kase, "the observed signs are not those of any total preorder (transitivity fails): cmp(a,b)=%d, a is above %zu trees, b above %zu", S[i * n + j], rank[i], rank[j]); bad++;
      }
    }
    free(rank);
    vf.evaluations += (uint64_t)n * n;
    /* and literally, every ordered triple, while that is affordable */
    uint64_t triples = 0;
    for (size_t i = 0; n <= 1000 && i < n && !bad; i++) for (size_t j = 0; j < n && !bad; j++) {
      int8_t ab = S[i * n + j];
      if (ab > 0) continue;
      for (size_t k = 0; k < n; k++) {
        int8_t bc = S[j * n + k], ac = S[i * n + k];
        if (bc > 0) continue;
        triples++;
        int want_strict = (ab < 0 || bc < 0);
        if (ac > 0 || (want_strict && ac == 0)) {
          char kase[8192]; snprintf(kase, sizeof kase, "pair a=%s b=%s | transitivity through %s: a is %s, c is %s", PT[i].hist, PT[k].hist, PT[j].canon, PT[i].canon, PT[k].canon);
          snprintf(lab, sizeof lab, "tree/%s/cmp/not-transitive", kname());
          vf_violation(lab, kase, "a<=b (%d) and b<=c (%d) but cmp(a,c)=%d", ab, bc, ac); bad++; break;
        }
      }
    }
    vf.evaluations += triples;
    vf_extra("triples_checked", "%" PRIu64, triples);
  }
  vf_extra("concrete_trees", "%zu", n);
  vf_extra("distinct_abstract_values", "%zu", nabs);
  vf_note("pairs: %zu concrete trees (distinct shape/colour/key/value) with %zu distinct abstract values; every ordered pair compared", n, nabs);
  for (size_t i = 0; i < n; i++) { del_raw(PT[i].t); }
  free(S);
}

/* ---- ladders: sizes beyond the BFS bound ----------------------------------------- */

static void ladder_key(char* buf, int k) { snprintf(buf, 16, "k%05d", k); }

static int ladder_depth_ok(struct Tree* m, int64_t rank, size_t n, const char* who) {
  /* cheap part of the height bound: the search path of the touched key and both spines */
  int d = 0, guard = 0; var node = m->root;
  while (node != NULL && guard++ < 200) {
    d++;
    int64_t r = keyrank(Tree_Key(m, node));
    if (r == rank) break;
    var l = *Tree_Left(m, node), rr = *Tree_Right(m, node);
    int left_greater;           /* which side holds the larger keys, read off the children */
    if (l != NULL) left_greater = keyrank(Tree_Key(m, l)) > r;
    else if (rr != NULL) left_greater = keyrank(Tree_Key(m, rr)) < r;
    else break;
    node = ((rank > r) == (left_greater != 0)) ? l : rr;
  }
  int dl = 0, dr = 0;
  for (node = m->root, guard = 0; node != NULL && guard++ < 200; node = *Tree_Left(m, node)) dl++;
  for (node = m->root, guard = 0; node != NULL && guard++ < 200; node = *Tree_Right(m, node)) dr++;
  int mx = d > dl ? d : dl; if (dr > mx) mx = dr;
  if (!height_ok(mx, n)) { vf_violation(L("path-height"), NULL, "%s: a root path of %d nodes exceeds 2*log2(n+1) for n=%zu", who, mx, n); return 0; }
  return 1;
}

static void ladder(void) {
  vf.phase = "tree-ladder"; in_ladder = 1;
  const char* sizes = vf_param("sizes", "1,2,3,7,16,33,100,300,1000,4000");
  int norders = 4;   /* ascending, descending, alternating ends, stride */
  static const char* oname[] = { "ascending", "descending", "alternating-ends", "stride" };
  int r_n = -1, r_i = -1, r_r = -1;
  static char rsizes[32];
  if (vf.replay) {
    if (sscanf(vf.replay, "ladder n=%d insert-order=%d remove-order=%d", &r_n, &r_i, &r_r) != 3) { fprintf(stderr, "replay: bad ladder case\n"); _exit(2); }
    snprintf(rsizes, sizeof rsizes, "%d", r_n); sizes = rsizes;
  }
  uint64_t audits = 0; int maxheight = 0;
  const char* p = sizes;
  while (*p) {
    while (*p == ',') p++;
    if (!isdigit((unsigned char)*p)) break;
    int N = (int)strtol(p, (char**)&p, 10);
    if (N < 1) continue;
    for (int ord = 0; ord < norders; ord++) for (int rord = 0; rord < norders; rord++) {
      if (vf.replay && (ord != r_i || rord != r_r)) continue;
      if (vf_deadline_hit()) goto done;
      vf_watchdog(300);
      vf_set_cur("ladder n=%d insert-order=%d remove-order=%d | %s keys, insert %s, remove %s", N, ord, rord, kname(), oname[ord], oname[rord]);
      kind("ladder");
      var t = new_raw(Tree, KT, Int);
      struct Tree* m = t;
      char* present = calloc((size_t)N, 1);
      int* perm = malloc((size_t)N * sizeof *perm);
      int count = 0, bad = 0;
      int full_every = N <= 300 ? 1 : 64;
      int stride = 7; { static const int cands[] = { 7, 11, 13, 17, 19, 23 }; for (int q = 0; q < 6; q++) if (N % cands[q] != 0) { stride = cands[q]; break; } }
      for (int pass = 0; pass < 2 && !bad; pass++) {
        int o = pass ? rord : ord;
        for (int i = 0; i < N; i++)
          perm[i] = o == 0 ? i : o == 1 ? N - 1 - i : o == 2 ? ((i & 1) ? N - 1 - i / 2 : i / 2) : (int)(((int64_t)i * stride) % N);
        for (int i = 0; i < N && !bad; i++) {
          int k = perm[i];
          char kb[16]; ladder_key(kb, k);
          var key = kkind == 1 ? (var)$S(kb) : (var)$I(k);
          var e;
          if (pass == 0) {
            kind("ladder-insert");
            e = VF_CATCH(set(t, key, $I(k % 10)));
            if (e) { vf_violation(L("raises"), NULL, "set raised %s at step %d", vf_exc_name(e), i); bad = 1; break; }
            if (present[k]) { vf_violation(L("harness"), NULL, "permutation repeats key %d", k); bad = 1; break; }
            present[k] = 1; count++;
          } else {
            kind("ladder-remove");
            e = VF_CATCH(rem(t, key));
            if (e) { vf_violation(L("raises"), NULL, "rem of present key %d raised %s at step %d", k, vf_exc_name(e), i); bad = 1; break; }
            present[k] = 0; count--;
          }
          vf.transitions++;
          if (len(t) != (size_t)count) { vf_violation(L("len"), NULL, "len=%zu expected %d after step %d of pass %d", len(t), count, i, pass); bad = 1; break; }
          if (m->root != NULL && (Tree_Is_Red(m, m->root) || Tree_Get_Parent(m, m->root) != NULL)) { vf_violation(L("audit-root-red"), NULL, "root is red or has a parent after step %d of pass %d", i, pass); bad = 1; break; }
          if (!ladder_depth_ok(m, k, (size_t)count, "ladder")) { bad = 1; break; }
          if ((bool)mem(t, key) != (bool)present[k]) { vf_violation(L("mem"), NULL, "mem(key %d)=%d right after %s", k, !present[k], pass ? "rem" : "set"); bad = 1; break; }
          if (pass == 0 && c_int(get(t, key)) != k % 10) { vf_violation(L("get-value"), NULL, "get(key %d) wrong right after set", k); bad = 1; break; }
          if (pass == 1) { e = VF_CATCH(get(t, key)); if (e != KeyError) { vf_violation(L("get-absent"), NULL, "get of the key just removed gave %s", vf_exc_name(e)); bad = 1; break; } }
          if ((i % full_every) == 0 || i == N - 1) {
            if (audit(t, "ladder")) { bad = 1; break; }
            audits++;
            /* full iteration against the reference: strictly monotone, exactly the present keys, values right; backward = reverse */
            size_t cnt = 0; int dir = 0; int64_t prev = 0; var it = iter_init(t);
            int* fw = malloc(((size_t)count + 1) * sizeof *fw);
            while (it != Terminal && cnt < (size_t)count + 4) {
              int64_t rk = keyrank(it);
              if (rk < 0 || rk >= N || !present[rk]) { vf_violation(L("iter-ghost"), NULL, "iteration yielded key %" PRId64 " which is not present", rk); bad = 1; break; }
              if (cnt > 0) {
                int d = rk < prev ? -1 : rk > prev ? 1 : 0;
                if (d == 0 || (dir != 0 && d != dir)) { vf_violation(L("iter-not-monotone"), NULL, "iteration not strictly monotone at key %" PRId64 " after %" PRId64, rk, prev); bad = 1; break; }
                dir = d;
              }
              if (c_int(get(t, it)) != rk % 10) { vf_violation(L("iter-get"), NULL, "get(iterated key %" PRId64 ") wrong", rk); bad = 1; break; }
              prev = rk; if (cnt < (size_t)count) fw[cnt] = (int)rk; cnt++;
              it = iter_next(t, it);
            }
            if (!bad && cnt != (size_t)count) { vf_violation(L("iter-count"), NULL, "iteration yields %zu keys, expected %d", cnt, count); bad = 1; }
            if (!bad) {
              size_t nb = 0; it = iter_last(t);
              while (it != Terminal && nb < cnt) {
                if (keyrank(it) != fw[cnt - 1 - nb]) { vf_violation(L("iter-backward"), NULL, "backward iteration is not the reverse of forward iteration (position %zu)", nb); bad = 1; break; }
                nb++; it = iter_prev(t, it);
              }
              if (!bad && (nb != cnt || it != Terminal)) { vf_violation(L("iter-backward-count"), NULL, "backward iteration yielded a different number of keys than forward (%zu)", cnt); bad = 1; }
            }
            free(fw);
            /* absent keys: a few around the touched one */
            for (int q = k - 2; q <= k + 2 && !bad; q++) {
              if (q < 0 || q >= N) continue;
              char qb[16]; ladder_key(qb, q);
              var qk = kkind == 1 ? (var)$S(qb) : (var)$I(q);
              if ((bool)mem(t, qk) != (bool)present[q]) { vf_violation(L("mem"), NULL, "mem(key %d)=%d expected %d", q, !present[q], present[q]); bad = 1; }
            }
            vf.evaluations++;
            /* white-box height for the evidence */
            { struct aud a; memset(&a, 0, sizeof a); a.m = m; a.limit = m->nitems + 4; if (m->root) audit_node(&a, m->root, NULL, 0); if (a.maxh > maxheight) maxheight = a.maxh; }
          }
        }
      }
      if (!bad && (len(t) != 0 || m->root != NULL)) { vf_violation(L("drain"), NULL, "tree not empty after removing every key"); }
      vf.executions++; vf.nontrivial += N >= 4;
      if (vf_want_sample()) vf_sample("%s", vf_cur);
      free(present); free(perm);
      del_raw(t);
    }
  }
done:
  vf.states = audits;
  vf_extra("full_audits", "%" PRIu64, audits);
  vf_extra("max_height_seen", "%d", maxheight);
}


/* ---- big clears: a whole large tree given up at once ------------------------------------
** The ladder drains its trees key by key.  Here a tree of N keys (four insertion orders: the
** descending and ascending fills give the deepest left / right spines a red-black tree can have)
** is cleared in one call - resize(t, 0), assign(t, empty tree), del_raw(t) - in a forked child so
** that a crash is a verdict for this case only; afterwards (for the two calls that keep the
** object) the tree must be empty and work again: 100 keys set, found, iterated in order. */
static struct { int n, ord, how; } bc;
static void bigclear_child(void* arg) {
  (void)arg;
  int N = bc.n;
  var t = new_raw(Tree, Int, Int);
  for (int i = 0; i < N; i++) {
    int k = bc.ord == 0 ? i : bc.ord == 1 ? N - 1 - i : bc.ord == 2 ? ((i & 1) ? N - 1 - i / 2 : i / 2) : (int)(((int64_t)i * 7919) % N);
    set(t, $I(k), $I(k % 10));
  }
  if (len(t) != (size_t)N) _exit(3);
  if (bc.how == 2) { del_raw(t); _exit(0); }
  if (bc.how == 0) resize(t, 0);
  else { var e = new_raw(Tree, Int, Int); assign(t, e); del_raw(e); }
  struct Tree* m = t;
  if (len(t) != 0 || m->root != NULL) _exit(4);
  if (mem(t, $I(0)) || mem(t, $I(N - 1)) || iter_init(t) != Terminal) _exit(5);
  for (int k = 0; k < 100; k++) set(t, $I((k * 37) % 100), $I(k));
  if (len(t) != 100) _exit(6);
  int64_t prev = 0; size_t cnt = 0; int dir = 0;
  foreach (k in t) {
    if (cnt > 0) { int d = c_int(k) < prev ? -1 : 1; if (c_int(k) == prev || (dir && d != dir)) _exit(7); dir = d; }
    prev = c_int(k); cnt++;
    if (cnt > 104) _exit(7);
  }
  if (cnt != 100) _exit(7);
  for (int k = 0; k < 100; k++) if (!mem(t, $I(k))) _exit(8);
  del_raw(t);
  _exit(0);
}

static void bigclear(void) {
  vf.phase = "tree-bigclear"; in_ladder = 1;
  const char* sizes = vf_param("sizes", "100,5000,400000");
  static const char* oname[] = { "ascending", "descending", "alternating-ends", "stride" };
  static const char* hname[] = { "resize(t,0)", "assign(t,empty-tree)", "del_raw(t)" };
  int r_n = -1, r_o = -1, r_h = -1;
  if (vf.replay && sscanf(vf.replay, "bigclear n=%d insert-order=%d how=%d", &r_n, &r_o, &r_h) != 3) { fprintf(stderr, "replay: bad bigclear case\n"); _exit(2); }
  const char* p = sizes;
  static char rsizes[32];
  if (vf.replay) { snprintf(rsizes, sizeof rsizes, "%d", r_n); p = rsizes; }
  while (*p) {
    while (*p == ',') p++;
    if (!isdigit((unsigned char)*p)) break;
    int N = (int)strtol(p, (char**)&p, 10);
    if (N < 1) continue;
    for (int ord = 0; ord < 4; ord++) for (int how = 0; how < 3; how++) {
      if (vf.replay && (ord != r_o || how != r_h)) continue;
      if (vf_deadline_hit()) return;
      vf_watchdog(600);
      vf_set_cur("bigclear n=%d insert-order=%d how=%d | %d Int keys inserted %s, then %s", N, ord, how, N, oname[ord], hname[how]);
      kind(how == 0 ? "bigclear-resize0" : how == 1 ? "bigclear-assign-empty" : "bigclear-del");
      bc.n = N; bc.ord = ord; bc.how = how;
      struct vf_child c = vf_fork_run(bigclear_child, NULL, 300);
      vf.executions++; vf.transitions += (uint64_t)N + 1; vf.states++; vf.nontrivial += N >= 1000;
      static const char* why[] = { "", "", "", "len-after-fill", "not-empty-after-clear", "lookup-after-clear", "len-after-refill", "iteration-after-refill", "mem-after-refill" };
      if (c.timed_out) vf_violation(L("does-not-terminate"), NULL, "no result within 300 s");
      else if (c.signaled) { char lb[64]; snprintf(lb, sizeof lb, "crash/signal-%d", c.sig); vf_violation(L(lb), NULL, "the child died with signal %d while a tree of %d keys was filled and cleared", c.sig, N); }
      else if (c.status != 0) vf_violation(L(c.status >= 3 && c.status <= 8 ? why[c.status] : "raises"), NULL, "child status %d (%s)", c.status, c.status >= 3 && c.status <= 8 ? why[c.status] : "uncaught exception or abort");
      vf.evaluations++;
      if (vf_want_sample()) vf_sample("%s", vf_cur);
    }
  }
}

int main(int argc, char** argv) {
  vf_init(argc, argv);
  var roots[4] = { NULL, NULL, NULL, NULL };
  R = roots;

  const char* ks = vf_param("keys", "int"), *vs = vf_param("vals", "int");
  kpicky = strcmp(ks, "picky") == 0; vpicky = strcmp(vs, "picky") == 0;
  leaky = (int)vf_param_i("leaky", 0);
  kkind = strcmp(ks, "str") == 0 ? 1 : (strcmp(ks, "probe") == 0 || kpicky) ? 2 : 0;
  vkind = (strcmp(vs, "probe") == 0 || vpicky) ? 2 : strcmp(vs, "blob") == 0 ? 3 : 0;
  K = (int)vf_param_i("nkeys", 6);
  if (K > MAXK) K = MAXK;
  if (K < 1) K = 1;
  wide = strcmp(ks, "wideint") == 0 && !vf_param_is("mode", "ladder", "bfs");
  if (wide && K > 12) K = 12;
  for (int i = 0; i < MAXK; i++) kval[i] = (wide && i < 12) ? widekeys[i] : i;
  NV = (int)vf_param_i("nvals", 1);
  if (NV < 1) NV = 1; if (NV > 2) NV = 2;
  two = (int)vf_param_i("two", 0);
  memo = (int)vf_param_i("memo", 1);
  light = (int)vf_param_i("light", 0);
  qwin = (int)vf_param_i("qwin", 2); if (qwin > 4) qwin = 4;
  alias_op = (int)vf_param_i("alias", 0);
  cross_op = (int)vf_param_i("cross", 0);
  table_op = (int)vf_param_i("table", 0);
  const char* prop = vf_param("prop", "C03");
  propC05 = strcmp(prop, "C05") == 0;
  propC09 = strcmp(prop, "C09") == 0;
  propC10 = strcmp(prop, "C10") == 0;
  propC12 = strcmp(prop, "C12") == 0;
  pairs_mode = vf_param_is("mode", "pairs", "bfs") || propC09;
  if (kkind == 2 || vkind == 2 || cross_op || table_op) propC05 = 1;     /* the ledger oracle is on whenever Probe elements are stored */
  vf_led_reset();

  KT = kkind == 0 ? Int : kkind == 1 ? String : kpicky ? Picky : Probe;
  VT = vkind == 2 ? (vpicky ? Picky : Probe) : vkind == 3 ? Blob : Int;

  if (vf_param_is("mode", "bigclear", "bfs")) {
    kkind = 0; KT = Int; vkind = 0; VT = Int;
    bigclear();
    vf_extra("key_universe", "\"Int keys 0..N-1 for each N in sizes, 4 insertion orders x 3 ways of giving the whole tree up\"");
    vf_finish();
  }
  if (vf_param_is("mode", "ladder", "bfs")) {
    if (kkind == 2) { kkind = 0; KT = Int; }
    vkind = 0; VT = Int;
    ladder();
    vf_extra("key_universe", "\"%s keys 0..N-1 for each N in sizes, 4 insertion x 4 removal orders\"", kname());
    vf_finish();
  }

  for (int i = 0; i < K; i++) snprintf(skeys[i], sizeof skeys[i], "k%02d", i);
  make_carriers();
  wrongkey = kkind == 1 ? (var)new_raw(Int, $I(0)) : (var)new_raw(String, $S("k00"));
  wrongval = new_raw(String, $S("0"));
  build_alphabet();

  struct vf_domain d = { "tree", nops_total(), reset, cleanup, apply, check, canon, opname, nontrivial,
                         (size_t)vf_param_i("depth", 0), (size_t)vf_param_i("max_states", 0) };
  static char dname[80];
  snprintf(dname, sizeof dname, "tree[%s->%s,%dkeys,%dvals%s,%s]", kname(), vname(), K, NV, two ? ",two" : "", prop);
  d.name = dname;

  if (vf.replay && strncmp(vf.replay, "pair", 4) == 0) pairs_replay(vf.replay);
  else if (vf.replay) vf_bfs_replay_case(&d, vf.replay);
  else {
    vf_bfs_run(&d);
    if (pairs_mode) pairs_phase();
  }
  if (wide) vf_extra("key_universe", "\"Int keys #0..#%d = 0, 1, -1, 2^31, -2^31, 2^32, -2^32, 2^31-1, 2^32+1, INT64_MAX, INT64_MIN, 2^62 (first %d), %d value(s)\"", K - 1, K, NV);
  else vf_extra("key_universe", "\"%s keys 0..%d, %d value(s)\"", kname(), K - 1, NV);
  vf_finish();
  return 0;
}
