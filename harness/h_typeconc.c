/*
** h_typeconc.c - C08, concurrent part: first lookups on a cold type from two or three threads.
** Every interleaving of the lookups' internal steps (type-cache slot read, slot write, class memo
** write, lazy header type) is explored with lib/vf_sched.h; each lookup must return exactly the
** instance the type declares (or none), whatever the other threads' lookups did in between.
**
** Params: ops=<t1ops>/<t2ops>[/<t3ops>]  each a string of op letters   bound=N
** Build: hooks variant + pthread wrappers.
*/

#include "vf_sched.h"

struct CT { int64_t x; };
static int CT_Cmp(var a, var b) { return 0; }
static uint64_t CT_Hash(var a) { return 7; }
static size_t CT_Len(var a) { return 3; }
static void CT_Assign(var a, var b) { }
static int CT_Show(var a, var o, int p) { return p; }
static void CT_Push(var a, var b) { }

/* declared: Cmp, Hash, Len (all three have cache slots), Assign (slot), Show (no slot), Push with only `push` filled (slot) */
static struct Cmp  ct_cmp  = { CT_Cmp };
static struct Hash ct_hash = { CT_Hash };
static struct Len  ct_len  = { CT_Len };
static struct Assign ct_assign = { CT_Assign };
static struct Show ct_show = { CT_Show, NULL };
static struct Push ct_push = { CT_Push, NULL, NULL, NULL };

var CT = CelloObject(CT, sizeof(struct CT),
  NULL, "Show", &ct_show,
  NULL, "Cmp", &ct_cmp,
  NULL, "Push", &ct_push,
  NULL, "Hash", &ct_hash,
  NULL, "Len", &ct_len,
  NULL, "Assign", &ct_assign);

static char objbuf[sizeof(struct Header) + sizeof(struct CT)];
static var obj;

/* op alphabet: letter -> lookup */
struct opdef { char c; const char* name; };
static const struct opdef OPS[] = {
  { 'c', "type_instance(CT,Cmp)" }, { 'h', "type_instance(CT,Hash)" }, { 'l', "type_implements(CT,Len)" },
  { 's', "type_instance(CT,Show)" }, { 'g', "type_instance(CT,Get) [absent]" }, { 'i', "instance(obj,Cmp)" },
  { 'p', "type_implements_method(CT,Push,pop) [empty member]" }, { 'P', "type_method(CT,Push,push)" },
  { 'm', "method(obj,Len,len)" }, { 'x', "method(obj,Iter,iter_init) [absent: ClassError]" }, { 't', "type_of(CT)" }, { 'o', "type_of(obj)" },
  { 0, NULL }
};

static char plan[3][8];
static int nthr;
static char bad_detail[300];

static void do_op(char c, int me) {
  var r; bool b;
  switch (c) {
  case 'c': r = type_instance(CT, Cmp); if (r != &ct_cmp) sch_fail("lookup/wrong-instance/type_instance-Cmp", "thread %d: type_instance(CT, Cmp) returned %p, declared %p", me, r, (void*)&ct_cmp); break;
  case 'h': r = type_instance(CT, Hash); if (r != &ct_hash) sch_fail("lookup/wrong-instance/type_instance-Hash", "thread %d: type_instance(CT, Hash) returned %p, declared %p", me, r, (void*)&ct_hash); break;
  case 'l': b = type_implements(CT, Len); if (!b) sch_fail("lookup/reports-none/type_implements-Len", "thread %d: type_implements(CT, Len) is false", me); break;
  case 's': r = type_instance(CT, Show); if (r != &ct_show) sch_fail("lookup/wrong-instance/type_instance-Show", "thread %d: type_instance(CT, Show) returned %p", me, r); break;
  case 'g': r = type_instance(CT, Get); if (r != NULL) sch_fail("lookup/reports-an-instance/absent-Get", "thread %d: type_instance(CT, Get) returned %p for an undeclared class", me, r); break;
  case 'i': r = instance(obj, Cmp); if (r != &ct_cmp) sch_fail("lookup/wrong-instance/instance-Cmp", "thread %d: instance(obj, Cmp) returned %p", me, r); break;
  case 'p': b = type_implements_method(CT, Push, pop); if (b) sch_fail("lookup/says-true/empty-member-Push.pop", "thread %d: Push.pop reported implemented", me); break;
  case 'P': b = type_implements_method(CT, Push, push); if (!b) sch_fail("lookup/says-false/member-Push.push", "thread %d: Push.push reported missing", me); break;
  case 'm': { size_t n = len(obj); if (n != 3) sch_fail("lookup/wrong-method/len", "thread %d: len(obj) = %zu through dispatch, the declared method returns 3", me, n); break; }
  case 'x': { var e = VF_CATCH(iter_init(obj)); if (e != ClassError) sch_fail("lookup/absent-class-no-ClassError", "thread %d: calling a member of an undeclared class raised %s", me, vf_exc_name(e)); break; }
  case 't': r = type_of(CT); if (r != Type) sch_fail("lookup/type_of-type", "thread %d: type_of(CT) is not Type", me); break;
  case 'o': r = type_of(obj); if (r != CT) sch_fail("lookup/type_of-object", "thread %d: type_of(obj) is not CT", me); break;
  }
}

static var body(var args) {
  int me = sch_me;
  for (const char* p = plan[me - 1]; *p; p++) do_op(*p, me);
  return NULL;
}

static void scenario(void) {
  var th[3];
  var fobj = $(Function, body);
  for (int i = 0; i < nthr; i++) { th[i] = new_raw(Thread, fobj); call(th[i]); }
  for (int i = 0; i < nthr; i++) join(th[i]);
  /* afterwards, warm: everything still answers correctly */
  for (const struct opdef* o = OPS; o->c; o++) do_op(o->c, 0);
  for (int i = 0; i < nthr; i++) del_raw(th[i]);
  /* observation: which cache slots ended up filled */
  sch->digest = 1;
  snprintf(sch->obs, sizeof sch->obs, "ok");
}

int main(int argc, char** argv) {
  vf_init(argc, argv);
  obj = header_init(objbuf, CT, AllocStatic);
  ((struct Header*)objbuf)->type = CT;
  /* only lookups on CT and its object are scheduling points (the library's own internal dispatch on Thread, Table, ... is not) */
  sch_addr_lo[0] = (const char*)CT - sizeof(struct Header); sch_addr_hi[0] = (const char*)CT + 64 * sizeof(var);
  sch_addr_lo[1] = objbuf; sch_addr_hi[1] = objbuf + sizeof objbuf;
  const char* ops = vf_param("ops", "c/c");
  nthr = 0;
  { const char* p = ops; int k = 0; memset(plan, 0, sizeof plan);
    while (*p && nthr < 3) { if (*p == '/') { nthr++; k = 0; } else if (k < 7) plan[nthr][k++] = *p; p++; }
    nthr++; }
  struct sch_explorer ex; memset(&ex, 0, sizeof ex);
  ex.bound = (int)vf_param_i("bound", 3);
  ex.max_schedules = (uint64_t)vf_param_i("max", 0);
  static char name[64]; snprintf(name, sizeof name, "lookups[%s]/b%d", ops, ex.bound);
  ex.name = name; ex.scenario = scenario;
#ifdef CELLO_VERIF
  ex.site_mask = (1ULL << CELLO_VP_TYPE_CACHE_READ) | (1ULL << CELLO_VP_TYPE_CACHE_WRITE) | (1ULL << CELLO_VP_TYPE_SCAN_MEMO) | (1ULL << CELLO_VP_TYPE_OF_LAZY);
#endif
  if (vf_param_is("mode", "all", "one")) {
    /* every ordered pair of single lookups, and every pair of two-lookup plans from a reduced alphabet */
    const char* alpha = vf_param("alpha", "chlsgipPmxto");
    const char* firsts = vf_param("first", alpha);     /* first lookup of thread 1: lets the pairs be split across processes */
    size_t na = strlen(alpha);
    int depth = (int)vf_param_i("depth", 1);
    size_t nplans = depth == 1 ? na : na * na;
    uint64_t total_sched = 0;
    for (size_t a = 0; a < nplans; a++) for (size_t b = 0; b < nplans; b++) {
      memset(plan, 0, sizeof plan); nthr = 2;
      if (!strchr(firsts, depth == 1 ? alpha[a] : alpha[a / na])) continue;
      if (depth == 1) { plan[0][0] = alpha[a]; plan[1][0] = alpha[b]; }
      else { plan[0][0] = alpha[a / na]; plan[0][1] = alpha[a % na]; plan[1][0] = alpha[b / na]; plan[1][1] = alpha[b % na]; }
      snprintf(name, sizeof name, "lookups[%s/%s]/b%d", plan[0], plan[1], ex.bound);
      memset(&ex.schedules, 0, sizeof ex - offsetof(struct sch_explorer, schedules));
      sch_explore(&ex);
      total_sched += ex.schedules;
      if (ex.capped) break;
    }
    vf.nnotes = vf.nnotes > 6 ? 6 : vf.nnotes;
    vf_note("%" PRIu64 " schedules over all lookup pairs of this instance", total_sched);
    vf_extra("schedules", "%" PRIu64, total_sched);
    vf_finish();
  }
  if (vf.replay) {
    /* case "lookups[c/h]/b3:0,1,..." : take the plans from the case name */
    const char* lb = strchr(vf.replay, '['), *rb = lb ? strchr(lb, ']') : NULL;
    if (lb && rb) { char tmp[32]; snprintf(tmp, sizeof tmp, "%.*s", (int)(rb - lb - 1), lb + 1); memset(plan, 0, sizeof plan); nthr = 0; int k = 0;
      for (char* p = tmp; *p; p++) { if (*p == '/') { nthr++; k = 0; } else if (k < 7) plan[nthr][k++] = *p; } nthr++;
      snprintf(name, sizeof name, "lookups[%s]/b%d", tmp, ex.bound); }
    sch_replay(&ex, vf.replay);
  } else sch_explore(&ex);
  vf_extra("schedules", "%" PRIu64, ex.schedules);
  vf_finish();
  return 0;
}
