/*
** h_exc.c - C07: try / catch / throw follow block structure.
**
** Program-tree enumerator.  A program is a small tree of try/catch constructs with
** data-driven statement slots and filter slots; every program of a closed space is
** executed through the REAL try/catch/throw macros (lexical templates below, plus
** dynamic nesting through function calls) and its recorded event trace is compared
** with the trace predicted by a boring recursive reference interpreter.
**
** Program shapes
**   kind 0 "chain", depth d = 1..3:   pre ; C(0) ; post     where a construct C(L) is
**        try { b0[L] ; [C(L+1) if shape[L]==0] ; b1[L] }
**        catch (F[L]) { h0[L] ; [C(L+1) if shape[L]==1] ; h1[L] }
**      the inner construct is either written lexically in the same function (dyn[L]==0)
**      or reached through a function call that contains it (dyn[L]==1).
**   kind 1 "seq":    pre ; C(0) ; mid ; C(1) ; post            (two sibling constructs)
**   kind 2 "seqt":   pre ; try { b0[2] ; C(0) ; mid ; C(1) ; b1[2] } catch (F[2]) { h0[2] } ; post
**
** Statement alphabet (digit codes, simplest first)
**   0 nop   1 throw A   2 throw B   3 throw C (only a catch-all takes it)
**   4 call K0: try { throw A } catch (e in A) { }        handled inside the callee
**   5 call K1: try { throw A } catch (e in B) { }        escapes through a non-matching callee handler
**   6 call K2: try { throw A } catch (e)      { throw B } callee handler throws
**   7 call K3: try { }         catch (e)      { }         callee try that completes normally
**   8 call a plain function that throws B (the callee receives the object as its argument)
**   9 (handler slots only, halpha=) re-throw the object bound in this handler: throw(e, ...)
** Filter alphabet: 0 catch-all (separate lexical variant)  1 {A}=(A,N,M)  2 {B}=(N,B,M)  3 {A,B}=(M,A,B)
**   (filters are vars bound at run time; N is a type that is never thrown)
**
** Run modes
**   sent     the program inside an outermost sentinel try/catch-all (process survives)
**   chout    prefix program in its own sentinel, then the program in a second sentinel
**   chin     sentinel { prefix ; program }   (two programs one after the other in one try body)
**   fresh    the program (with sentinel) as the first thing a new Cello Thread does
**   nosent   the program WITHOUT sentinel in a forked child: exit status and stderr are judged
**   builtin  (mode=builtin) the library's OWN exception kinds (every `extern var ...Error;` of Cello.h; the list
**            below is compared with the header at run time): name of each kind == its C identifier; all 16x16
**            ordered pairs (thrown X, inner filter lists Y, enclosing catch-all): the inner handler runs iff X is Y;
**            three-level routing: every ordered triple of distinct kinds listed at levels 0/1/2 x every kind thrown;
**            and, in forked children, the "Uncaught <identifier>" diagnostic of each kind, bare and past every other
**            kind's filter.
**   deep     (mode=deep) dynamic nesting through recursion to depth D in {1,2,3,17,100,1000,MAX-2,MAX-1,MAX}
**            (MAX = EXCEPTION_MAX_DEPTH read from the library's own Exception.c, D = number of try blocks
**            open at once, no sentinel, so D = MAX is the last level the library documents as legal);
**            every level has a non-matching filter except a target level (outermost / middle / innermost /
**            none); A or B is thrown at the bottom; optionally the target handler throws the other object,
**            or re-throws the object it was given (rs=1), to an outer target (or to nobody).  Each case runs
**            in a forked child whose top frame owns the stack-class objects; judged: which handlers
**            ran, the bound object, the marks the handlers left in the thrower's objects,
**            len(current(Exception)) on entry, in the body, in the handler and after
**            every construct that completes, exit status / diagnostic, and a following ordinary program.
**
** Parameters: objs=types|struct|string|int|mixed1|mixed2|mixed3|cmptry|cmpthrow (what is thrown: singleton types with
**             prefix-related names, value objects caught through distinct-but-equal filter objects, or
**             objects of several types against filters whose entries have several types; see
**             "Exception objects" below)
**             pct=0..3|mix (message texts that contain '%'; default mix; see "Message text variants")
**             msg=0..4|mix (message arguments whose Show uses try/catch/throw itself; see "Message arguments")
**             alloc=mix1|mix2|mix3|heap|static|stack (allocation class of the thrown VALUE objects; default mix1;
**             see "Allocation classes")
**             kind=chain|seq|seqt depth=N alpha=<codes> halpha=<codes, handler slots; default alpha> ppalpha=<codes> falpha=<codes>
**             shapes=all|body dyns=all|lex chain=0|1 fork=0|1 fresh=0|1 shard=k/n
**
** White-box: includes the library's own Exception.c only to read the pending object of
** the exception record when classifying residual states (exception_object() is declared
** in Cello.h but defined nowhere).  Verdicts use traces, len(current(Exception)), exit
** status and stderr only.
*/

#include "Exception.c"
#include "vf.h"

/* Type-object kinds.  The names are prefix-related on purpose (a filter entry whose name is a proper
** prefix of the thrown kind's name must not match it, and vice versa). */
static var ExcA = CelloEmpty(NetError);
static var ExcB = CelloEmpty(NetErrorTimeout);
static var ExcC = CelloEmpty(Net);
static var ExcN = CelloEmpty(NetErr);                  /* never thrown */
static var ExcM = CelloEmpty(NetErrorTimeoutRetry);    /* never thrown */

/*
** Exception objects.
**   objs=types (default): singleton type objects are thrown and listed in the filters.
**   objs=struct|string|int: VALUE objects are thrown and the filters list DISTINCT objects that are
**     eq() to them, so "the object bound in the handler is the one that was thrown" is decided by
**     pointer identity (and, for struct, by a payload field that Cmp ignores).
**   objs=mixed1|mixed2|mixed3: A, B, C have three different types (String / Type / struct instance / Int
**     in rotation) and every filter has three entries of SEVERAL types; the matching entry is first,
**     middle or last; the other entries have another type than the thrown object or the same type and
**     another value, including traps: a String whose text is the name of a thrown Type, a struct / Int
**     whose code is the number of a thrown String.  A handler runs iff some entry has the thrown
**     object's type and is eq to it.
** Every filter lists three pairwise distinct objects (a Tuple holding one object twice cannot be iterated).
** Filter 1 = {A}, filter 2 = {B}, filter 3 = {A,B} in every mode (which entries, see objs_setup).
*/
struct Exv { int code; int payload; };           /* Cmp looks at code only */
static int Exv_Cmp(var self, var obj) {
  struct Exv* a = self; struct Exv* b = obj;
  return a->code - b->code;
}
static const char* exv_names[] = { "Exc?", "ExcA", "ExcB", "ExcC", "ExcN", "ExcM", "ExcX", "ExcX", "ExcX", "ExcX" };
static int Exv_Show(var self, var out, int pos) {
  struct Exv* a = self;
  return print_to(out, pos, "%s", $S((char*)exv_names[(a->code >= 1 && a->code <= 9) ? a->code : 0]));
}
static var Exv = Cello(Exv, Instance(Cmp, Exv_Cmp), Instance(Show, Exv_Show, NULL));

/*
** objs=cmptry|cmpthrow: value objects of a class whose Cmp function itself uses the exception system before
** it compares; the objects are both thrown and listed in the filters, each filter entry with its own cmode.
**   cmptry   (nothing is thrown inside Cmp)  1: try { } catch (e) { }   2: two nested trys   3: two trys in sequence
**   cmpthrow (Cmp raises and handles)        4: try { throw Inner } catch (e in Inner) { }
**                                            5: nested, the inner filter does not match   6: throw, handle, then a second try
** Matching, the bound object and depths must be exactly as for plain values.
*/
static var ExcInner; static var ExcInner2;       /* defined with the message arguments below */
struct Exw { int code; int payload; int cmode; };
static int Exw_Cmp(var self, var obj) {
  struct Exw* a = self; struct Exw* b = obj;
  switch (a->cmode) {
    case 1: try { } catch (e_) { } break;
    case 2: try { try { } catch (e_) { } } catch (e_ in ExcInner) { } break;
    case 3: try { } catch (e_ in ExcInner) { } try { } catch (e_) { } break;
    case 4: try { throw(ExcInner, "inner, raised and handled inside a Cmp function"); } catch (e_ in ExcInner) { } break;
    case 5: try { try { throw(ExcInner, "inner, two deep inside a Cmp function"); } catch (e_ in ExcInner2) { } } catch (e_ in ExcInner) { } break;
    case 6: try { throw(ExcInner2, "inner, raised and handled inside a Cmp function"); } catch (e_) { } try { } catch (e_) { } break;
    default: break;
  }
  return a->code - b->code;
}
static int Exw_Show(var self, var out, int pos) {
  struct Exw* a = self;
  return print_to(out, pos, "%s", $S((char*)exv_names[(a->code >= 1 && a->code <= 9) ? a->code : 0]));
}
static var Exw = Cello(Exw, Instance(Cmp, Exw_Cmp), Instance(Show, Exw_Show, NULL));

enum { OBJ_TYPES = 0, OBJ_STRUCT = 1, OBJ_STRING = 2, OBJ_INT = 3, OBJ_MIXED1 = 4, OBJ_MIXED2 = 5, OBJ_MIXED3 = 6, OBJ_CMPTRY = 7, OBJ_CMPTHROW = 8 };
enum { OK_TYPE = 0, OK_STRUCT = 1, OK_STRING = 2, OK_INT = 3, OK_CMPTRY = 4 };
static int objs_mode = OBJ_TYPES;

struct odesc { var obj; var home; int kind, code, cls; char shown[32]; };
static struct odesc TH[4];                 /* thrown objects 1..3; obj = the object thrown in the execution in progress */
#define TA (TH[1].obj)
#define TB (TH[2].obj)
#define TC (TH[3].obj)
static var FT[4][3];                       /* the three entries of filter 1..3 */
static var FEQ[3];                         /* deep mode: an entry that matches thrown 1 / 2 */
static var FNO[2];                         /* deep mode: two distinct entries that match nothing */
static struct { var obj; int id; } REG[32]; static int nreg;   /* filter-only objects */

static var type_by_code(int code) { return code == 1 ? ExcA : code == 2 ? ExcB : code == 3 ? ExcC : code == 4 ? ExcN : ExcM; }

/* a new object of the kind; id = what objid() reports if a handler is ever bound to it */
static var mk_obj(int kind, int code, int payload, const char* text, int id) {
  var o;
  if (kind == OK_TYPE) o = type_by_code(code);
  else if (kind == OK_STRUCT) { struct Exv* v = new_raw(Exv); v->code = code; v->payload = payload; o = v; }
  else if (kind == OK_STRING) o = new_raw(String, $S((char*)(text ? text : exv_names[code])));
  else if (kind == OK_CMPTRY) { static int nth = 0; struct Exw* v = new_raw(Exw); v->code = code; v->payload = payload; v->cmode = (objs_mode == OBJ_CMPTHROW ? 4 : 1) + (nth++ % 3); o = v; }
  else o = new_raw(Int, $I(code));
  if (id && nreg < 32) { REG[nreg].obj = o; REG[nreg].id = id; nreg++; }
  return o;
}

static void mk_thrown(int k, int kind, int code) {
  TH[k].kind = kind; TH[k].code = code;
  TH[k].obj = TH[k].home = mk_obj(kind, code, 100 + code, NULL, 0);
  if (kind == OK_TYPE) snprintf(TH[k].shown, sizeof TH[k].shown, "%s", c_str(TH[k].obj));
  else if (kind == OK_STRUCT || kind == OK_CMPTRY) snprintf(TH[k].shown, sizeof TH[k].shown, "%s", exv_names[code]);
  else if (kind == OK_STRING) snprintf(TH[k].shown, sizeof TH[k].shown, "\"%s\"", exv_names[code]);
  else snprintf(TH[k].shown, sizeof TH[k].shown, "%d", code);
}

/* an entry that must match thrown k: the singleton itself for a Type, a distinct equal object otherwise */
static var mk_equal(int k) {
  if (TH[k].kind == OK_TYPE) return TH[k].obj;
  return mk_obj(TH[k].kind, TH[k].code, 200 + TH[k].code, NULL, 4 + k);
}
#define NOMATCH(kind, code, text) mk_obj((kind), (code), 300 + (code), (text), 4)

static void objs_setup(void) {
  nreg = 0;
  if (objs_mode <= OBJ_INT || objs_mode >= OBJ_CMPTRY) {
    int K = objs_mode == OBJ_TYPES ? OK_TYPE : objs_mode == OBJ_STRUCT ? OK_STRUCT : objs_mode == OBJ_STRING ? OK_STRING : objs_mode >= OBJ_CMPTRY ? OK_CMPTRY : OK_INT;
    for (int k = 1; k <= 3; k++) mk_thrown(k, K, k);
    var ea = mk_equal(1), eb = mk_equal(2), n = NOMATCH(K, 4, NULL), m = NOMATCH(K, 5, NULL);
    FT[1][0] = ea; FT[1][1] = n;  FT[1][2] = m;        /* {A}: first   */
    FT[2][0] = n;  FT[2][1] = eb; FT[2][2] = m;        /* {B}: middle  */
    FT[3][0] = m;  FT[3][1] = ea; FT[3][2] = eb;       /* {A,B}: middle, last */
    FEQ[1] = ea; FEQ[2] = eb; FNO[0] = n; FNO[1] = m;
    return;
  }
  if (objs_mode == OBJ_MIXED1) {            /* A = String "ExcA", B = Type NetErrorTimeout, C = struct 3 */
    mk_thrown(1, OK_STRING, 1); mk_thrown(2, OK_TYPE, 2); mk_thrown(3, OK_STRUCT, 3);
    var ea = mk_equal(1), eb = mk_equal(2);
    FT[1][0] = ExcN;                                   FT[1][1] = NOMATCH(OK_STRING, 6, c_str(ExcB)); FT[1][2] = ea;   /* {A}: last; trap: String named like type B */
    FT[2][0] = NOMATCH(OK_STRING, 6, c_str(ExcN));     FT[2][1] = eb;                                 FT[2][2] = NOMATCH(OK_STRUCT, 2, NULL);   /* {B}: middle */
    FT[3][0] = ea;                                     FT[3][1] = NOMATCH(OK_STRUCT, 1, NULL);        FT[3][2] = eb;   /* {A,B}: first, last */
    FEQ[1] = ea; FEQ[2] = eb; FNO[0] = ExcN; FNO[1] = NOMATCH(OK_INT, 7, NULL);
  } else if (objs_mode == OBJ_MIXED2) {     /* A = struct 1, B = Int 2, C = Type Net */
    mk_thrown(1, OK_STRUCT, 1); mk_thrown(2, OK_INT, 2); mk_thrown(3, OK_TYPE, 3);
    var ea = mk_equal(1), eb = mk_equal(2);
    FT[1][0] = ea;                                     FT[1][1] = ExcN;                               FT[1][2] = NOMATCH(OK_STRING, 1, NULL);   /* {A}: first */
    FT[2][0] = NOMATCH(OK_STRING, 6, "2");             FT[2][1] = ExcM;                               FT[2][2] = eb;   /* {B}: last */
    FT[3][0] = NOMATCH(OK_INT, 1, NULL);               FT[3][1] = ea;                                 FT[3][2] = eb;   /* {A,B}: middle, last; trap: Int 1 vs struct 1 */
    FEQ[1] = ea; FEQ[2] = eb; FNO[0] = NOMATCH(OK_STRING, 6, c_str(ExcC)); FNO[1] = ExcM;
  } else {                                  /* A = Type NetError, B = String "ExcB", C = Int 3 */
    mk_thrown(1, OK_TYPE, 1); mk_thrown(2, OK_STRING, 2); mk_thrown(3, OK_INT, 3);
    var ea = mk_equal(1), eb = mk_equal(2);
    FT[1][0] = NOMATCH(OK_STRING, 6, c_str(ExcA));     FT[1][1] = ea;                                 FT[1][2] = NOMATCH(OK_STRUCT, 1, NULL);   /* {A}: middle; trap: String named like type A */
    FT[2][0] = eb;                                     FT[2][1] = ExcB;                               FT[2][2] = NOMATCH(OK_INT, 2, NULL);      /* {B}: first; the Type NetErrorTimeout is not the String "ExcB" */
    FT[3][0] = NOMATCH(OK_STRUCT, 2, NULL);            FT[3][1] = eb;                                 FT[3][2] = ea;   /* {A,B}: middle, last */
    FEQ[1] = ea; FEQ[2] = eb; FNO[0] = NOMATCH(OK_INT, 4, NULL); FNO[1] = ExcN;
  }
}

/* the value of a thrown object must still be what was thrown (nothing may have written to it) */
static int value_intact(int k) {
  var o = TH[k].obj; int code = TH[k].code;
  /* payload / 1000 is the mark a handler left there (see "Allocation classes"), the rest is the payload proper */
  if (TH[k].kind == OK_STRUCT) return ((struct Exv*)o)->code == code && ((struct Exv*)o)->payload % 1000 == 100 + code;
  if (TH[k].kind == OK_CMPTRY) return ((struct Exw*)o)->code == code && ((struct Exw*)o)->payload % 1000 == 100 + code;
  if (TH[k].kind == OK_STRING) return strcmp(c_str(o), exv_names[code]) == 0;
  if (TH[k].kind == OK_INT) return c_int(o) == code;
  return 1;
}

/*
** Allocation classes (alloc=).  The thrown VALUE objects (struct / String / Int / cmptry kinds; singleton Type
** objects are static by nature) come in three allocation classes:
**   heap    new_raw()
**   static  static storage whose header is written with header_init(..., AllocStatic), as for a CelloEmpty kind
**   stack   built with $(Exv, ...) / $(Exw, ...) / $S(...) / $I(...) in the FRAME OF THE FUNCTION THAT RUNS THE
**           PROGRAM (exec_sent, child_fn, deep_child; FRAME_OBJS below).  That frame encloses the sentinel and every
**           try block of the program, so the object is alive in every handler that is offered it: the handler of the
**           block it was raised in, enclosing handlers after a non-matching inner block, a handler that re-throws
**           it (statement 9), and the callee that received it as an argument (statement 8).
** alloc=mix1 (default): A stack, B static, C heap;  mix2: A static, B heap, C stack;  mix3: A heap, B stack, C static;
** alloc=heap|static|stack: all three in that class.  Filter objects are always heap objects.
** Two oracles:
**   identity  every handler entry (the sentinel's too) records objid() of the object it was given: pointer identity
**             with the object that was thrown; an equal object that is not the thrown one is named as such (id 10).
**   mutation  every handler entry writes its ordinal within the execution (1, 2, ...) INTO the object it was given,
**             through the pointer it was given: struct kinds into the payload field (Cmp ignores it); String by moving
**             val to another buffer that holds the same text; Int has nothing eq() ignores, so the handler adds 1000
**             with assign(), the owner's pointer is read, and the handler takes the 1000 off again.  When the program
**             has ended, the OWNER of the objects reads the mark of each thrown value object through its own pointer
**             ('W' events): it must be the ordinal of the last handler that the reference says was bound to that
**             object (0 = no handler was).
*/
enum { AC_HEAP = 0, AC_STATIC = 1, AC_STACK = 2, NMARK = 64 };
static int alloc_mode = 3;                /* 0..2: everything in that class; 3..5: mix1..mix3 */
static int alloc_class(int k) {
  static const int order[3] = { AC_STACK, AC_STATIC, AC_HEAP };
  return alloc_mode <= 2 ? alloc_mode : order[(k - 1 + alloc_mode - 3) % 3];
}
static var sbuf[4][8];                    /* static class: storage of header + struct */
static char spool[4][NMARK][16];          /* String kinds: NMARK buffers holding the text of thrown k; val points into them */
static char* sinit[4];                    /* ... and the buffer val pointed to when the execution began */
static volatile int hord;                 /* handler entries so far in this execution */
static volatile int seen_mark[4];         /* Int kinds: ordinal of the last handler whose write showed through the owner's pointer */

static size_t kind_size(int kind) { return kind == OK_STRUCT ? sizeof(struct Exv) : kind == OK_CMPTRY ? sizeof(struct Exw) : kind == OK_STRING ? sizeof(struct String) : sizeof(struct Int); }
static var kind_type(int kind) { return kind == OK_STRUCT ? Exv : kind == OK_CMPTRY ? Exw : kind == OK_STRING ? String : Int; }

static void alloc_setup(void) {
  for (int k = 1; k <= 3; k++) {
    struct odesc* t = &TH[k];
    t->cls = t->kind == OK_TYPE ? AC_STATIC : alloc_class(k);
    if (t->kind == OK_TYPE) continue;
    if (t->kind == OK_STRING) {
      for (int i = 0; i < NMARK; i++) snprintf(spool[k][i], sizeof spool[k][i], "%s", exv_names[t->code]);
      struct String* h = t->home; free(h->val); h->val = spool[k][0];
    }
    if (t->cls == AC_STATIC) {
      var o = header_init(sbuf[k], kind_type(t->kind), AllocStatic);
      memcpy(o, t->home, kind_size(t->kind));
      t->home = t->obj = o;
    }
  }
}

/* start of an execution: the objects of the stack class are (re)built in the caller's frame, all marks are wiped */
static void frame_install(int k, var fv, var fw, var fs, char* fb, var fi) {
  struct odesc* t = &TH[k];
  seen_mark[k] = 0;
  if (k == 1) hord = 0;
  t->obj = t->home;
  if (t->kind == OK_TYPE) return;
  if (t->cls == AC_STACK) {
    t->obj = t->kind == OK_STRUCT ? fv : t->kind == OK_CMPTRY ? fw : t->kind == OK_STRING ? fs : fi;
    memcpy(t->obj, t->home, kind_size(t->kind));
  }
  if (t->kind == OK_STRUCT) ((struct Exv*)t->obj)->payload = 100 + t->code;
  else if (t->kind == OK_CMPTRY) ((struct Exw*)t->obj)->payload = 100 + t->code;
  else if (t->kind == OK_INT) ((struct Int*)t->obj)->val = t->code;
  else {
    struct String* s = t->obj;
    if (t->cls == AC_STACK) { snprintf(fb, 16, "%s", exv_names[t->code]); s->val = fb; } else s->val = spool[k][0];
    sinit[k] = s->val;
  }
}
/* written at function scope (compound literals live as long as the enclosing block) */
#define FRAME_K(K) \
  struct Exv* fv##K = $(Exv, 0, 0); struct Exw* fw##K = $(Exw, 0, 0, 0); char fb##K[16]; \
  struct String* fs##K = $S(fb##K); struct Int* fi##K = $I(0); \
  frame_install(K, fv##K, fw##K, fs##K, fb##K, fi##K);
#define FRAME_OBJS FRAME_K(1) FRAME_K(2) FRAME_K(3)
#define FRAME_END do { for (int k_ = 1; k_ <= 3; k_++) TH[k_].obj = TH[k_].home; } while (0)

/* the handler marks the object it was given (known: the object is one the harness made; the text buffer of a String
** that is not ours belongs to whoever made it and is left alone - the owner then finds no mark, which is the verdict) */
static void mark_bound(var e, int n, int known) {
  var t = type_of(e);
  if (t is Exv) { struct Exv* v = e; v->payload = v->payload % 1000 + 1000 * n; }
  else if (t is Exw) { struct Exw* v = e; v->payload = v->payload % 1000 + 1000 * n; }
  else if (t is String) {
    for (int k = 1; k <= 3 && n < NMARK && known; k++)
      if (TH[k].kind == OK_STRING && strcmp(c_str(e), exv_names[TH[k].code]) == 0) { ((struct String*)e)->val = spool[k][n]; break; }
  } else if (t is Int) {
    int64_t v = c_int(e);
    assign(e, $I(v + 1000));
    for (int k = 1; k <= 3; k++) if (TH[k].kind == OK_INT && c_int(TH[k].obj) == TH[k].code + 1000) seen_mark[k] = n;
    assign(e, $I(v));
  }
}

/* the owner reads the mark through its own pointer */
static int read_mark(int k) {
  var o = TH[k].obj;
  if (TH[k].kind == OK_STRUCT) return ((struct Exv*)o)->payload / 1000;
  if (TH[k].kind == OK_CMPTRY) return ((struct Exw*)o)->payload / 1000;
  if (TH[k].kind == OK_INT) return seen_mark[k];
  if (TH[k].kind == OK_STRING) {
    char* v = ((struct String*)o)->val;
    if (v == sinit[k]) return 0;
    for (int i = 0; i < NMARK; i++) if (v == spool[k][i]) return i;
    return 99;
  }
  return 0;
}

/* an object that is none of ours: an equal copy of a thrown value object? */
static int equal_copy_of_thrown(var e) {
  var t = type_of(e);
  for (int k = 1; k <= 3; k++) {
    if (TH[k].kind == OK_TYPE || t isnt kind_type(TH[k].kind)) continue;
    if (TH[k].kind == OK_STRUCT && ((struct Exv*)e)->code == TH[k].code) return 1;
    if (TH[k].kind == OK_CMPTRY && ((struct Exw*)e)->code == TH[k].code) return 1;
    if (TH[k].kind == OK_STRING && strcmp(c_str(e), exv_names[TH[k].code]) == 0) return 1;
    if (TH[k].kind == OK_INT && c_int(e) == TH[k].code) return 1;
  }
  return 0;
}

enum { KBASE = 3, NCALLEE = 4, TOTLEV = 7, MAXEV = 250 };
enum { K_CHAIN = 0, K_SEQ = 1, K_SEQT = 2 };
enum { SLOT_PRE = 100, SLOT_POST = 101, SLOT_MID = 102 };

struct prog {
  int kind, depth, pre, post, mid;
  int shape[TOTLEV], dyn[TOTLEV], b0[TOTLEV], b1[TOTLEV], h0[TOTLEV], h1[TOTLEV], F[TOTLEV];
};

static void prog_init(struct prog* p) {
  memset(p, 0, sizeof *p);
  p->depth = 1;
  /* callee table */
  p->b0[KBASE + 0] = 1; p->F[KBASE + 0] = 1; p->h0[KBASE + 0] = 0;
  p->b0[KBASE + 1] = 1; p->F[KBASE + 1] = 2; p->h0[KBASE + 1] = 0;
  p->b0[KBASE + 2] = 1; p->F[KBASE + 2] = 0; p->h0[KBASE + 2] = 2;
  p->b0[KBASE + 3] = 0; p->F[KBASE + 3] = 0; p->h0[KBASE + 3] = 0;
}

/* ---- trace (shared memory so that a forked child can report it) ------------------- */

struct ev { unsigned char kind; signed char a, b, depth; };
struct deep_h { int level, obj, depth; };
struct deep_res {
  int nh; struct deep_h h[8];             /* handler entries */
  int bad, bad_where, bad_level, bad_seen;  /* first len(current(Exception)) mismatch: where = 'e'ntry 'b'ody e'x'it */
  int exits, bottom_reached, bottom_depth, finished, final_depth, after_ran, after_ok;
  int mark[4];                            /* what the owner reads in thrown 1 / 2 when the nest has completed */
};
struct shm { int ntr; int badmsg; struct ev tr[MAXEV]; struct deep_res deep; };
static volatile struct shm* SH;
static struct ev EX[MAXEV + 8]; static int nex;     /* expected trace */
static int ref_decisions;                           /* catches that met a pending exception */
static int ref_maxdepth;

static struct prog* volatile PP;                    /* program being executed */
#define P (*PP)
static var volatile EXC;                            /* current(Exception) of the executing thread */

static int objid(var o) {
  /* identity: 1..3 = the thrown objects themselves; 5,6,4 = the (distinct, equal) filter objects */
  if (o == NULL) return 0;
  for (int k = 1; k <= 3; k++) if (o == TH[k].obj) return value_intact(k) ? k : 8;
  for (int i = 0; i < nreg; i++) if (o == REG[i].obj) return REG[i].id;
  return 9;
}
static const char* objname(int id) {
  static const char* nm[] = { "none", "A", "B", "C", "a-filter-object-that-matches-nothing", "filter-object-equal-to-A-not-the-thrown-A", "filter-object-equal-to-B-not-the-thrown-B", "?", "thrown-object-with-altered-value", "other", "an-equal-copy-of-a-thrown-object-not-the-thrown-object" };
  return (id >= 0 && id <= 10) ? nm[id] : "?";
}
/* a handler entry: who is the bound object (identity), and the handler leaves its mark in it (mutation) */
static int hbound(var e) {
  int id = objid(e);
  if (id == 9 && equal_copy_of_thrown(e)) id = 10;
  int n = hord + 1; hord = n;
  mark_bound(e, n, id != 9 && id != 10);
  return id;
}
static const char* ac_txt(int k) {
  static const char* nm[] = { "heap", "static", "stack" };
  return TH[k].kind == OK_TYPE ? "type object" : nm[TH[k].cls];
}

static volatile int in_child;

static void ev_add(int kind, int a, int b) {
  int n = SH->ntr;
  if (n > 8 * MAXEV && !in_child) {
    /* control flow is re-executing old code (a jump into a dead buffer): nothing after this can be trusted */
    vf.aborted = 1;
    vf_violation("exc/runaway-control-flow", NULL, "more than %d trace events in one program: execution is looping through stale jump buffers", 8 * MAXEV);
    vf_write();
    _exit(0);
  }
  if (n < MAXEV) {
    volatile struct ev* e = &SH->tr[n];
    e->kind = (unsigned char)kind; e->a = (signed char)a; e->b = (signed char)b;
    e->depth = (signed char)len(EXC);
  }
  /* white-box extra: a handler must not find the message of a throw that was raised and handled while
  ** the message of the exception it handles was being formatted (all such inner messages start "inner") */
  if ((kind == 'H' || kind == 'X') && strncmp(c_str(((struct Exception*)EXC)->msg), "inner", 5) == 0) SH->badmsg = 1;
  SH->ntr = n + 1;
}

/* ---- the real programs: lexical templates ------------------------------------------ */

static void fn1(int l0);
static void fn2(int l0);
/*
** Message arguments (msg=0..4|mix).  Every throw passes one extra argument that is shown with %$ while
** the message is formatted.  msg=0: a plain Int.  Otherwise an object whose Show method uses the exception
** system itself before it prints:
**   1  try { throw Inner } catch (e in Inner) { }                 an inner exception of another kind, handled
**   2  try { throw <the object being thrown outside> } catch (e in <that object>) { }     same kind as the outer
**   3  try { } catch (e) { }                                        an inner try that throws nothing
**   4  try { try { throw Inner } catch (e in Inner2) { } } catch (e in Inner) { }         nested two deep
** msg=mix picks 1..4 by the slot of the throw.  The program must behave exactly as with a plain message:
** same handlers, same bound object (the one thrown OUTSIDE), same depths; the reference ignores msg.
*/
static var ExcInner = CelloEmpty(InnerShowError);
static var ExcInner2 = CelloEmpty(InnerShowErrorOther);
struct Msgw { int mode; };
static var volatile msg_outer;          /* the object of the throw whose message is being formatted */
static int Msgw_Show(var self, var out, int pos) {
  struct Msgw* w = self;
  var outer = msg_outer;
  switch (w->mode) {
    case 1: try { throw(ExcInner, "inner, while the outer message is formatted"); } catch (e_ in ExcInner) { } break;
    case 2: try { throw(outer, "inner throw of the outer object"); } catch (e_ in outer) { } break;
    case 3: try { } catch (e_) { } break;
    case 4: try { try { throw(ExcInner, "inner, two deep"); } catch (e_ in ExcInner2) { } } catch (e_ in ExcInner) { } break;
    default: break;
  }
  return print_to(out, pos, "<w%i>", $I(w->mode));
}
static var Msgw = Cello(Msgw, Instance(Show, Msgw_Show, NULL));
static int msg_mode;                    /* 0..4, 5 = mix */
static var MW[5];
static void msg_setup(void) {
  MW[0] = new_raw(Int, $I(0));
  for (int k = 1; k <= 4; k++) { struct Msgw* w = new_raw(Msgw); w->mode = k; MW[k] = w; }
}
static var msg_arg(var outer, int slot) {
  msg_outer = outer;
  return MW[msg_mode == 5 ? 1 + (slot & 3) : msg_mode];
}

/*
** Message text variants (pct=mix default, pct=0..3): the text of a message must never matter.
**   0 plain   1 a literal "%%" (the final text contains '%')   2 "%s" of a String "50% off"   3 "%$" of a String containing "%d %s %"
** pct=mix picks the variant by the slot of the throw.
*/
static int pct_mode = 4;
static var PCT_S, PCT_V;
static int pct_sel(int slot) { return pct_mode == 4 ? ((slot / 4 + slot) & 3) : pct_mode; }
static var TAGS[4];     /* Strings "-", "A", "B", "C" */
/* the variants with '%' live in a function of their own: every throw written into the big templates costs
** several compound literals there, and under ASan the frame of a template function must stay small
** (a longjmp out of a frame of several hundred KB makes the run-time remap its shadow every time) */
static __attribute__((noinline)) void throw_variant(var o_, int v_, int tag, int slot, int k) {
  switch (v_) {
    case 1: throw(o_, "%s 100%% sure, slot %i %$", TAGS[tag], $I(slot), msg_arg(o_, k)); break;
    case 2: throw(o_, "%s %s, slot %i %$", TAGS[tag], PCT_S, $I(slot), msg_arg(o_, k)); break;
    default: throw(o_, "%s %$, slot %i %$", TAGS[tag], PCT_V, $I(slot), msg_arg(o_, k)); break;
  }
}
/* one lexical throw (plain text) per site; the other texts through throw_variant */
#define THROW_AT(OBJ, TAGI, SLOT, K) do { var o_ = (OBJ); int v_ = pct_sel(SLOT); \
  if (v_ == 0) throw(o_, "%s from slot %i %$", TAGS[TAGI], $I(SLOT), msg_arg(o_, (K))); \
  else throw_variant(o_, v_, (TAGI), (SLOT), (K)); } while (0)

/* the callee receives the object to throw as its argument */
static __attribute__((noinline)) void plain_thrower(var x) { THROW_AT(x, 2, 1, 1); }
/* statement 9: the handler throws the object it was given */
static __attribute__((noinline)) void rethrow_bound(var e, int slot) { THROW_AT(e, 0, slot, slot); }

/* one statement slot; the throw is written lexically at the slot */
#define STMT(SLOT, CODE) do { const int c_ = (CODE); ev_add('S', (SLOT), c_); \
  switch (c_) { \
    case 1: case 2: case 3: THROW_AT(TH[c_].obj, c_, (SLOT), (SLOT) + c_ - 1); break; \
    case 4: case 5: case 6: case 7: fn1(KBASE + c_ - 4); break; \
    case 8: plain_thrower(TB); break; \
    default: break; \
  } } while (0)
/* a statement slot of a handler (e_ in scope) */
#define STMT_H(SLOT, CODE) do { if ((CODE) == 9) { ev_add('S', (SLOT), 9); rethrow_bound(e_, (SLOT)); } else { STMT((SLOT), (CODE)); } } while (0)

/* one try/catch construct of level L: catch-all and filtered variants are separate texts */
#define TRYCATCH(L, BODY, HAND) \
  ev_add('B', (L), 0); \
  if (P.F[L] == 0) { \
    try { BODY } catch (e_) { ev_add('H', (L), hbound(e_)); HAND } \
  } else { \
    var fa_ = FT[P.F[L]][0]; var fb_ = FT[P.F[L]][1]; var fc_ = FT[P.F[L]][2]; \
    try { BODY } catch (e_ in fa_, fb_, fc_) { ev_add('H', (L), hbound(e_)); HAND } \
  } \
  ev_add('E', (L), 0);

#define S_B0(L) STMT((L) * 4 + 0, P.b0[L]);
#define S_B1(L) STMT((L) * 4 + 1, P.b1[L]);
#define S_H0(L) STMT_H((L) * 4 + 2, P.h0[L]);
#define S_H1(L) STMT_H((L) * 4 + 3, P.h1[L]);

#define C1(L) TRYCATCH(L, S_B0(L) S_B1(L), S_H0(L) S_H1(L))
#define IN1(L) if (P.dyn[L]) { fn1((L) + 1); } else { C1(((L) + 1)) }
#define C2(L) TRYCATCH(L, \
  S_B0(L) if (P.shape[L] == 0) { IN1(L) } S_B1(L), \
  S_H0(L) if (P.shape[L] == 1) { IN1(L) } S_H1(L))
#define IN2(L) if (P.dyn[L]) { fn2((L) + 1); } else { C2(((L) + 1)) }
#define C3(L) TRYCATCH(L, \
  S_B0(L) if (P.shape[L] == 0) { IN2(L) } S_B1(L), \
  S_H0(L) if (P.shape[L] == 1) { IN2(L) } S_H1(L))

static void fn1(int l0) { C1(l0) }
static void fn2(int l0) { C2(l0) }

/* the program proper (no sentinel) */
static void run_top(void) {
  STMT(SLOT_PRE, P.pre);
  if (P.kind == K_CHAIN) {
    if (P.depth == 1) { C1(0) }
    else if (P.depth == 2) { C2(0) }
    else { C3(0) }
  } else if (P.kind == K_SEQ) {
    C1(0)
    STMT(SLOT_MID, P.mid);
    C1(1)
  } else {
    TRYCATCH(2,
      S_B0(2) C1(0) STMT(SLOT_MID, P.mid); C1(1) S_B1(2),
      S_H0(2))
  }
  STMT(SLOT_POST, P.post);
}

/* sentinel { a ; [b] } */
/* the program is over: the owner of the thrown value objects looks at what the handlers left in them */
static void owner_reads(void) {
  for (int k = 1; k <= 3; k++) if (TH[k].kind != OK_TYPE) ev_add('W', k, read_mark(k));
}

static void exec_sent(struct prog* a, struct prog* b) {
  FRAME_OBJS                       /* the stack-class objects live in THIS frame, around the sentinel */
  SH->ntr = 0; SH->badmsg = 0;
  EXC = current(Exception);
  try {
    PP = a; run_top();
    if (b) { ev_add('M', 0, 0); PP = b; run_top(); }
    ev_add('N', (int)running(EXC), objid(((struct Exception*)EXC)->obj));
  } catch (e_) {
    ev_add('X', 0, hbound(e_));
  }
  ev_add('Z', (int)running(EXC), objid(((struct Exception*)EXC)->obj));
  owner_reads();
  FRAME_END;
}

/* ---- reference interpreter ------------------------------------------------------- */

static const struct prog* RP;

static void ex_add(int kind, int a, int b, int depth) {
  if (nex < MAXEV) { EX[nex].kind = (unsigned char)kind; EX[nex].a = (signed char)a; EX[nex].b = (signed char)b; EX[nex].depth = (signed char)depth; }
  nex++;
  if (depth > ref_maxdepth) ref_maxdepth = depth;
}

static int filt_match(int f, int x) {
  return f == 0 ? 1 : f == 1 ? x == 1 : f == 2 ? x == 2 : (x == 1 || x == 2);
}

static int ref_block(int L, int r, int depth);

/* returns 0 = normal, else the id of the raised object; bound = the object of the handler the slot is in (0: a body slot) */
static int ref_stmt_in(int slot, int code, int depth, int bound) {
  ex_add('S', slot, code, depth);
  switch (code) {
    case 1: case 2: case 3: return code;
    case 4: case 5: case 6: case 7: return ref_block(KBASE + code - 4, 1, depth);
    case 8: return 2;
    case 9: return bound;
    default: return 0;
  }
}
static int ref_stmt(int slot, int code, int depth) { return ref_stmt_in(slot, code, depth, 0); }

/* the marks the owner must find: the ordinal of the last handler entry (H or X) bound to each thrown value object */
static void ref_marks(int depth) {
  int last[4] = { 0, 0, 0, 0 }, n = 0;
  for (int i = 0; i < nex && i < MAXEV; i++) if (EX[i].kind == 'H' || EX[i].kind == 'X') { n++; if (EX[i].b >= 1 && EX[i].b <= 3) last[EX[i].b] = n; }
  for (int k = 1; k <= 3; k++) if (TH[k].kind != OK_TYPE) ex_add('W', k, last[k], depth);
}

/* r = number of chain levels from here (1 = leaf); r == -1: the seqt outer construct */
static int ref_block(int L, int r, int depth) {
  int x = 0;
  ex_add('B', L, 0, depth);
  if (r == -1) {
    x = ref_stmt(L * 4 + 0, RP->b0[L], depth + 1);
    if (!x) x = ref_block(0, 1, depth + 1);
    if (!x) x = ref_stmt(SLOT_MID, RP->mid, depth + 1);
    if (!x) x = ref_block(1, 1, depth + 1);
    if (!x) x = ref_stmt(L * 4 + 1, RP->b1[L], depth + 1);
  } else {
    x = ref_stmt(L * 4 + 0, RP->b0[L], depth + 1);
    if (!x && r > 1 && RP->shape[L] == 0) x = ref_block(L + 1, r - 1, depth + 1);
    if (!x) x = ref_stmt(L * 4 + 1, RP->b1[L], depth + 1);
  }
  if (x) {
    ref_decisions++;
    if (!filt_match(RP->F[L], x)) return x;          /* propagates outward */
    ex_add('H', L, x, depth);
    int y = ref_stmt_in(L * 4 + 2, RP->h0[L], depth, x);
    if (r != -1) {
      if (!y && r > 1 && RP->shape[L] == 1) y = ref_block(L + 1, r - 1, depth);
      if (!y) y = ref_stmt_in(L * 4 + 3, RP->h1[L], depth, x);
    }
    if (y) return y;                                 /* raised in the handler */
  }
  ex_add('E', L, 0, depth);
  return 0;
}

static int ref_top(const struct prog* p, int depth) {
  RP = p;
  int x = ref_stmt(SLOT_PRE, p->pre, depth);
  if (!x) {
    if (p->kind == K_CHAIN) x = ref_block(0, p->depth, depth);
    else if (p->kind == K_SEQ) {
      x = ref_block(0, 1, depth);
      if (!x) x = ref_stmt(SLOT_MID, p->mid, depth);
      if (!x) x = ref_block(1, 1, depth);
    } else x = ref_block(2, -1, depth);
  }
  if (!x) x = ref_stmt(SLOT_POST, p->post, depth);
  return x;
}

static int ref_sent(const struct prog* a, const struct prog* b) {
  nex = 0; ref_decisions = 0; ref_maxdepth = 0;
  int x = ref_top(a, 1);
  if (!x && b) { ex_add('M', 0, 0, 1); x = ref_top(b, 1); }
  if (x) ex_add('X', 0, x, 0); else ex_add('N', 0, 0, 1);
  ex_add('Z', 0, 0, 0);
  ref_marks(0);
  return x;
}

static int ref_nosent(const struct prog* a) {
  nex = 0; ref_decisions = 0; ref_maxdepth = 0;
  int x = ref_top(a, 0);
  if (x) ex_add('U', 0, x, 0); else { ex_add('N', 0, 0, 0); ref_marks(0); }
  return x;
}

/* ---- program <-> text ---------------------------------------------------------------- */

static char* put_prog(char* o, const struct prog* p) {
  *o++ = 'k'; *o++ = '0' + p->kind; *o++ = 'd'; *o++ = '0' + p->depth;
  *o++ = '.'; *o++ = 's'; *o++ = 'h'; *o++ = '0' + p->shape[0]; *o++ = '0' + p->shape[1];
  *o++ = '.'; *o++ = 'd'; *o++ = 'y'; *o++ = '0' + p->dyn[0]; *o++ = '0' + p->dyn[1];
  *o++ = '.'; *o++ = 'p'; *o++ = '0' + p->pre; *o++ = '0' + p->post; *o++ = '0' + p->mid;
  *o++ = '.'; *o++ = 's';
  for (int L = 0; L < 3; L++) {
    if (L) *o++ = '-';
    *o++ = '0' + p->b0[L]; *o++ = '0' + p->b1[L]; *o++ = '0' + p->h0[L]; *o++ = '0' + p->h1[L];
  }
  *o++ = '.'; *o++ = 'f'; *o++ = '0' + p->F[0]; *o++ = '0' + p->F[1]; *o++ = '0' + p->F[2];
  *o = 0;
  return o;
}

static int dig(char c, int max) { return (c >= '0' && c - '0' <= max) ? c - '0' : -1; }

/* parses one program at s; returns pointer past it or NULL */
static const char* get_prog(const char* s, struct prog* p) {
  prog_init(p);
  /* k?d?.sh??.dy??.p???.s????-????-????.f??? = 40 chars */
  if (strlen(s) < 40) return NULL;
  if (s[0] != 'k' || s[2] != 'd' || strncmp(s + 4, ".sh", 3) || strncmp(s + 9, ".dy", 3) ||
      strncmp(s + 14, ".p", 2) || strncmp(s + 19, ".s", 2) || s[25] != '-' || s[30] != '-' || strncmp(s + 35, ".f", 2)) return NULL;
  int bad = 0;
#define D(c, m) ({ int v_ = dig((c), (m)); if (v_ < 0) bad = 1; v_; })
  p->kind = D(s[1], 2); p->depth = D(s[3], 3);
  p->shape[0] = D(s[7], 1); p->shape[1] = D(s[8], 1);
  p->dyn[0] = D(s[12], 1); p->dyn[1] = D(s[13], 1);
  p->pre = D(s[16], 8); p->post = D(s[17], 8); p->mid = D(s[18], 8);
  for (int L = 0; L < 3; L++) {
    const char* q = s + 21 + 5 * L;
    p->b0[L] = D(q[0], 8); p->b1[L] = D(q[1], 8); p->h0[L] = D(q[2], 9); p->h1[L] = D(q[3], 9);
  }
  p->F[0] = D(s[37], 3); p->F[1] = D(s[38], 3); p->F[2] = D(s[39], 3);
#undef D
  if (bad || p->depth < 1) return NULL;
  return s + 40;
}

/* human-readable pseudo-code of a program */
static const char* stmt_txt(int c) {
  static const char* t[] = { "", "throw A; ", "throw B; ", "throw C; ",
    "K0(); ", "K1(); ", "K2(); ", "K3(); ", "thrower(B); ", "throw e; " };
  return t[c];
}
static const char* filt_txt(int f) {
  static const char* t[] = { "e", "e in {A}", "e in {B}", "e in {A,B}" };   /* three entries each, see objs_setup */
  return t[f];
}
static void render_block(char* o, size_t n, const struct prog* p, int L, int r) {
  size_t k = strlen(o);
  if (r == -1) {
    snprintf(o + k, n - k, "try { %s", stmt_txt(p->b0[L])); render_block(o, n, p, 0, 1);
    k = strlen(o); snprintf(o + k, n - k, "%s", stmt_txt(p->mid)); render_block(o, n, p, 1, 1);
    k = strlen(o); snprintf(o + k, n - k, "%s} catch (%s) { %s} ", stmt_txt(p->b1[L]), filt_txt(p->F[L]), stmt_txt(p->h0[L]));
    return;
  }
  snprintf(o + k, n - k, "%stry { %s", (L > 0 && L < KBASE && p->kind == K_CHAIN && p->dyn[L - 1]) ? "call: " : "", stmt_txt(p->b0[L]));
  if (r > 1 && p->shape[L] == 0) render_block(o, n, p, L + 1, r - 1);
  k = strlen(o); snprintf(o + k, n - k, "%s} catch (%s) { %s", stmt_txt(p->b1[L]), filt_txt(p->F[L]), stmt_txt(p->h0[L]));
  if (r > 1 && p->shape[L] == 1) render_block(o, n, p, L + 1, r - 1);
  k = strlen(o); snprintf(o + k, n - k, "%s} ", stmt_txt(p->h1[L]));
}
static const char* render_prog(const struct prog* p) {
  static char buf[2][1024]; static int w = 0;
  char* o = buf[w ^= 1]; o[0] = 0;
  snprintf(o, 1024, "%s", stmt_txt(p->pre));
  if (p->kind == K_CHAIN) render_block(o, 1024, p, 0, p->depth);
  else if (p->kind == K_SEQ) {
    render_block(o, 1024, p, 0, 1);
    size_t k = strlen(o); snprintf(o + k, 1024 - k, "%s", stmt_txt(p->mid));
    render_block(o, 1024, p, 1, 1);
  } else render_block(o, 1024, p, 2, -1);
  size_t k = strlen(o); snprintf(o + k, 1024 - k, "%s", stmt_txt(p->post));
  return o;
}

static void slot_txt(char* o, size_t n, int slot) {
  if (slot == SLOT_PRE) snprintf(o, n, "pre");
  else if (slot == SLOT_POST) snprintf(o, n, "post");
  else if (slot == SLOT_MID) snprintf(o, n, "mid");
  else {
    static const char* nm[] = { "b0", "b1", "h0", "h1" };
    int L = slot / 4;
    if (L >= KBASE) snprintf(o, n, "K%d.%s", L - KBASE, nm[slot % 4]); else snprintf(o, n, "%d.%s", L, nm[slot % 4]);
  }
}

static const char* lev_txt(int L) {
  static const char* t[] = { "0", "1", "2", "K0", "K1", "K2", "K3" };
  return (L >= 0 && L < TOTLEV) ? t[L] : "?";
}

static char* render_trace(const struct ev* t, int n) {
  size_t cap = 128 + (size_t)(n > 0 ? n : 0) * 96, k = 0;      /* the longest event text is below 96 characters */
  char* o = malloc(cap); o[0] = 0;
  for (int i = 0; i < n && i < MAXEV && k + 96 < cap; i++) {
    char s[16];
    switch (t[i].kind) {
      case 'S': slot_txt(s, sizeof s, t[i].a); k += snprintf(o + k, cap - k, "S(%s:%d)@%d ", s, t[i].b, t[i].depth); break;
      case 'B': k += snprintf(o + k, cap - k, "try%s@%d ", lev_txt(t[i].a), t[i].depth); break;
      case 'E': k += snprintf(o + k, cap - k, "end%s@%d ", lev_txt(t[i].a), t[i].depth); break;
      case 'H': k += snprintf(o + k, cap - k, "HANDLER%s(%s)@%d ", lev_txt(t[i].a), objname(t[i].b), t[i].depth); break;
      case 'X': k += snprintf(o + k, cap - k, "SENTINEL-CAUGHT(%s)@%d ", objname(t[i].b), t[i].depth); break;
      case 'U': k += snprintf(o + k, cap - k, "PROCESS-DIED-UNCAUGHT(%s) ", objname(t[i].b)); break;
      case 'N': k += snprintf(o + k, cap - k, "normal-end@%d ", t[i].depth); break;
      case 'Z': k += snprintf(o + k, cap - k, "after-sentinel@%d ", t[i].depth); break;
      case 'M': k += snprintf(o + k, cap - k, "| "); break;
      case 'W': k += snprintf(o + k, cap - k, "OWNER-READS(%s:mark-of-handler-entry-%d) ", objname(t[i].a), t[i].b); break;
      default:  k += snprintf(o + k, cap - k, "%c(%d,%d)@%d ", t[i].kind, t[i].a, t[i].b, t[i].depth); break;
    }
  }
  return o;
}

/* ---- comparison and labels --------------------------------------------------------- */

static int ev_same(const struct ev* e, const struct ev* a) {
  if (e->kind != a->kind) return 0;
  if (e->kind == 'N' || e->kind == 'Z') return e->depth == a->depth;
  if (e->kind == 'U') return e->b == a->b || a->b == 9;   /* 9: the diagnostic names no object we recognise - not judged */
  return e->a == a->a && e->b == a->b && e->depth == a->depth;
}

static int is_h_like(int k) { return k == 'H' || k == 'X' || k == 'U'; }

/* label of the first divergence at index i (expected EX[i] vs actual act[i]) */
static void classify(char* label, size_t n, const struct ev* act, int nact, int i) {
  const char* prior;
  int lastB = -1, lastH = -2;
  for (int j = 0; j < i && j < nex; j++) {
    if (EX[j].kind == 'B') lastB = j;
    if (EX[j].kind == 'H') lastH = j;
  }
  prior = lastH < 0 ? "no-exception-handled-before" : lastH > lastB ? "after-handled-exception-no-try-since" : "after-handled-exception-and-later-try";
  const char* sym = NULL;
  char gen[64];
  int ek = i < nex ? EX[i].kind : 0, ak = i < nact ? act[i].kind : 0;
  const struct ev* e = &EX[i]; const struct ev* a = &act[i];
  if (ek && ak && ek == ak && e->a == a->a && e->b == a->b && ek != 'N' && ek != 'Z' && ek != 'U') sym = "nesting-depth-mismatch";
  else if (ek == ak && (ek == 'N' || ek == 'Z')) sym = "nesting-depth-not-restored";
  else if (ek == 'H' && ak == 'H' && e->a == a->a && a->b >= 4 && a->b <= 7) sym = "handler-bound-to-filter-object-not-the-thrown-object";
  else if (ek == 'H' && ak == 'H' && e->a == a->a && a->b == 8) sym = "thrown-object-value-altered";
  else if (((ek == 'H' && ak == 'H' && e->a == a->a) || (ek == 'X' && ak == 'X')) && a->b == 10) sym = "handler-bound-to-a-copy-not-the-thrown-object";
  else if (ek == 'W' && ak == 'W' && e->a == a->a) sym = "handler-write-not-seen-by-thrower";
  else if (ek == 'H' && ak == 'H' && e->a == a->a) sym = "handler-bound-wrong-object";
  else if ((ek == 'X' && ak == 'X') || (ek == 'U' && ak == 'U')) sym = "propagated-wrong-object";
  else if ((ek == 'E' && ak == 'H' && e->a == a->a) || (ek == 'Z' && ak == 'X')) sym = "handler-ran-without-raise";
  else if ((ek == 'E' || ek == 'N') && (is_h_like(ak) || ak == 0)) sym = "exception-propagated-without-raise";
  else if (ek == 'H' && ak == 'E' && e->a == a->a) sym = "matching-handler-skipped";
  else if (ek == 'H' && ak == 'H' && a->a > e->a) sym = "non-matching-handler-ran";      /* an inner level (larger index, callees largest) took it first */
  else if (ek == 'H' && is_h_like(ak)) sym = "matching-handler-bypassed";
  else if (is_h_like(ek) && ak == 'H') sym = "non-matching-handler-ran";
  else if (is_h_like(ek) && (ak == 'E' || ak == 'N' || ak == 'S')) sym = "raised-exception-lost";
  else if (ak == 0) sym = "trace-ended-early";
  else { snprintf(gen, sizeof gen, "diverged-expected-%c-observed-%c", ek ? ek : '0', ak ? ak : '0'); sym = gen; }
  char cls[48]; cls[0] = 0;
  if (strcmp(sym, "handler-bound-to-a-copy-not-the-thrown-object") == 0 && e->b >= 1 && e->b <= 3) snprintf(cls, sizeof cls, "/thrown-object-is-a-%s-object", ac_txt(e->b));
  if (strcmp(sym, "handler-write-not-seen-by-thrower") == 0 && e->a >= 1 && e->a <= 3) snprintf(cls, sizeof cls, "/thrown-object-is-a-%s-object", ac_txt(e->a));
  snprintf(label, n, "exc/%s/%s%s%s", sym, prior, cls, objs_mode == OBJ_CMPTHROW ? "/filter-entry-cmp-handles-an-exception-of-its-own" : "");
}

/* compares SH->tr with EX; on mismatch records a violation; returns 1 if equal */
static int compare(const char* kase, const struct prog* a, const struct prog* b, const char* extra) {
  int nact = SH->ntr;
  const struct ev* act = (const struct ev*)SH->tr;
  if (nact > MAXEV || nex > MAXEV) {
    vf_violation("exc/trace-overflow", kase, "trace longer than %d events (expected %d, observed %d)", MAXEV, nex, nact);
    return 0;
  }
  int i = 0;
  while (i < nex && i < nact && ev_same(&EX[i], &act[i])) i++;
  if (i == nex && i == nact) {
    if (SH->badmsg) {
      vf_violation("exc/whitebox/handler-finds-message-of-an-inner-throw", kase, "program: %s%s%s   trace as expected, but a handler was entered while the record's message was that of an exception raised and handled inside a Show method during message formatting",
        b ? render_prog(a) : "", b ? " ||| " : "", render_prog(b ? b : a));
      return 0;
    }
    return 1;
  }
  char label[240];
  classify(label, sizeof label, act, nact, i);
  for (int v = 0; v < vf.nviols; v++)               /* already have the shortest case of this label: count only */
    if (strcmp(vf.viols[v].label, label) == 0 && !vf.replay) { vf_violation(label, "", ""); return 0; }
  char* te = render_trace(EX, nex); char* ta = render_trace(act, nact);
  vf_violation(label, kase, "program: %s%s%s   first divergence at event %d.   EXPECTED: %s   OBSERVED: %s%s",
    b ? render_prog(a) : "", b ? " ||| " : "", render_prog(b ? b : a), i, te, ta, extra ? extra : "");
  if (vf.replay) printf("first divergence at event %d -> %s\n", i, label);
  free(te); free(ta);
  return 0;
}

/* ---- enumeration --------------------------------------------------------------------- */

static struct prog Q;                /* program under enumeration */
static struct prog PRE;              /* prefix program (chain modes) */
struct slot { int* p; const char* alpha; int n, i; };
static struct slot SL[48]; static int NSL;
static const char *alpha, *halpha, *ppalpha, *falpha;
static int p_kind, p_depth, shapes_all, dyns_all, shard_k, shard_n;

static void add_slot(int* p, const char* al) {
  SL[NSL].p = p; SL[NSL].alpha = al; SL[NSL].n = (int)strlen(al); SL[NSL].i = 0; NSL++;
}

static void build_slots(void) {
  NSL = 0;
  if (Q.kind == K_CHAIN) {
    for (int L = Q.depth - 1; L >= 0; L--) {          /* innermost first = fastest digits */
      int leaf = (L == Q.depth - 1);
      add_slot(&Q.b0[L], alpha);
      if (!leaf && Q.shape[L] == 0) add_slot(&Q.b1[L], alpha);
      add_slot(&Q.h0[L], halpha);
      if (!leaf && Q.shape[L] == 1) add_slot(&Q.h1[L], halpha);
      add_slot(&Q.F[L], falpha);
    }
  } else {
    add_slot(&Q.b0[0], alpha); add_slot(&Q.h0[0], halpha); add_slot(&Q.F[0], falpha);
    add_slot(&Q.b0[1], alpha); add_slot(&Q.h0[1], halpha); add_slot(&Q.F[1], falpha);
    add_slot(&Q.mid, alpha);
    if (Q.kind == K_SEQT) {
      add_slot(&Q.b0[2], alpha); add_slot(&Q.b1[2], alpha); add_slot(&Q.h0[2], halpha); add_slot(&Q.F[2], falpha);
    }
  }
  add_slot(&Q.post, ppalpha);
  add_slot(&Q.pre, ppalpha);
  for (int s = 0; s < NSL; s++) *SL[s].p = SL[s].alpha[0] - '0';
}

static int odo_next(void) {
  for (int s = 0; s < NSL; s++) {
    if (++SL[s].i < SL[s].n) { *SL[s].p = SL[s].alpha[SL[s].i] - '0'; return 1; }
    SL[s].i = 0; *SL[s].p = SL[s].alpha[0] - '0';
  }
  return 0;
}

static uint64_t enum_total;

/* the cursor lives in static storage: a longjmp through a stale buffer restores registers and
** must not be able to rewind the enumeration (a broken library would otherwise livelock it) */
static volatile uint64_t idx;
static volatile int dy, sh, nsh, ndy;
static volatile uint64_t visited;

static void enum_all(void (*visit)(void)) {
  idx = 0; nsh = 1; ndy = 1;
  if (p_kind == K_CHAIN && p_depth > 1) {
    nsh = shapes_all ? 1 << (p_depth - 1) : 1;
    ndy = dyns_all ? 1 << (p_depth - 1) : 1;
  }
  for (dy = 0; dy < ndy; dy++) {
    for (sh = 0; sh < nsh; sh++) {
      prog_init(&Q);
      Q.kind = p_kind; Q.depth = p_kind == K_CHAIN ? p_depth : p_kind == K_SEQ ? 1 : 2;
      Q.shape[0] = sh & 1; Q.shape[1] = (sh >> 1) & 1;
      Q.dyn[0] = dy & 1; Q.dyn[1] = (dy >> 1) & 1;
      build_slots();
      do {
        if (shard_n == 1 || (int)(((idx * 0x9E3779B97F4A7C15ULL) >> 33) % (uint64_t)shard_n) == shard_k) {   /* deterministic, radix-independent split */
          if ((visited++ & 0x3ff) == 0) { vf_watchdog(30); if (vf_deadline_hit()) return; }
          visit();
          if (vf.aborted) return;
        }
        idx++;
      } while (odo_next());
    }
  }
  enum_total = idx;
}

/* ---- residual states ------------------------------------------------------------------ */

struct rep { int depth, active, obj; struct prog p; uint64_t seen; };
static struct rep rep_out[32], rep_in[32]; static int nrep_out, nrep_in;

static void note_residual(struct rep* tab, int* n, int depth, int active, int obj, const struct prog* p, int ok) {
  for (int i = 0; i < *n; i++) if (tab[i].depth == depth && tab[i].active == active && tab[i].obj == obj) { tab[i].seen++; return; }
  if (!ok || *n >= 32) return;          /* representatives are programs that agreed with the reference */
  tab[*n].depth = depth; tab[*n].active = active; tab[*n].obj = obj; tab[*n].p = *p; tab[*n].seen = 1; (*n)++;
}

/* a program that leaves the nesting depth wrong has been reported by compare(); put the record back
** (white-box) so that the following programs do not run on stale jump buffers */
static uint64_t record_repairs;
static void repair_record(void) {
  struct Exception* e = current(Exception);
  if (e->depth != 0) { e->depth = 0; e->active = false; record_repairs++; }
}

/* ---- visitors -------------------------------------------------------------------------- */

static struct vf_set outcomes;

static void set_cur(const char* mode, const struct prog* a, const struct prog* b) {
  char* o = vf_cur;
  o += sprintf(o, "%s:", mode);
  o = put_prog(o, a);
  if (b) { *o++ = '+'; o = put_prog(o, b); }
  vf_cur_valid = 1;
}

static void count_outcome(void) {
  char sig[MAXEV + 4]; int k = 0;
  int n = SH->ntr < MAXEV ? SH->ntr : MAXEV;
  for (int i = 0; i < n; i++) {
    int kd = SH->tr[i].kind;
    if (kd == 'H' || kd == 'X' || kd == 'U') { sig[k++] = (char)kd; sig[k++] = (char)('0' + SH->tr[i].a); sig[k++] = (char)('a' + SH->tr[i].b); }
    if (k > MAXEV - 4) break;
  }
  sig[k] = 0;
  if (vf_set_put(&outcomes, sig, 1) < 0) vf.outcomes++;
}

static void track_depth(void) {
  int n = SH->ntr < MAXEV ? SH->ntr : MAXEV;
  for (int i = 0; i < n; i++) if ((uint64_t)SH->tr[i].depth > vf.max_depth) vf.max_depth = (uint64_t)SH->tr[i].depth;
}

static void visit_main(void) {
  set_cur("sent", &Q, NULL);
  ref_sent(&Q, NULL);
  exec_sent(&Q, NULL);
  vf.states++; vf.transitions++; vf.executions++;
  if (ref_decisions > 0) vf.nontrivial++;
  int ok = compare(NULL, &Q, NULL, NULL);
  count_outcome(); track_depth();
  int n = SH->ntr;
  while (n >= 1 && n <= MAXEV && SH->tr[n - 1].kind == 'W') n--;       /* the owner's reads follow the 'Z' event */
  if (n >= 1 && n <= MAXEV) {
    volatile struct ev* z = &SH->tr[n - 1];
    if (z->kind == 'Z') note_residual(rep_out, &nrep_out, z->depth, z->a, z->b, &Q, ok);
    if (n >= 2 && SH->tr[n - 2].kind == 'N') note_residual(rep_in, &nrep_in, SH->tr[n - 2].depth, SH->tr[n - 2].a, SH->tr[n - 2].b, &Q, ok);
  }
  repair_record();
  if (ok && vf_want_sample()) vf_sample("%s  => %s", render_prog(&Q), render_trace((const struct ev*)SH->tr, SH->ntr));
}

static int chain_mode;     /* 0 = chout, 1 = chin */

static void visit_chain(void) {
  if (chain_mode == 0) {
    set_cur("chout", &PRE, &Q);
    exec_sent(&PRE, NULL);
    repair_record();
    ref_sent(&Q, NULL);
    exec_sent(&Q, NULL);
    vf.executions += 2;
    compare(NULL, &PRE, &Q, "   (second program of a chain; the prefix ran in its own sentinel before)");
  } else {
    set_cur("chin", &PRE, &Q);
    ref_sent(&PRE, &Q);
    exec_sent(&PRE, &Q);
    vf.executions += 2;
    compare(NULL, &PRE, &Q, "   (two programs one after the other in one try body)");
  }
  vf.transitions++;
  track_depth();
  repair_record();
}

/* fresh thread */
static var thread_body(var args) {
  exec_sent(&Q, NULL);
  return NULL;
}

static void visit_fresh(void) {
  set_cur("fresh", &Q, NULL);
  ref_sent(&Q, NULL);
  var t = new_raw(Thread, $(Function, thread_body));
  call(t); join(t);
  del_raw(t);
  vf.executions++; vf.transitions++;
  compare(NULL, &Q, NULL, "   (first thing executed by a new Thread)");
}

/* no sentinel, forked child */
static int child_wfd;
static uint64_t fork_escaping, fork_named;

static void child_fn(void* arg) {
  in_child = 1;
  dup2(child_wfd, 2);
  close(child_wfd);
  FRAME_OBJS                       /* no sentinel: the stack-class objects live in this frame, around the program */
  SH->ntr = 0;
  EXC = current(Exception);
  PP = &Q;
  run_top();
  ev_add('N', 0, 0);
  owner_reads();
}

static void visit_fork(void) {
  set_cur("nosent", &Q, NULL);
  int x = ref_nosent(&Q);
  int pfd[2];
  if (pipe(pfd) != 0) { vf_note("pipe() failed"); vf.exhaustive = 0; return; }
  child_wfd = pfd[1];
  SH->ntr = 0;
  struct vf_child r = vf_fork_run(child_fn, NULL, 20);
  close(pfd[1]);
  char buf[4096]; size_t got = 0;
  for (;;) {
    ssize_t k = read(pfd[0], buf + got, sizeof buf - 1 - got);
    if (k <= 0) break;
    got += (size_t)k;
    if (got >= sizeof buf - 1) break;
  }
  close(pfd[0]);
  buf[got] = 0;
  vf.executions++; vf.transitions++;
  if (x) fork_escaping++;
  char* u = strstr(buf, "Uncaught");
  int named = 0;
  int n = SH->ntr;
  if (r.timed_out) { vf_violation("exc/nosentinel/hang", NULL, "program: %s   child did not finish in 20 s", render_prog(&Q)); return; }
  if (n < MAXEV) {
    if (r.signaled) { SH->tr[n].kind = '$'; SH->tr[n].a = (signed char)r.sig; SH->tr[n].b = 0; SH->tr[n].depth = 0; SH->ntr = n + 1; }
    else if (r.exited && r.status != 0 && u) {
      /* which object does the diagnostic name?  (only judged when exactly one of ours appears) */
      int id = 9;
      char tok[64]; size_t tl = 0;
      for (const char* c = u + 9; *c && *c != '\n' && *c != ' ' && *c != '\t' && tl < sizeof tok - 1; c++) tok[tl++] = *c;
      tok[tl] = 0;
      for (int k = 1; k <= 3; k++) if (strcmp(tok, TH[k].shown) == 0) id = k;
      named = id != 9;
      SH->tr[n].kind = 'U'; SH->tr[n].a = 0; SH->tr[n].b = (signed char)id; SH->tr[n].depth = 0; SH->ntr = n + 1;
    }
    else if (r.exited && r.status != 0) { SH->tr[n].kind = '!'; SH->tr[n].a = (signed char)r.status; SH->tr[n].b = 0; SH->tr[n].depth = 0; SH->ntr = n + 1; }
  }
  /* the two explicit promises for a program whose exception nobody handles */
  if (x && r.exited && n == nex - 1) {
    int same = 1;
    for (int i = 0; i < n; i++) if (!ev_same(&EX[i], (const struct ev*)&SH->tr[i])) same = 0;
    if (same && r.status == 0) {
      vf_violation(u ? "exc/uncaught/exit-status-zero" : "exc/uncaught/silent-success", NULL,
        "program: %s   the exception %s escapes every handler but the process exited with status 0 (stderr: %.200s)", render_prog(&Q), objname(x), buf);
      return;
    }
    if (same && !u) {
      vf_violation("exc/uncaught/no-diagnostic", NULL,
        "program: %s   the exception %s escapes every handler, exit status %d, but stderr has no 'Uncaught' diagnostic: %.200s", render_prog(&Q), objname(x), r.status, buf);
      return;
    }
  }
  if (!x && r.exited && r.status != 0 && n == nex && !u) {
    vf_violation("exc/nosentinel/failure-status-without-exception", NULL, "program: %s   completes normally but exit status is %d", render_prog(&Q), r.status);
    return;
  }
  char extra[400];
  snprintf(extra, sizeof extra, "   (no sentinel, forked child: exit=%d status=%d signal=%d; stderr: %.200s)", r.exited, r.status, r.sig, buf);
  for (char* c = extra; *c; c++) if (*c == '\n' || *c == '\t') *c = ' ';
  if (compare(NULL, &Q, NULL, extra) && x && named) fork_named++;
  track_depth();
}

/* ---- deep nesting ---------------------------------------------------------------------- */

struct deep_case { int D, T1, T2, x, tf, rt, rs; };   /* T = -1: nobody; x = thrown 1|2; tf: 0 catch-all at T1, 1 typed; rt: T1's handler throws the other object, or (rs) re-throws the object it was given */
#define DC_X2 (DC.rs ? DC.x : 3 - DC.x)           /* the object T1's handler throws */
static struct deep_case DC;
#define DS (SH->deep)

static void deep_bad(int where, int level, int seen) {
  if (!DS.bad) { DS.bad = 1; DS.bad_where = where; DS.bad_level = level; DS.bad_seen = seen; }
}

static var deep_thrown(int id) { return id == 1 ? TA : TB; }
static var deep_filter(int id) { return FEQ[id]; }

static void deep_rec(int level);

#define DEEP_BODY \
  { int d_ = (int)len(EXC); if (d_ != level + 1) deep_bad('b', level, d_); } \
  if (level == DC.D - 1) { \
    DS.bottom_reached = 1; DS.bottom_depth = (int)len(EXC); \
    THROW_AT(deep_thrown(DC.x), DC.x, DC.D + DC.x, DC.D); \
  } else { deep_rec(level + 1); }

#define DEEP_HAND \
  { int id_ = hbound(e_); if (DS.nh < 8) { DS.h[DS.nh].level = level; DS.h[DS.nh].obj = id_; DS.h[DS.nh].depth = (int)len(EXC); } } \
  DS.nh++; \
  if (level == DC.T1 && DC.rt) { if (DC.rs) rethrow_bound(e_, level + DC.x + 1); else THROW_AT(deep_thrown(3 - DC.x), 3 - DC.x, level + DC.x + 1, level + 1); }

/* one level: the parameter is never modified, so it may be read after the longjmp */
static void deep_rec(int level) {
  { int d_ = (int)len(EXC); if (d_ != level) deep_bad('e', level, d_); }
  if (level == DC.T1 && DC.tf == 0) {
    try { DEEP_BODY } catch (e_) { DEEP_HAND }
  } else {
    /* the matching object is listed second, behind one that never matches.  The two entries are always
    ** distinct objects: a Tuple holding the same object twice cannot be iterated (known finding D16 of
    ** C11), so `catch (e in X, X)` would not terminate - not a C07 matter */
    var fa_ = FNO[0];
    var fb_ = level == DC.T1 ? deep_filter(DC.x) : (level == DC.T2 && DC.rt) ? deep_filter(DC_X2) : FNO[1];
    try { DEEP_BODY } catch (e_ in fa_, fb_) { DEEP_HAND }
  }
  { int d_ = (int)len(EXC); if (d_ != level) deep_bad('x', level, d_); }
  DS.exits++;
}

static int traces_equal(void) {
  int nact = SH->ntr;
  if (nact != nex || nact > MAXEV) return 0;
  for (int i = 0; i < nex; i++) if (!ev_same(&EX[i], (const struct ev*)&SH->tr[i])) return 0;
  return 1;
}

static void deep_child(void* arg) {
  in_child = 1;
  dup2(child_wfd, 2);
  close(child_wfd);
  FRAME_OBJS                       /* the stack-class objects live in this frame, D levels above the throw */
  EXC = current(Exception);
  deep_rec(0);
  DS.finished = 1;
  DS.final_depth = (int)len(EXC);
  for (int k = 1; k <= 2; k++) DS.mark[k] = read_mark(k);
  /* an ordinary program afterwards: try { K0(); try { throw B } catch (e in A,N) { } } catch (e in N,B) { K2() }  throw A */
  struct prog q; prog_init(&q);
  q.depth = 2; q.b0[0] = 4; q.b0[1] = 2; q.F[1] = 1; q.F[0] = 2; q.h0[0] = 6; q.post = 1;
  ref_sent(&q, NULL);
  exec_sent(&q, NULL);
  DS.after_ran = 1;
  DS.after_ok = traces_equal();
}

static const char* deep_class(int D, char* buf, size_t n) {
  int M = (int)EXCEPTION_MAX_DEPTH;
  if (D == M) snprintf(buf, n, "MAX"); else if (D >= M - 4) snprintf(buf, n, "MAX-%d", M - D);
  else snprintf(buf, n, "%d", D);
  return buf;
}

static uint64_t deep_cases, deep_uncaught;

static void deep_run(void) {
  char cls[16], label[240], kase[128], what[320];
  deep_class(DC.D, cls, sizeof cls);
  snprintf(kase, sizeof kase, "deep:D=%d,T1=%d,T2=%d,x=%d,tf=%d,rt=%d,rs=%d", DC.D, DC.T1, DC.T2, DC.x, DC.tf, DC.rt, DC.rs);
  vf_set_cur("%s", kase);
  snprintf(what, sizeof what, "%d nested try blocks (recursion), all filters non-matching except level %d (%s)%s; throw %s at the bottom",
    DC.D, DC.T1, DC.T1 < 0 ? "nobody" : DC.tf ? "typed" : "catch-all",
    DC.rt ? (DC.rs ? (DC.T2 >= 0 ? ", whose handler re-throws the object it was given to level 0" : ", whose handler re-throws the object it was given to nobody")
                   : (DC.T2 >= 0 ? ", whose handler throws the other object to level 0" : ", whose handler throws the other object to nobody")) : "", objname(DC.x));
  /* expectation */
  int eh = 0, ehl[2], eho[2], final_obj = 0;     /* final_obj: escapes everything */
  if (DC.T1 >= 0) { ehl[eh] = DC.T1; eho[eh] = DC.x; eh++;
    if (DC.rt) { if (DC.T2 >= 0) { ehl[eh] = DC.T2; eho[eh] = DC_X2; eh++; } else final_obj = DC_X2; } }
  else final_obj = DC.x;
  int eexits = final_obj ? 0 : ehl[eh - 1] + 1;

  int pfd[2];
  if (pipe(pfd) != 0) { vf_note("pipe() failed"); vf.exhaustive = 0; return; }
  child_wfd = pfd[1];
  memset((void*)&DS, 0, sizeof DS);
  SH->ntr = 0;
  struct vf_child r = vf_fork_run(deep_child, NULL, 60);
  close(pfd[1]);
  char buf[2048]; size_t got = 0;
  for (;;) { ssize_t k = read(pfd[0], buf + got, sizeof buf - 1 - got); if (k <= 0) break; got += (size_t)k; if (got >= sizeof buf - 1) break; }
  close(pfd[0]); buf[got] = 0;
  for (char* c = buf; *c; c++) if (*c == '\n' || *c == '\t') *c = ' ';
  deep_cases++; vf.states++; vf.transitions++; vf.executions++; vf.nontrivial++;
  if (final_obj) deep_uncaught++;
  if ((uint64_t)DS.bottom_depth > vf.max_depth) vf.max_depth = (uint64_t)DS.bottom_depth;
  if (vf.replay) {
    printf("%s\nchild: exited=%d status=%d signaled=%d sig=%d; bottom reached=%d with len=%d; handlers:", what, r.exited, r.status, r.signaled, r.sig, DS.bottom_reached, DS.bottom_depth);
    for (int i = 0; i < DS.nh && i < 8; i++) printf(" level %d bound %s at len %d;", DS.h[i].level, objname(DS.h[i].obj), DS.h[i].depth);
    printf(" constructs completed=%d (expected %d), finished=%d final len=%d, following program ok=%d; stderr: %.300s\n", DS.exits, eexits, DS.finished, DS.final_depth, DS.after_ok, buf);
  }
#define DEEP_VIOL(sym, ...) do { snprintf(label, sizeof label, "exc/deep/depth=%s/%s%s", cls, sym, objs_mode == OBJ_CMPTHROW ? "/filter-entry-cmp-handles-an-exception-of-its-own" : ""); \
    char det_[700]; snprintf(det_, sizeof det_, __VA_ARGS__); vf_violation(label, kase, "%s: %s (stderr: %.200s)", what, det_, buf); return; } while (0)
  if (r.timed_out) DEEP_VIOL("hang", "child did not finish in 60 s");
  if (r.signaled) {
    if (r.sig == SIGABRT && strstr(buf, "Buffer Overflow")) DEEP_VIOL("aborted-exception-buffer-overflow", "the library aborted with 'Exception Buffer Overflow' although only %d try blocks were open (EXCEPTION_MAX_DEPTH = %d); the bottom was%s reached", DC.D, (int)EXCEPTION_MAX_DEPTH, DS.bottom_reached ? "" : " not");
    DEEP_VIOL(r.sig == SIGABRT ? "aborted" : "crashed", "child killed by signal %d; bottom reached=%d", r.sig, DS.bottom_reached);
  }
  if (!DS.bottom_reached) DEEP_VIOL("bottom-not-reached", "the innermost body never ran (exit status %d)", r.status);
  if (DS.bottom_depth != DC.D) DEEP_VIOL("nesting-depth-mismatch", "len(current(Exception)) = %d in the innermost body, expected %d", DS.bottom_depth, DC.D);
  if (DS.bad) DEEP_VIOL(DS.bad_where == 'x' ? "nesting-depth-not-restored" : "nesting-depth-mismatch", "len(current(Exception)) = %d at level %d (%s), expected %d",
    DS.bad_seen, DS.bad_level, DS.bad_where == 'e' ? "before its try" : DS.bad_where == 'b' ? "in its try body" : "after its construct", DS.bad_where == 'b' ? DS.bad_level + 1 : DS.bad_level);
  for (int i = 0; i < DS.nh && i < 8; i++) {
    if (i >= eh) DEEP_VIOL(DS.h[i].level == DS.h[i ? i - 1 : 0].level ? "handler-ran-twice" : "non-matching-handler-ran", "handler of level %d ran (bound %s) but should not", DS.h[i].level, objname(DS.h[i].obj));
    if (DS.h[i].level != ehl[i]) DEEP_VIOL("wrong-handler-ran", "handler of level %d ran, expected the handler of level %d", DS.h[i].level, ehl[i]);
    if (DS.h[i].obj != eho[i]) DEEP_VIOL(DS.h[i].obj >= 4 && DS.h[i].obj <= 7 ? "handler-bound-to-filter-object-not-the-thrown-object" : DS.h[i].obj == 10 ? "handler-bound-to-a-copy-not-the-thrown-object" : "handler-bound-wrong-object", "handler of level %d bound %s, thrown was %s", DS.h[i].level, objname(DS.h[i].obj), objname(eho[i]));
    if (DS.h[i].depth != ehl[i]) DEEP_VIOL("nesting-depth-mismatch", "len(current(Exception)) = %d in the handler of level %d, expected %d", DS.h[i].depth, DS.h[i].level, ehl[i]);
  }
  if (DS.nh < eh) DEEP_VIOL("target-handler-did-not-run", "%d handler(s) ran, expected %d (level %d)", DS.nh, eh, ehl[DS.nh]);
  if (final_obj) {
    if (DS.finished) DEEP_VIOL("raised-exception-lost", "%s escapes every handler but the program ran to its end", objname(final_obj));
    if (!r.exited || r.status == 0) DEEP_VIOL("uncaught/exit-status-zero", "%s escapes every handler, exit status %d", objname(final_obj), r.status);
    if (!strstr(buf, "Uncaught")) DEEP_VIOL("uncaught/no-diagnostic", "%s escapes every handler, exit status %d, no 'Uncaught' on stderr", objname(final_obj), r.status);
    return;
  }
  if (!DS.finished) DEEP_VIOL("terminated-after-handled-exception", "the exception was handled at level %d but the process ended (exit status %d) before the outermost construct completed", ehl[eh - 1], r.status);
  if (DS.exits != eexits) DEEP_VIOL("wrong-number-of-constructs-completed", "%d constructs completed normally, expected %d", DS.exits, eexits);
  if (DS.final_depth != 0) DEEP_VIOL("nesting-depth-not-restored", "len(current(Exception)) = %d after the outermost construct", DS.final_depth);
  for (int k = 1; k <= 2; k++) {
    int em = 0; for (int i = 0; i < eh; i++) if (eho[i] == k) em = i + 1;
    if (TH[k].kind != OK_TYPE && DS.mark[k] != em) DEEP_VIOL("handler-write-not-seen-by-thrower", "the %s object %s carries the mark of handler entry %d when the nest has completed; the last handler bound to it was entry %d (0 = none): what a handler writes into the object it is given must reach the thrower's object",
      ac_txt(k), objname(k), DS.mark[k], em);
  }
  if (!DS.after_ran || !DS.after_ok) DEEP_VIOL("following-program-misbehaves", "an ordinary depth-2 program run afterwards %s", DS.after_ran ? "produced a trace different from the reference" : "did not complete");
  if (r.status != 0) DEEP_VIOL("failure-status-without-exception", "exit status %d", r.status);
  vf.executions++;          /* the following program */
  if (vf_want_sample()) vf_sample("%s -> handler level %d bound %s, %d constructs completed, following program ok", kase, ehl[eh - 1], objname(eho[eh - 1]), DS.exits);
#undef DEEP_VIOL
}

static void deep_all(void) {
  int M = (int)EXCEPTION_MAX_DEPTH;
  /* a Show method of a message argument opens up to two more try blocks below the innermost level:
  ** they count against MAX too, so the program itself may then only nest to MAX-2 */
  int top = M - (msg_mode ? 2 : objs_mode >= OBJ_CMPTRY ? 1 : 0);    /* a Cmp with two nested trys runs one level below the innermost body */
  int cand[] = { 1, 2, 3, 17, 100, 1000, top - 2, top - 1, top };
  long cap = vf_param_i("maxdepth", top);       /* never above MAX in total: MAX+1 aborts by design */
  if (cap > top) cap = top;
  int seen[16], ns = 0;
  for (size_t c = 0; c < sizeof cand / sizeof cand[0]; c++) {
    int D = cand[c];
    if (D < 1 || D > cap) continue;
    int dup = 0; for (int i = 0; i < ns; i++) if (seen[i] == D) dup = 1;
    if (dup) continue;
    seen[ns++] = D;
    int tl[4] = { 0, D / 2, D - 1, -1 };
    for (int ti = 0; ti < 4; ti++) {
      int T1 = tl[ti], d2 = 0;
      for (int tj = 0; tj < ti; tj++) if (tl[tj] == T1) d2 = 1;
      if (d2) continue;
      for (int x = 1; x <= 2; x++) for (int tf = 1; tf >= 0; tf--) for (int rt = 0; rt <= 4; rt++) {     /* rt 3, 4: as 1, 2 with the bound object re-thrown */
        if (T1 < 0 && (tf == 0 || rt)) continue;            /* nobody handles: one variant */
        if ((rt == 1 || rt == 3) && T1 == 0) continue;        /* no outer target above the outermost level */
        DC.D = D; DC.T1 = T1; DC.x = x; DC.tf = tf; DC.rt = rt ? 1 : 0; DC.T2 = (rt == 1 || rt == 3) ? 0 : -1; DC.rs = rt >= 3;
        vf_watchdog(120);
        deep_run();
      }
    }
  }
  vf_watchdog(0);
  vf_extra("exception_max_depth", "%d", M);
  vf_extra("deep_cases", "%" PRIu64, deep_cases);
  vf_extra("deep_cases_expected_uncaught", "%" PRIu64, deep_uncaught);
}

/* ---- the library's own exception kinds ---------------------------------------------------------- */

#define BUILTIN_KINDS(X) \
  X(TypeError) X(ValueError) X(ClassError) X(IndexOutOfBoundsError) X(KeyError) X(OutOfMemoryError) \
  X(IOError) X(FormatError) X(BusyError) X(ResourceError) X(ProgramAbortedError) X(DivisionByZeroError) \
  X(IllegalInstructionError) X(ProgramInterruptedError) X(SegmentationError) X(ProgramTerminationError)
#define BK_COUNT_(n) + 1
enum { NBK = 0 BUILTIN_KINDS(BK_COUNT_) };
static const char* BKN[NBK + 1];
static var BK[NBK + 1];
static void bk_setup(void) {
  int i = 0;
#define BK_FILL_(n) BKN[i] = #n; BK[i] = n; i++;
  BUILTIN_KINDS(BK_FILL_)
#undef BK_FILL_
}
static int bk_index(var o) { for (int i = 0; i < NBK; i++) if (o == BK[i]) return i; return o == NULL ? -1 : -2; }
static const char* bk_name(int i) { return i >= 0 && i < NBK ? BKN[i] : i == -1 ? "none" : "some-other-object"; }

/* observations of one builtin program (shared memory: the uncaught family runs in a child) */
struct bi_obs { int h[4]; int hd[4]; int mark[4]; int body_depth, end_depth, finished; };
#define BO (*(volatile struct bi_obs*)&SH->deep)     /* reuses the deep-mode area */

static void bi_clear(void) { memset((void*)&SH->deep, 0, sizeof SH->deep); for (int i = 0; i < 4; i++) BO.h[i] = -1; }

/* try { try { throw X } catch (e in Y) { inner } mark } catch (e) { outer } */
static void bi_pair(var X, var Y) {
  EXC = current(Exception);
  try {
    try {
      BO.body_depth = (int)len(EXC);
      throw(X, "builtin kind %$ thrown", X);
    } catch (e_ in Y) { BO.h[1] = bk_index(e_); BO.hd[1] = (int)len(EXC); }
    BO.mark[1] = 1;
  } catch (e_) { BO.h[0] = bk_index(e_); BO.hd[0] = (int)len(EXC); }
  BO.end_depth = (int)len(EXC);
  BO.finished = 1;
}

/* sentinel { L0 lists k0 { L1 lists k1 { L2 lists k2 { throw X } } } }; h[] index: 0 sentinel, 1..3 = levels 0..2 */
static void bi_route(var X, var k0, var k1, var k2) {
  EXC = current(Exception);
  try {
    try {
      try {
        try {
          BO.body_depth = (int)len(EXC);
          throw(X, "builtin kind %$ routed", X);
        } catch (e_ in k2) { BO.h[3] = bk_index(e_); BO.hd[3] = (int)len(EXC); }
        BO.mark[3] = 1;
      } catch (e_ in k1) { BO.h[2] = bk_index(e_); BO.hd[2] = (int)len(EXC); }
      BO.mark[2] = 1;
    } catch (e_ in k0) { BO.h[1] = bk_index(e_); BO.hd[1] = (int)len(EXC); }
    BO.mark[1] = 1;
  } catch (e_) { BO.h[0] = bk_index(e_); BO.hd[0] = (int)len(EXC); }
  BO.end_depth = (int)len(EXC);
  BO.finished = 1;
}

static int bi_x, bi_y;
static void bi_uncaught_child(void* arg) {
  in_child = 1;
  dup2(child_wfd, 2); close(child_wfd);
  EXC = current(Exception);
  if (bi_y < 0) { throw(BK[bi_x], "builtin kind %$ thrown with no try block open", BK[bi_x]); }
  else { try { throw(BK[bi_x], "builtin kind %$ thrown past a filter", BK[bi_x]); } catch (e_ in BK[bi_y]) { BO.h[1] = bk_index(e_); } }
  BO.finished = 1;
}

static uint64_t bi_programs;
#define BI_COUNT() do { bi_programs++; vf.states++; vf.transitions++; vf.executions++; vf.nontrivial++; } while (0)

static void bi_name(int i) {
  vf_set_cur("builtin:name:%d", i);
  vf.evaluations++;
  const char* nm = c_str(BK[i]);
  char label[240];
  if (strcmp(nm, BKN[i]) != 0) {
    snprintf(label, sizeof label, "exc/builtin/%s/name-differs-from-identifier", BKN[i]);
    vf_violation(label, NULL, "c_str(%s) is \"%s\": the kind carries another kind's name, and catch filters match type objects by name", BKN[i], nm);
  }
  for (int j = 0; j < i; j++) if (BK[j] == BK[i]) {
    snprintf(label, sizeof label, "exc/builtin/%s/same-object-as-another-kind", BKN[i]);
    vf_violation(label, NULL, "%s and %s are the same object", BKN[i], BKN[j]);
  }
  if (vf.replay) printf("c_str(%s) = \"%s\"\n", BKN[i], nm);
}

static void bi_do_pair(int x, int y) {
  char label[200];
  vf_set_cur("builtin:pair:%d,%d", x, y);
  bi_clear();
  bi_pair(BK[x], BK[y]);
  BI_COUNT();
  const char* sym = NULL;
  int eh1 = x == y ? x : -1, eh0 = x == y ? -1 : x;
  if (!BO.finished) sym = "did-not-finish";
  else if (BO.h[1] != eh1 && eh1 < 0) sym = "non-matching-handler-ran";
  else if (BO.h[1] != eh1 && BO.h[1] == -1) sym = "matching-handler-skipped";
  else if (BO.h[1] != eh1) sym = "handler-bound-wrong-object";
  else if (BO.h[0] != eh0 && eh0 < 0) sym = "handler-ran-without-raise";
  else if (BO.h[0] != eh0 && BO.h[0] == -1) sym = "raised-exception-lost";
  else if (BO.h[0] != eh0) sym = "propagated-wrong-object";
  else if (BO.mark[1] != (x == y)) sym = "wrong-continuation-after-inner-construct";
  else if (BO.body_depth != 2 || BO.end_depth != 0 || (x == y && BO.hd[1] != 1) || (x != y && BO.hd[0] != 0)) sym = "nesting-depth-mismatch";
  if (vf.replay) printf("try { try { throw %s } catch (e in %s) { inner } } catch (e) { outer }: inner bound %s, outer bound %s, continued after inner construct=%d, depths body=%d end=%d\n",
    BKN[x], BKN[y], bk_name(BO.h[1]), bk_name(BO.h[0]), BO.mark[1], BO.body_depth, BO.end_depth);
  if (sym) {
    snprintf(label, sizeof label, "exc/builtin/throw=%s/filter=%s/%s", BKN[x], BKN[y], sym);
    vf_violation(label, NULL, "try { try { throw(%s) } catch (e in %s) { inner } } catch (e) { outer }: expected %s; observed inner handler bound %s, outer handler bound %s (names: \"%s\" / \"%s\")",
      BKN[x], BKN[y], x == y ? "the inner handler bound to the thrown kind" : "only the outer handler, bound to the thrown kind", bk_name(BO.h[1]), bk_name(BO.h[0]), c_str(BK[x]), c_str(BK[y]));
  } else if (vf_want_sample()) vf_sample("builtin pair throw=%s filter=%s -> %s handler bound %s", BKN[x], BKN[y], x == y ? "inner" : "outer", BKN[x]);
}

static void bi_do_route(int x, int k0, int k1, int k2) {
  char label[200];
  int ks[4] = { -9, k0, k1, k2 };          /* by h[] index */
  vf_set_cur("builtin:route:%d,%d,%d,%d", x, k0, k1, k2);
  bi_clear();
  bi_route(BK[x], BK[k0], BK[k1], BK[k2]);
  BI_COUNT();
  int target = x == k2 ? 3 : x == k1 ? 2 : x == k0 ? 1 : 0;      /* innermost first */
  const char* sym = NULL;
  if (!BO.finished) sym = "did-not-finish";
  for (int i = 3; i >= 0 && !sym; i--) {
    int eh = i == target ? x : -1;
    if (BO.h[i] != eh) sym = eh < 0 ? (i > target ? "non-matching-handler-ran" : "handler-ran-after-the-exception-was-handled") : BO.h[i] == -1 ? "matching-handler-bypassed" : "handler-bound-wrong-object";
    else if (i == target && BO.hd[i] != (i == 0 ? 0 : i)) sym = "nesting-depth-mismatch";
  }
  for (int i = 1; i <= 3 && !sym; i++) if (BO.mark[i] != (i <= target && target != 0 ? 1 : 0)) sym = "wrong-continuation-after-construct";
  if (!sym && (BO.body_depth != 4 || BO.end_depth != 0)) sym = "nesting-depth-mismatch";
  if (vf.replay) printf("levels 0/1/2 list %s/%s/%s, throw %s: handlers sentinel=%s L0=%s L1=%s L2=%s marks=%d%d%d depths body=%d end=%d\n", BKN[k0], BKN[k1], BKN[k2], BKN[x],
    bk_name(BO.h[0]), bk_name(BO.h[1]), bk_name(BO.h[2]), bk_name(BO.h[3]), BO.mark[1], BO.mark[2], BO.mark[3], BO.body_depth, BO.end_depth);
  if (sym) {
    int wrong = -1; for (int i = 3; i >= 1; i--) if (BO.h[i] != -1 && i != target) { wrong = i; break; }
    snprintf(label, sizeof label, "exc/builtin/route/throw=%s/%s%s%s", BKN[x], sym, wrong > 0 ? "/at-filter=" : "", wrong > 0 ? BKN[ks[wrong]] : "");
    vf_violation(label, NULL, "three nested try blocks listing %s (outermost), %s, %s (innermost) inside a catch-all; throw(%s): expected only %s to run, bound to %s; observed sentinel=%s L0=%s L1=%s L2=%s",
      BKN[k0], BKN[k1], BKN[k2], BKN[x], target == 0 ? "the catch-all" : target == 1 ? "level 0" : target == 2 ? "level 1" : "level 2", BKN[x],
      bk_name(BO.h[0]), bk_name(BO.h[1]), bk_name(BO.h[2]), bk_name(BO.h[3]));
  }
}

static void bi_do_uncaught(int x, int y) {
  char label[200];
  vf_set_cur("builtin:uncaught:%d,%d", x, y);
  int pfd[2];
  if (pipe(pfd) != 0) { vf_note("pipe() failed"); vf.exhaustive = 0; return; }
  child_wfd = pfd[1]; bi_x = x; bi_y = y;
  bi_clear();
  struct vf_child r = vf_fork_run(bi_uncaught_child, NULL, 20);
  close(pfd[1]);
  char buf[1024]; size_t got = 0;
  for (;;) { ssize_t k = read(pfd[0], buf + got, sizeof buf - 1 - got); if (k <= 0) break; got += (size_t)k; if (got >= sizeof buf - 1) break; }
  close(pfd[0]); buf[got] = 0;
  BI_COUNT();
  char tok[64]; tok[0] = 0;
  char* u = strstr(buf, "Uncaught ");
  if (u) { size_t tl = 0; for (const char* c = u + 9; *c && *c != '\n' && *c != ' ' && *c != '\t' && tl < sizeof tok - 1; c++) tok[tl++] = *c; tok[tl] = 0; }
  for (char* c = buf; *c; c++) if (*c == '\n' || *c == '\t') *c = ' ';
  const char* sym = NULL;
  if (r.timed_out) sym = "hang";
  else if (r.signaled) sym = "crashed";
  else if (BO.h[1] != -1) sym = "non-matching-handler-ran";
  else if (BO.finished) sym = "raised-exception-lost";
  else if (r.status == 0) sym = "uncaught/exit-status-zero";
  else if (!u) sym = "uncaught/no-diagnostic";
  else if (strcmp(tok, BKN[x]) != 0) sym = "uncaught/diagnostic-names-another-kind";
  if (vf.replay) printf("throw %s %s%s: exit status %d, handler bound %s, stderr: %.200s\n", BKN[x], y < 0 ? "with no try block" : "past a filter listing ", y < 0 ? "" : BKN[y], r.status, bk_name(BO.h[1]), buf);
  if (sym) {
    snprintf(label, sizeof label, "exc/builtin/throw=%s/%s%s/%s", BKN[x], y < 0 ? "no-try" : "filter=", y < 0 ? "" : BKN[y], sym);
    vf_violation(label, NULL, "forked child: throw(%s) %s%s: expected termination with failure status and 'Uncaught %s'; observed exit=%d status=%d signal=%d, handler bound %s, stderr: %.200s",
      BKN[x], y < 0 ? "with no try block open" : "inside try { } catch (e in ", y < 0 ? "" : BKN[y], BKN[x], r.exited, r.status, r.sig, bk_name(BO.h[1]), buf);
  }
}

/* the kinds of the header this build was made from: the list above must be the header's list */
static void bi_check_header(void) {
  const char* rd = getenv("VERIF_REPO_DIR");
  char path[512]; snprintf(path, sizeof path, "%s/include/Cello.h", rd ? rd : "/repo");
  FILE* f = fopen(path, "r");
  if (!f) { vf_note("cannot read %s: the list of built-in kinds was not compared with the header", path); return; }
  char line[512]; int inhdr = 0, missing = 0;
  while (fgets(line, sizeof line, f)) {
    char id[128];
    if (sscanf(line, "extern var %127[A-Za-z0-9_];", id) == 1) {
      size_t n = strlen(id);
      if (n > 5 && strcmp(id + n - 5, "Error") == 0) {
        inhdr++;
        int known = 0; for (int i = 0; i < NBK; i++) if (strcmp(BKN[i], id) == 0) known = 1;
        if (!known) { missing++; vf_note("Cello.h declares the exception kind %s which this harness does not cover", id); }
      }
    }
  }
  fclose(f);
  if (missing) vf.exhaustive = 0;
  vf_extra("builtin_kinds_in_header", "%d", inhdr);
}

static void builtin_all(void) {
  bi_check_header();
  for (int i = 0; i < NBK; i++) bi_name(i);
  for (int x = 0; x < NBK; x++) for (int y = 0; y < NBK; y++) bi_do_pair(x, y);
  uint64_t p0 = bi_programs;
  vf_watchdog(120);
  for (int k0 = 0; k0 < NBK; k0++) for (int k1 = 0; k1 < NBK; k1++) for (int k2 = 0; k2 < NBK; k2++) {
    if (k0 == k1 || k0 == k2 || k1 == k2) continue;
    for (int x = 0; x < NBK; x++) bi_do_route(x, k0, k1, k2);
  }
  vf_extra("builtin_routing_programs", "%" PRIu64, bi_programs - p0);
  p0 = bi_programs;
  if (vf_param_i("fork", 1)) {
    for (int x = 0; x < NBK; x++) { vf_watchdog(120); for (int y = -1; y < NBK; y++) if (y != x) bi_do_uncaught(x, y); }
  }
  vf_extra("builtin_uncaught_forks", "%" PRIu64, bi_programs - p0);
  vf_extra("builtin_kinds", "%d", (int)NBK);
  vf.max_depth = 4;
  vf_watchdog(0);
}

static int builtin_replay(const char* c) {
  int a, b, d, e;
  if (sscanf(c, "builtin:name:%d", &a) == 1 && a >= 0 && a < NBK) { bi_name(a); return 1; }
  if (sscanf(c, "builtin:pair:%d,%d", &a, &b) == 2 && a >= 0 && a < NBK && b >= 0 && b < NBK) { bi_do_pair(a, b); return 1; }
  if (sscanf(c, "builtin:route:%d,%d,%d,%d", &a, &b, &d, &e) == 4 && a >= 0 && a < NBK && b >= 0 && b < NBK && d >= 0 && d < NBK && e >= 0 && e < NBK) { bi_do_route(a, b, d, e); return 1; }
  if (sscanf(c, "builtin:uncaught:%d,%d", &a, &b) == 2 && a >= 0 && a < NBK && b >= -1 && b < NBK) { bi_do_uncaught(a, b); return 1; }
  return 0;
}

/* ---- replay --------------------------------------------------------------------------- */

static void show_both(void) {
  char* te = render_trace(EX, nex); char* ta = render_trace((const struct ev*)SH->tr, SH->ntr);
  printf("expected: %s\nobserved: %s\n", te, ta);
  free(te); free(ta);
}

static void do_replay(const char* c) {
  if (strncmp(c, "builtin:", 8) == 0) {
    if (!builtin_replay(c)) { fprintf(stderr, "replay: bad builtin case '%s'\n", c); exit(2); }
    printf(vf.nviols ? "replay: violation\n" : "replay: as expected\n");
    vf_finish();
  }
  if (strncmp(c, "deep:", 5) == 0) {
    DC.rs = 0;
    if (sscanf(c, "deep:D=%d,T1=%d,T2=%d,x=%d,tf=%d,rt=%d,rs=%d", &DC.D, &DC.T1, &DC.T2, &DC.x, &DC.tf, &DC.rt, &DC.rs) < 6 ||
        DC.D < 1 || DC.D > (int)EXCEPTION_MAX_DEPTH - (msg_mode ? 2 : objs_mode >= OBJ_CMPTRY ? 1 : 0) || DC.x < 1 || DC.x > 2) { fprintf(stderr, "replay: bad deep case '%s'\n", c); exit(2); }
    deep_run();
    printf(vf.nviols ? "replay: violation\n" : "replay: as expected\n");
    vf_finish();
  }
  char mode[16]; const char* colon = strchr(c, ':');
  if (!colon || colon - c >= (long)sizeof mode) { fprintf(stderr, "replay: bad case string '%s'\n", c); exit(2); }
  memcpy(mode, c, (size_t)(colon - c)); mode[colon - c] = 0;
  struct prog a, b;
  const char* s = get_prog(colon + 1, &a);
  if (!s) { fprintf(stderr, "replay: cannot parse program in '%s'\n", c); exit(2); }
  int two = 0;
  if (*s == '+') { s = get_prog(s + 1, &b); if (!s) { fprintf(stderr, "replay: cannot parse second program\n"); exit(2); } two = 1; }
  printf("mode %s (%s)\nprogram: %s\n", mode,
    strcmp(mode, "nosent") == 0 ? "no sentinel, forked child" : strcmp(mode, "chin") == 0 ? "sentinel try { first ; second } catch (e) { }" :
    strcmp(mode, "chout") == 0 ? "first and second program each in its own sentinel try/catch-all; the second is judged" :
    "inside an outermost sentinel try { ... } catch (e) { }", render_prog(&a));
  if (two) printf("then:    %s\n", render_prog(&b));
  vf_watchdog(60);
  if (strcmp(mode, "sent") == 0) { Q = a; visit_main(); show_both(); }
  else if (strcmp(mode, "chout") == 0 && two) { PRE = a; Q = b; chain_mode = 0; visit_chain(); show_both(); }
  else if (strcmp(mode, "chin") == 0 && two) { PRE = a; Q = b; chain_mode = 1; visit_chain(); show_both(); }
  else if (strcmp(mode, "fresh") == 0) { Q = a; visit_fresh(); show_both(); }
  else if (strcmp(mode, "nosent") == 0) { Q = a; visit_fork(); show_both(); }
  else { fprintf(stderr, "replay: unknown mode '%s'\n", mode); exit(2); }
  printf(vf.nviols ? "replay: traces differ\n" : "replay: traces agree\n");
  vf_finish();
}

/* ---- main ------------------------------------------------------------------------------ */

int main(int argc, char** argv) {
  vf_init(argc, argv);
  vf.phase = "exc";
  SH = mmap(NULL, sizeof(struct shm), PROT_READ | PROT_WRITE, MAP_SHARED | MAP_ANONYMOUS, -1, 0);
  if (SH == MAP_FAILED) { perror("mmap"); return 2; }
  vf_set_init(&outcomes, 1024);
  prog_init(&Q); prog_init(&PRE);
  {
    const char* om = vf_param("objs", "types");
    objs_mode = strcmp(om, "struct") == 0 ? OBJ_STRUCT : strcmp(om, "string") == 0 ? OBJ_STRING : strcmp(om, "int") == 0 ? OBJ_INT :
                strcmp(om, "mixed1") == 0 ? OBJ_MIXED1 : strcmp(om, "mixed2") == 0 ? OBJ_MIXED2 : strcmp(om, "mixed3") == 0 ? OBJ_MIXED3 : strcmp(om, "cmptry") == 0 ? OBJ_CMPTRY : strcmp(om, "cmpthrow") == 0 ? OBJ_CMPTHROW : OBJ_TYPES;
    if (objs_mode == OBJ_TYPES && strcmp(om, "types") != 0) { fprintf(stderr, "objs must be types|struct|string|int|mixed1|mixed2|mixed3|cmptry|cmpthrow\n"); return 2; }
    objs_setup();
    const char* am = vf_param("alloc", "mix1");
    alloc_mode = strcmp(am, "heap") == 0 ? 0 : strcmp(am, "static") == 0 ? 1 : strcmp(am, "stack") == 0 ? 2 : strcmp(am, "mix1") == 0 ? 3 : strcmp(am, "mix2") == 0 ? 4 : strcmp(am, "mix3") == 0 ? 5 : -1;
    if (alloc_mode < 0) { fprintf(stderr, "alloc must be mix1|mix2|mix3|heap|static|stack\n"); return 2; }
    alloc_setup();
    vf_extra("thrown_objects_allocation", "\"A: %s, B: %s, C: %s\"", ac_txt(1), ac_txt(2), ac_txt(3));
    const char* mm = vf_param("msg", "0");
    msg_mode = strcmp(mm, "mix") == 0 ? 5 : (int)strtol(mm, NULL, 10);
    if (msg_mode < 0 || msg_mode > 5) { fprintf(stderr, "msg must be 0..4 or mix\n"); return 2; }
    msg_setup();
    const char* pm = vf_param("pct", "mix");
    pct_mode = strcmp(pm, "mix") == 0 ? 4 : (int)strtol(pm, NULL, 10);
    if (pct_mode < 0 || pct_mode > 4) { fprintf(stderr, "pct must be 0..3 or mix\n"); return 2; }
    TAGS[0] = new_raw(String, $S("-")); TAGS[1] = new_raw(String, $S("A")); TAGS[2] = new_raw(String, $S("B")); TAGS[3] = new_raw(String, $S("C"));
    PCT_S = new_raw(String, $S("50% off"));
    PCT_V = new_raw(String, $S("rate %d of %s is 5%"));
    vf_extra("message_text", "\"%s\"", pm);
    vf_extra("message_argument_show", "\"%s\"", mm);
    vf_extra("exception_objects", "\"%s\"", om);
  }

  bk_setup();
  if (vf.replay) do_replay(vf.replay);

  if (vf_param_is("mode", "builtin", "enum")) { builtin_all(); vf_finish(); }
  if (vf_param_is("mode", "deep", "enum")) { deep_all(); vf_finish(); }

  const char* k = vf_param("kind", "chain");
  p_kind = strcmp(k, "seq") == 0 ? K_SEQ : strcmp(k, "seqt") == 0 ? K_SEQT : K_CHAIN;
  p_depth = (int)vf_param_i("depth", 1);
  if (p_depth < 1 || p_depth > 3) { fprintf(stderr, "depth must be 1..3\n"); return 2; }
  alpha = vf_param("alpha", "012");
  halpha = vf_param("halpha", alpha);
  for (const char* c = alpha; *c; c++) if (*c < '0' || *c > '8') { fprintf(stderr, "alpha: codes 0..8\n"); return 2; }
  for (const char* c = halpha; *c; c++) if (*c < '0' || *c > '9') { fprintf(stderr, "halpha: codes 0..9\n"); return 2; }
  ppalpha = vf_param("ppalpha", "0");
  falpha = vf_param("falpha", "0123");
  shapes_all = vf_param_is("shapes", "all", "all");
  dyns_all = vf_param_is("dyns", "all", "all");
  shard_k = 0; shard_n = 1;
  sscanf(vf_param("shard", "0/1"), "%d/%d", &shard_k, &shard_n);
  if (shard_n < 1 || shard_k < 0 || shard_k >= shard_n) { fprintf(stderr, "bad shard\n"); return 2; }
  int do_chain = (int)vf_param_i("chain", 0), do_fork = (int)vf_param_i("fork", 0), do_fresh = (int)vf_param_i("fresh", 0);
  int do_main = (int)vf_param_i("main", 1);

  /* the very first program of the process runs on the initial record (no object, not active) */
  if (do_main) enum_all(visit_main);
  vf_extra("programs_in_space", "%" PRIu64, enum_total);

  if (do_chain && !vf.aborted) {
    uint64_t pairs0 = vf.transitions;
    for (chain_mode = 0; chain_mode < 2; chain_mode++) {
      struct rep* tab = chain_mode == 0 ? rep_out : rep_in;
      int n = chain_mode == 0 ? nrep_out : nrep_in;
      for (int i = 0; i < n; i++) {
        PRE = tab[i].p;
        enum_all(visit_chain);
      }
    }
    vf_extra("chained_pairs", "%" PRIu64, vf.transitions - pairs0);
  }
  if (do_fresh && !vf.aborted) { uint64_t t0 = vf.transitions; enum_all(visit_fresh); vf_extra("fresh_thread_runs", "%" PRIu64, vf.transitions - t0); }
  if (do_fork && !vf.aborted) {
    uint64_t t0 = vf.transitions;
    enum_all(visit_fork);
    vf_extra("forked_runs_without_sentinel", "%" PRIu64, vf.transitions - t0);
    vf_extra("forked_runs_expected_uncaught", "%" PRIu64, fork_escaping);
    vf_extra("uncaught_diagnostic_names_the_object", "%" PRIu64, fork_named);
  }
  vf_watchdog(0);
  if (record_repairs) vf_note("the exception record was left with a non-zero depth %" PRIu64 " times and was reset to keep exploring", record_repairs);

  char rs[1024]; size_t o = 0; rs[0] = 0;
  for (int i = 0; i < nrep_out; i++) o += (size_t)snprintf(rs + o, sizeof rs - o, "%s(depth=%d,active=%d,obj=%s)x%" PRIu64, i ? " " : "", rep_out[i].depth, rep_out[i].active, objname(rep_out[i].obj), rep_out[i].seen);
  vf_extra("residual_states_after_sentinel", "\"%s\"", rs);
  o = 0; rs[0] = 0;
  for (int i = 0; i < nrep_in; i++) o += (size_t)snprintf(rs + o, sizeof rs - o, "%s(depth=%d,active=%d,obj=%s)x%" PRIu64, i ? " " : "", rep_in[i].depth, rep_in[i].active, objname(rep_in[i].obj), rep_in[i].seen);
  vf_extra("residual_states_inside_sentinel", "\"%s\"", rs);
  vf_finish();
  return 0;
}
