/*
** h_hash.c - C10 on the value types: equal values hash equally, hash is a function of the
** value alone (not of address / allocation class / construction), copy and assign yield a
** value that is eq to the source and hashes the same, swap exchanges the two values.
**
** Exhaustive grids (shared with h_cmp.c through vf_cmp.h), nothing sampled.
**
** part=hashdata  hash_data(p, len) for every len 0..64 (large: 0..160) x start alignment
**                0..7 x 3 byte patterns, each in an exactly sized heap block (ASan sees any
**                over-read), against an independent MurmurHash64A (seed 0xCe110) written
**                from the published algorithm; also equal across alignments.
** part=values    for every grid value of Int, Float, String, Raw8 (8-byte struct without
**                Hash/Cmp), Ref, Box: a stack witness and the same value in the allocation
**                classes heap-gc (new), heap-raw (new_raw), heap-root (new_root), Array
**                element (index 0 and 2), List element, Table key, Table value, Tree key,
**                Tree value: each must be eq to the witness (both directions), carry the
**                value (C reference) and hash like the witness.  Type: every exported type
**                object against a heap-allocated Type object with the same name.
** part=pairs     all ordered pairs of each grid: if the values are equal by the C reference
**                or the library says eq(a,b), then hash(a) == hash(b)  (signed zeros!).
** part=ops       copy(x) of a stack and of a heap x; assign(y,x) into a zeroed fresh object,
**                a default-constructed one, and (ALL ordered pairs) one holding another
**                value; swap(a,b) for ALL ordered pairs (heap x heap, and stack x stack
**                where the type permits, two elements embedded in an Array between guard
**                elements g0 a g1 b g2 whose slots must keep every byte, an Array element against a
**                stack object; heap/stack objects carry canary zones behind them), swap(a,a); sort() of an Array holding the whole grid
**                (it exchanges elements with swap) in 4 initial orders.
**                Domains raw, raw1, raw3, raw4, raw7, raw9, raw12, raw16, raw20, raw21 are plain
**                structs of that many bytes without Cmp/Hash/Assign/Swap instances: the default
**                memcmp / hash_data / memcpy / memswap paths with every tail length.  raw63, raw64,
**                raw65, raw72, raw100, raw127, raw128, raw129, raw200, raw300: structs bigger than the
**                64/128-byte blocks of a block-wise copy (rawbig selects them).
**
** part=containers Array, List, heap and stack Tuple, and an Array and a List built through another history,
**                holding the same 0..3 elements (every sequence over 3 values of the domain): eq in both
**                directions => same hash, across kinds and histories; copy(container); List := Array and
**                Array := List (non-empty targets) are eq to the source and hash like it.  Tuples referencing
**                one object at several positions (heap, stack) as LEFT operand of eq against all of them.
**                Table and Tree keyed by the domain (values Int) and holding the domain (keys Int): see map_case.
** part=recycled  (dom recycled) run-time record types without instances created, used, deleted and re-created
**                with another size - normally at the same address; the first operation on the new type is
**                hash / assign / swap / copy in turn (see vf_cmp.h).
**
** Parameters: part=all|comma list   dom=all|comma list of int,float,string,type,raw,raw1..raw21,ref,box
**             (rawall = every raw* domain)
**             grid=small|large
** Case keys (replayable): "hashdata <pat> <len> <align>", "values <dom> <i> <class>",
**   "pairs <dom> <i> <j>", "copy <dom> <i> <src>", "assign <dom> <i> <j>" (j = -1 zeroed
**   fresh, -2 default-constructed fresh), "swap <dom> <i> <j> <heap|stack|array|array-stack>", "sort <dom> <order>", "containers <dom> <codes|->", "maps <dom> <table|tree> <keys|vals> <subset>",
**   "recycled <hash|assign|swap|copy> <generation>" (replays the sub-family up to that generation).
*/

#include "vf_cmp.h"

/* ---- independent MurmurHash64A (Austin Appleby's published 64-bit variant "A") --------- */

static uint64_t ref_murmur64a(const void* key, size_t len, uint64_t seed) {
  const uint64_t m = 0xc6a4a7935bd1e995ULL;
  const int r = 47;
  const unsigned char* p = key;
  uint64_t h = seed ^ ((uint64_t)len * m);
  size_t nblocks = len / 8;
  for (size_t bi = 0; bi < nblocks; bi++) {
    uint64_t k;
    memcpy(&k, p + 8 * bi, 8);          /* little-endian host, as the original reads words */
    k *= m; k ^= k >> r; k *= m;
    h ^= k; h *= m;
  }
  const unsigned char* tail = p + 8 * nblocks;
  size_t rem = len & 7;
  if (rem) {
    for (size_t t = rem; t-- > 0; ) h ^= (uint64_t)tail[t] << (8 * t);
    h *= m;
  }
  h ^= h >> r; h *= m; h ^= h >> r;
  return h;
}

#define CELLO_SEED 0xCe110ULL

/* ---- case bookkeeping -------------------------------------------------------------------- */

static char ckey[160];

/* set the current case; returns 0 if a replay is running and this is not the case asked for */
static int begin_case(const char* desc, const char* fmt, ...) {
  va_list ap; va_start(ap, fmt);
  vsnprintf(ckey, sizeof ckey, fmt, ap);
  va_end(ap);
  if (vf.replay && strcmp(vf.replay, ckey) != 0) return 0;
  if (desc && desc[0]) vf_set_cur("%s | %s", ckey, desc); else vf_set_cur("%s", ckey);
  vf.executions++;
  return 1;
}

static char lbl[200];
static const char* L(const char* dom, const char* cls, const char* symptom) {
  snprintf(lbl, sizeof lbl, "hash/%s/%s/%s", dom, cls, symptom);
  return lbl;
}

static int part_on(const char* list, const char* name) {
  if (!strcmp(list, "all")) return 1;
  size_t l = strlen(name);
  for (const char* p = list; p && *p; ) {
    if (!strncmp(p, name, l) && (p[l] == ',' || p[l] == 0)) return 1;
    if (!strncmp(p, "rawall", 6) && (p[6] == ',' || p[6] == 0) && !strncmp(name, "raw", 3)) return 1;
    p = strchr(p, ','); if (p) p++;
  }
  return 0;
}

/* ---- part hashdata ------------------------------------------------------------------------ */

static unsigned char pattern_byte(int pat, size_t k) {
  switch (pat) {
    case 0: return (unsigned char)((k * 131u + 7u) ^ (k >> 3));   /* mixed, many bytes >= 0x80 */
    case 1: return 0xFF;
    default: return (unsigned char)(k & 1 ? 0x00 : 0x80);
  }
}

static void part_hashdata(void) {
  vf.phase = "hash_data";
  size_t maxlen = vfg_large ? 160 : 64;
  uint64_t distinct_prev = 0; int seen_any = 0;
  for (int pat = 0; pat < 3; pat++) {
    for (size_t len = 0; len <= maxlen; len++) {
      for (int al = 0; al < 8; al++) {
        if (!begin_case(NULL, "hashdata %d %zu %d", pat, len, al)) continue;
        /* the same bytes once in an exactly sized block of their own (8-aligned start) ... */
        unsigned char* blk0 = malloc(len ? len : 1);
        for (size_t k = 0; k < len; k++) blk0[k] = pattern_byte(pat, k);
        uint64_t at0 = hash_data(blk0, len);
        /* ... and once starting `al` bytes into an exactly sized block */
        size_t sz = (size_t)al + len;
        unsigned char* blk = malloc(sz ? sz : 1);
        unsigned char* p = blk + al;
        for (size_t k = 0; k < len; k++) p[k] = pattern_byte(pat, k);
        uint64_t got = hash_data(p, len);
        uint64_t want = ref_murmur64a(p, len, CELLO_SEED);
        const char* f1 = len % 8 ? "tail" : "whole-blocks";
        const char* f2 = al ? "misaligned" : "aligned";
        char cls[48]; snprintf(cls, sizeof cls, "%s-%s", f1, f2);
        vf.evaluations++;
        if (got != want)
          vf_violation(L("hash_data", cls, "differs-from-murmurhash64a"), NULL, "hash_data = %016" PRIx64 ", MurmurHash64A(seed 0xCe110) = %016" PRIx64, got, want);
        vf.evaluations++;
        if (got != at0)
          vf_violation(L("hash_data", cls, "depends-on-alignment"), NULL, "hash_data = %016" PRIx64 " at alignment %d but %016" PRIx64 " at alignment 0 for the same bytes", got, al, at0);
        if (len % 8 || al) vf.nontrivial++;
        if (al == 0 && (!seen_any || got != distinct_prev)) vf.outcomes++;
        distinct_prev = got; seen_any = 1;
        if (vf_want_sample()) vf_sample("%s -> %016" PRIx64, ckey, got);
        free(blk); free(blk0);
      }
    }
  }
}

/* ---- value domains ------------------------------------------------------------------------- */

#define NTARGETS 5
static var targets[NTARGETS];           /* Ref / Box targets: NULL, three heap Ints, a static type object */

struct hdom {
  const char* name;
  var type;
  int n;
  int embed;                            /* may be stored in containers / created with new() */
  int is_ptr;                           /* Ref or Box */
  int can_stack_swap;
  int raw;                              /* one of the plain raw-byte struct types (RW selected) */
  int no_tree_key;                      /* key size would misalign the value header inside a Tree node */
  int can_sort;                         /* Array sort has a C reference order */
};
static struct hdom H;

static void h_desc(int i, char* buf, size_t cap) {
  if (H.type == Int) int_desc(i, buf, cap);
  else if (H.type == Float) flt_desc(i, buf, cap);
  else if (H.type == String) str_desc(i, buf, cap);
  else if (H.raw) raw_desc(i, buf, cap);
  else snprintf(buf, cap, "target#%d", i);
}

/* the payload bytes of grid value i (what $(T, ...) would copy into a stack object): 8, or the struct size */
static void h_payload(int i, void* out) {
  if (H.type == Int) memcpy(out, &iv[i], 8);
  else if (H.type == Float) memcpy(out, &fv[i], 8);
  else if (H.type == String) { char* s = sv[i]; memcpy(out, &s, sizeof s); }
  else if (H.raw) memcpy(out, RW->v[i], RW->size);
  else { var t = targets[i]; memcpy(out, &t, sizeof t); }
}

/* C reference: does object x hold grid value i ? */
static int h_same(var x, int i) {
  if (H.type == Int) return c_int(x) == iv[i];
  if (H.type == Float) return c_float(x) == fv[i];
  if (H.type == String) return strcmp(c_str(x), sv[i]) == 0;
  if (H.raw) return memcmp(x, RW->v[i], RW->size) == 0;
  return deref(x) == targets[i];
}

static int h_refeq(int i, int j) {
  if (H.type == Int) return iv[i] == iv[j];
  if (H.type == Float) return fv[i] == fv[j];
  if (H.type == String) return strcmp(sv[i], sv[j]) == 0;
  if (H.raw) return memcmp(RW->v[i], RW->v[j], RW->size) == 0;
  return targets[i] == targets[j];
}

/* C reference order (only for the domains that can be sorted) */
static int h_refcmp(int i, int j) {
  if (H.type == Int) return int_ref(i, j);
  if (H.type == Float) return flt_ref(i, j);
  if (H.type == String) return str_ref(i, j);
  return raw_ref(i, j);
}

static const char* h_feat(int i, int j) {
  if (H.type == Float && fv[i] == 0.0 && fv[j] == 0.0 && signbit(fv[i]) != signbit(fv[j])) return "signed-zeros";
  return h_refeq(i, j) ? "equal-values" : "unequal-values";
}

/* a stack-class object in caller storage: exactly what $(T, payload) builds */
#define CANARY 72                       /* bytes behind an object that a swap / assign must leave alone */
#define STACKBUF(name) char name[sizeof(struct Header) + RAWMAX + 8 + CANARY] __attribute__((aligned(16))) = {0}
static size_t h_size(void) { return H.raw ? RW->size : 8; }
static var mk_stack(char* buf, int i) {
  memset(buf, 0, sizeof(struct Header) + RAWMAX + 8 + CANARY);
  var x = header_init(buf, H.type, AllocStack);
  h_payload(i, x);
  return x;
}
/* fill / verify the zone right behind object x (which lives in a STACKBUF or a mk_heap block) */
static void canary_set(var x, unsigned char c) { memset((char*)x + h_size(), c, CANARY); }
static int canary_ok(var x, unsigned char c) {
  const unsigned char* p = (const unsigned char*)x + h_size();
  for (int k = 0; k < CANARY; k++) if (p[k] != c) return 0;
  return 1;
}
/* a heap-class object of a raw struct type in a block that has a canary zone behind the object, so that
** an overrun is seen without a sanitizer too (header_init(..., AllocHeap) is what alloc_raw does) */
static var mk_heap(int i) {
  if (!H.raw) { STACKBUF(wb); return new_raw_with(H.type, tuple(mk_stack(wb, i))); }
  char* blk = calloc(1, sizeof(struct Header) + RW->size + CANARY);
  var x = header_init(blk, H.type, AllocHeap);
  h_payload(i, x);
  return x;
}
/* snapshot of a whole Array slot (header and payload) of element x */
static void slot_snapshot(var x, unsigned char* out) { memcpy(out, (char*)x - sizeof(struct Header), sizeof(struct Header) + h_size()); }
static void slot_restore(var x, const unsigned char* snap) { memcpy((char*)x - sizeof(struct Header), snap, sizeof(struct Header) + h_size()); }
static int slot_unchanged(var x, const unsigned char* snap) { return memcmp((char*)x - sizeof(struct Header), snap, sizeof(struct Header) + h_size()) == 0; }
#define SLOTMAX (sizeof(struct Header) + RAWMAX + 8)

/* release helpers: a Box would delete its target */
static void unbox(var x) { if (H.type == Box) ref(x, NULL); }
static void drop_raw(var x) { unbox(x); del_raw(x); }
static void drop_gc(var x) { unbox(x); del(x); }
static void drop_root(var x) { unbox(x); del_root(x); }

static int filler_of(int i) {
  for (int d = 1; d < H.n; d++) { int f = (i + d) % H.n; if (!h_refeq(i, f)) return f; }
  return i;
}

/* oracle: object x (allocation class cls) must be the value i, eq to witness w, hash like it */
static int judge(var x, var w, uint64_t hw, int i, const char* cls) {
  int bad = 0;
  vf.evaluations++;
  if (type_of(x) != H.type) { vf_violation(L(H.name, cls, "wrong-type"), NULL, "object is not of type %s", H.name); return 1; }
  vf.evaluations++;
  if (!h_same(x, i)) { vf_violation(L(H.name, cls, "value-differs"), NULL, "the object does not hold the value it was built from"); bad = 1; }
  volatile bool e1 = false, e2 = false;
  var ex = VF_CATCH(e1 = eq(x, w); e2 = eq(w, x));
  vf.evaluations++;
  if (ex) { vf_violation(L(H.name, cls, "eq-raises"), NULL, "eq raised %s", vf_exc_name(ex)); return 1; }
  if (!e1 || !e2) { vf_violation(L(H.name, cls, "not-eq"), NULL, "eq(x, witness) = %d, eq(witness, x) = %d for the same value", (int)e1, (int)e2); bad = 1; }
  uint64_t hx = hash(x);
  vf.evaluations++;
  if (hx != hw) { vf_violation(L(H.name, cls, "hash-differs"), NULL, "hash = %016" PRIx64 ", hash of the stack witness with the same value = %016" PRIx64, hx, hw); bad = 1; }
  vf.nontrivial++;
  return bad;
}

static const char* vclasses[] = { "heap-gc", "heap-raw", "heap-root", "array-elem0", "array-elem2", "list-elem",
                                  "table-key", "table-val", "tree-key", "tree-val" };
#define NVCLASS 10

static var find_key(var cont, int i) {
  var it = iter_init(cont); int guard = 0;
  while (it != Terminal && guard++ < 8) { if (h_same(it, i)) return it; it = iter_next(cont, it); }
  return NULL;
}

static void value_case(int i, int c) {
  char ds[64]; h_desc(i, ds, sizeof ds);
  const char* cls = vclasses[c];
  if (!begin_case(ds, "values %s %d %s", H.name, i, cls)) return;
  if (c != 1 && !H.embed) { vf.executions--; return; }
  if (c == 8 && H.no_tree_key) { vf.executions--; return; }
  STACKBUF(wb); STACKBUF(fb);
  var w = mk_stack(wb, i);
  var f = mk_stack(fb, filler_of(i));
  uint64_t hw = hash(w);
  var x = NULL, cont = NULL;
  volatile var xv = NULL, cv = NULL;
  var ex = NULL;
  switch (c) {
    case 0: ex = VF_CATCH(xv = new_with(H.type, tuple(w))); break;
    case 1: ex = VF_CATCH(xv = new_raw_with(H.type, tuple(w))); break;
    case 2: ex = VF_CATCH(xv = new_root_with(H.type, tuple(w))); break;
    case 3: ex = VF_CATCH(cv = new_raw(Array, H.type); push(cv, w); push(cv, f); xv = get(cv, $I(0))); break;
    case 4: ex = VF_CATCH(cv = new_raw(Array, H.type); push(cv, f); push(cv, f); push(cv, w); xv = get(cv, $I(2))); break;
    case 5: ex = VF_CATCH(cv = new_raw(List, H.type); push(cv, f); push(cv, w); xv = get(cv, $I(1))); break;
    case 6: ex = VF_CATCH(cv = new_raw(Table, H.type, Int); set(cv, f, $I(0)); set(cv, w, $I(1)); xv = find_key(cv, i)); break;
    case 7: ex = VF_CATCH(cv = new_raw(Table, Int, H.type); set(cv, $I(3), f); set(cv, $I(4), w); xv = get(cv, $I(4))); break;
    case 8: ex = VF_CATCH(cv = new_raw(Tree, H.type, Int); set(cv, f, $I(0)); set(cv, w, $I(1)); xv = find_key(cv, i)); break;
    case 9: ex = VF_CATCH(cv = new_raw(Tree, Int, H.type); set(cv, $I(3), f); set(cv, $I(4), w); xv = get(cv, $I(4))); break;
  }
  x = xv; cont = cv;
  vf.evaluations++;
  if (ex) vf_violation(L(H.name, cls, "raises"), NULL, "building the value raised %s", vf_exc_name(ex));
  else if (!x) vf_violation(L(H.name, cls, "key-not-found"), NULL, "the container does not iterate a key holding the value that was set");
  else {
    judge(x, w, hw, i, cls);
    /* a key / value reached through the container API must behave the same */
    if (c == 6 || c == 8) {
      vf.evaluations++;
      volatile bool m = false; var e2 = VF_CATCH(m = mem(cont, w));
      if (e2 || !m) vf_violation(L(H.name, cls, "mem-misses-key"), NULL, "mem(container, witness) is false / raised for a key that was set");
    }
    if (vf_want_sample()) vf_sample("%s | %s -> hash %016" PRIx64, ckey, ds, hw);
  }
  if (cont) del_raw(cont);
  else if (x) { if (c == 0) drop_gc(x); else if (c == 1) drop_raw(x); else drop_root(x); }
}

static void part_values(void) {
  for (int i = 0; i < H.n; i++) for (int c = 0; c < NVCLASS; c++) value_case(i, c);
}

/* ---- part pairs: equal (by construction or by eq) => same hash ------------------------------- */

static void part_pairs(void) {
  int n = H.n;
  var* A = malloc(sizeof(var) * n); var* B = malloc(sizeof(var) * n);
  uint64_t* seen = malloc(sizeof(uint64_t) * n); int nseen = 0;
  for (int i = 0; i < n; i++) {
    STACKBUF(wb); var w = mk_stack(wb, i);
    A[i] = new_raw_with(H.type, tuple(w)); B[i] = new_raw_with(H.type, tuple(w));
  }
  for (int i = 0; i < n; i++) for (int j = 0; j < n; j++) {
    if (!begin_case(NULL, "pairs %s %d %d", H.name, i, j)) continue;
    char da[64], db[64]; h_desc(i, da, sizeof da); h_desc(j, db, sizeof db);
    vf_set_cur("%s | a=%s b=%s", ckey, da, db);
    int req = h_refeq(i, j);
    volatile bool leq = false;
    var ex = VF_CATCH(leq = eq(A[i], B[j]));
    vf.evaluations++;
    if (ex) { vf_violation(L(H.name, h_feat(i, j), "eq-raises"), NULL, "eq raised %s", vf_exc_name(ex)); continue; }
    uint64_t ha = hash(A[i]), hb = hash(B[j]);
    if (req || leq) {
      vf.evaluations++;
      if (ha != hb)
        vf_violation(L(H.name, h_feat(i, j), leq ? "eq-but-hash-differs" : "equal-values-hash-differs"), NULL,
          "eq(a,b) = %d, values equal by the C reference = %d, but hash(a) = %016" PRIx64 " and hash(b) = %016" PRIx64, (int)leq, req, ha, hb);
      if (i != j) vf.nontrivial++;      /* two different grid entries that are equal values (signed zeros) */
    }
    if (i == j) {
      int k; for (k = 0; k < nseen; k++) if (seen[k] == ha) break;
      if (k == nseen) { seen[nseen++] = ha; vf.outcomes++; }
    }
  }
  for (int i = 0; i < n; i++) { drop_raw(A[i]); drop_raw(B[i]); }
  free(A); free(B); free(seen);
}

/* ---- part ops: copy / assign / swap ----------------------------------------------------------- */

static void copy_case(int i, int src) {
  char ds[64]; h_desc(i, ds, sizeof ds);
  const char* cls = src ? "copy-of-heap" : "copy-of-stack";
  if (!begin_case(ds, "copy %s %d %s", H.name, i, src ? "heap" : "stack")) return;
  STACKBUF(wb); var w = mk_stack(wb, i);
  uint64_t hw = hash(w);
  var x = src ? new_raw_with(H.type, tuple(w)) : w;
  volatile var yv = NULL;
  var ex = VF_CATCH(yv = copy(x));
  var y = yv;
  vf.evaluations++;
  if (ex) vf_violation(L(H.name, cls, "raises"), NULL, "copy raised %s", vf_exc_name(ex));
  else {
    judge(y, w, hw, i, cls);
    vf.evaluations++;
    if (!h_same(x, i) || hash(x) != hw) vf_violation(L(H.name, cls, "source-changed"), NULL, "copy changed its source");
    drop_gc(y);
  }
  if (src) drop_raw(x);
}

static void assign_case(int i, int j) {
  char ds[96], da[40], db[40]; h_desc(i, da, sizeof da);
  const char* cls = j == -1 ? "assign-into-zeroed" : j == -2 ? "assign-into-default" : "assign-over-value";
  if (j >= 0) { h_desc(j, db, sizeof db); snprintf(ds, sizeof ds, "x=%s y held %s", da, db); } else snprintf(ds, sizeof ds, "x=%s", da);
  if (!begin_case(ds, "assign %s %d %d", H.name, i, j)) return;
  if (j == -2 && H.type == Box) { vf.executions--; return; }       /* Box has no argument-less constructor */
  STACKBUF(wb); STACKBUF(ob);
  var w = mk_stack(wb, i);
  uint64_t hw = hash(w);
  var y;
  if (H.raw && j != -2) {               /* target in a block with a canary zone behind it (zeroed payload for j == -1) */
    y = mk_heap(j >= 0 ? j : 0);
    if (j < 0) memset(y, 0, h_size());
    canary_set(y, 0xC3);
  } else y = j == -1 ? alloc_raw(H.type) : j == -2 ? new_raw_with(H.type, tuple()) : new_raw_with(H.type, tuple(mk_stack(ob, j)));
  /* source alternates between the stack witness and a heap object */
  var x = (i + (j < 0 ? 0 : j)) & 1 ? new_raw_with(H.type, tuple(w)) : w;
  volatile var rv_ = NULL;
  var ex = VF_CATCH(rv_ = assign(y, x));
  var r = rv_;
  vf.evaluations++;
  if (ex) vf_violation(L(H.name, cls, "raises"), NULL, "assign raised %s", vf_exc_name(ex));
  else {
    judge(y, w, hw, i, cls);
    if (r != y) {
      vf.evaluations++;
      if (r == NULL) vf_violation(L(H.name, cls, "returns-null"), NULL, "assign returned NULL");
      else judge(r, w, hw, i, cls);
    }
    vf.evaluations++;
    if (!h_same(x, i) || hash(x) != hw) vf_violation(L(H.name, cls, "source-changed"), NULL, "assign changed its source");
    if (H.raw && j != -2) {
      vf.evaluations++;
      if (!canary_ok(y, 0xC3)) vf_violation(L(H.name, cls, "writes-beyond-object"), NULL, "assign changed bytes behind the %zu-byte target", h_size());
    }
    if (j >= 0 && !h_refeq(i, j)) vf.nontrivial++;
  }
  if (x != w) drop_raw(x);
  drop_raw(y);
}

static void swap_case(int i, int j, int stackmode) {
  char ds[96], da[40], db[40]; h_desc(i, da, sizeof da); h_desc(j, db, sizeof db);
  snprintf(ds, sizeof ds, "a=%s b=%s", da, db);
  const char* cls = stackmode ? "swap-stack" : "swap-heap";
  if (!begin_case(ds, "swap %s %d %d %s", H.name, i, j, stackmode ? "stack" : "heap")) return;
  STACKBUF(wa); STACKBUF(wb); STACKBUF(sa); STACKBUF(sb);
  var vi = mk_stack(wa, i), vj = mk_stack(wb, j);
  uint64_t hi = hash(vi), hj = hash(vj);
  var a = stackmode ? mk_stack(sa, i) : mk_heap(i);
  var b = stackmode ? mk_stack(sb, j) : mk_heap(j);
  int guarded = stackmode || H.raw;     /* the bytes behind a and b are ours and carry two different canaries */
  if (guarded) { canary_set(a, 0xA5); canary_set(b, 0x5A); }
  var ex = VF_CATCH(swap(a, b));
  vf.evaluations++;
  if (ex) vf_violation(L(H.name, cls, "raises"), NULL, "swap raised %s", vf_exc_name(ex));
  else {
    vf.evaluations += 2;
    if (!h_same(a, j) || !h_same(b, i)) vf_violation(L(H.name, cls, "values-not-exchanged"), NULL, "after swap(a,b) a does not hold b's old value or b does not hold a's");
    else {
      judge(a, vj, hj, j, cls);
      judge(b, vi, hi, i, cls);
      /* swapping an object with itself leaves it alone */
      var ex2 = VF_CATCH(swap(a, a));
      vf.evaluations++;
      if (ex2 || !h_same(a, j) || hash(a) != hj) vf_violation(L(H.name, cls, "self-swap"), NULL, "swap(a,a) changed a or raised");
    }
    if (guarded) {
      vf.evaluations++;
      if (!canary_ok(a, 0xA5) || !canary_ok(b, 0x5A)) vf_violation(L(H.name, cls, "writes-beyond-object"), NULL, "swap(a,b) changed bytes behind the %zu-byte objects", h_size());
    }
    if (!h_refeq(i, j)) vf.nontrivial++;
  }
  if (!stackmode) { drop_raw(a); drop_raw(b); }
}

/* two elements embedded in an Array are swapped in place; guard elements on both sides of each
** (layout g0 a g1 b g2, g1 and g2 holding different values) must keep every byte, header included */
static void swap_array_case(int i, int j) {
  char ds[96], da[40], db[40]; h_desc(i, da, sizeof da); h_desc(j, db, sizeof db);
  snprintf(ds, sizeof ds, "a=%s b=%s", da, db);
  const char* cls = "swap-array-elems";
  if (!begin_case(ds, "swap %s %d %d array", H.name, i, j)) return;
  STACKBUF(wa); STACKBUF(wb); STACKBUF(wf);
  var vi = mk_stack(wa, i), vj = mk_stack(wb, j);
  int f1 = filler_of(i), f2 = filler_of(f1);
  uint64_t hi = hash(vi), hj = hash(vj);
  var arr = new_raw(Array, H.type);
  push(arr, mk_stack(wf, f2)); push(arr, vi); push(arr, mk_stack(wf, f1)); push(arr, vj); push(arr, mk_stack(wf, f2));
  static unsigned char snap[3][SLOTMAX];
  static const int gidx[3] = { 0, 2, 4 };
  int raw_slots = H.type != String;    /* a String slot holds a pointer the harness does not own; compared by value below */
  for (int g = 0; g < 3; g++) slot_snapshot(get(arr, $I(gidx[g])), snap[g]);
  var ex = VF_CATCH(swap(get(arr, $I(1)), get(arr, $I(3))));
  vf.evaluations++;
  if (ex) vf_violation(L(H.name, cls, "raises"), NULL, "swap raised %s", vf_exc_name(ex));
  else {
    var a = get(arr, $I(1)), b = get(arr, $I(3));
    vf.evaluations += 3;
    if (!h_same(a, j) || !h_same(b, i)) vf_violation(L(H.name, cls, "values-not-exchanged"), NULL, "after swap(arr[1],arr[3]) the two elements do not hold each other's old value");
    else { judge(a, vj, hj, j, cls); judge(b, vi, hi, i, cls); }
    int gbad = len(arr) != 5;
    for (int g = 0; g < 3 && !gbad; g++) {
      var ge = get(arr, $I(gidx[g]));
      if (raw_slots ? !slot_unchanged(ge, snap[g]) : !h_same(ge, g == 1 ? f1 : f2)) gbad = 1 + g;
    }
    if (gbad) vf_violation(L(H.name, cls, "guard-element-changed"), NULL, "swap(arr[1],arr[3]) changed a neighbouring element (guard %d of g0 a g1 b g2) or the length", gbad - 1);
    if (!h_refeq(i, j)) vf.nontrivial++;
  }
  /* put the guard slots back so that releasing the array cannot trip over a torn header */
  if (raw_slots && len(arr) == 5) for (int g = 0; g < 3; g++) slot_restore(get(arr, $I(gidx[g])), snap[g]);
  { var e3 = VF_CATCH(del_raw(arr)); (void)e3; }
}

/* an Array element is swapped with a stack object: whatever is written behind either of them shows, because
** the bytes behind the element (the next slot's header) and the canary behind the stack object differ */
static void swap_array_stack_case(int i, int j) {
  char ds[96], da[40], db[40]; h_desc(i, da, sizeof da); h_desc(j, db, sizeof db);
  snprintf(ds, sizeof ds, "a=%s b=%s", da, db);
  const char* cls = "swap-array-vs-stack";
  if (!begin_case(ds, "swap %s %d %d array-stack", H.name, i, j)) return;
  STACKBUF(wa); STACKBUF(wb); STACKBUF(wf); STACKBUF(sb);
  var vi = mk_stack(wa, i), vj = mk_stack(wb, j);
  int f1 = filler_of(i), f2 = filler_of(f1);
  uint64_t hi = hash(vi), hj = hash(vj);
  var arr = new_raw(Array, H.type);
  push(arr, mk_stack(wf, f2)); push(arr, vi); push(arr, mk_stack(wf, f1));
  var b = mk_stack(sb, j);
  canary_set(b, 0x5A);
  static unsigned char snap[2][SLOTMAX];
  slot_snapshot(get(arr, $I(0)), snap[0]); slot_snapshot(get(arr, $I(2)), snap[1]);
  var ex = VF_CATCH(swap(get(arr, $I(1)), b));
  vf.evaluations++;
  if (ex) vf_violation(L(H.name, cls, "raises"), NULL, "swap raised %s", vf_exc_name(ex));
  else {
    var a = get(arr, $I(1));
    vf.evaluations += 3;
    if (!h_same(a, j) || !h_same(b, i)) vf_violation(L(H.name, cls, "values-not-exchanged"), NULL, "after swap(arr[1], s) the two objects do not hold each other's old value");
    else { judge(a, vj, hj, j, cls); judge(b, vi, hi, i, cls); }
    if (len(arr) != 3 || !slot_unchanged(get(arr, $I(0)), snap[0]) || !slot_unchanged(get(arr, $I(2)), snap[1]))
      vf_violation(L(H.name, cls, "guard-element-changed"), NULL, "swap(arr[1], s) changed a neighbouring Array slot (header or payload)");
    if (!canary_ok(b, 0x5A)) vf_violation(L(H.name, cls, "writes-beyond-object"), NULL, "swap(arr[1], s) changed bytes behind the %zu-byte stack object", h_size());
    if (!h_refeq(i, j)) vf.nontrivial++;
  }
  if (len(arr) == 3) { slot_restore(get(arr, $I(0)), snap[0]); slot_restore(get(arr, $I(2)), snap[1]); }
  { var e3 = VF_CATCH(del_raw(arr)); (void)e3; }
}

/* sort(Array of the whole grid) exchanges elements with swap(): the result must be the grid in reference order */
static void sort_case(int order) {
  int n = H.n;
  if (!begin_case(NULL, "sort %s %d", H.name, order)) return;
  const char* cls = "array-sort";
  int* sorted = malloc(sizeof(int) * n);
  for (int i = 0; i < n; i++) sorted[i] = i;
  for (int i = 1; i < n; i++) { int v = sorted[i], j = i; while (j > 0 && h_refcmp(sorted[j-1], v) > 0) { sorted[j] = sorted[j-1]; j--; } sorted[j] = v; }
  var arr = new_raw(Array, H.type);
  for (int q = 0; q < n; q++) {
    /* 0 grid order, 1 reversed grid order, 2 already sorted, 3 sorted descending */
    int i = order == 0 ? q : order == 1 ? n - 1 - q : order == 2 ? sorted[q] : sorted[n - 1 - q];
    STACKBUF(wb); push(arr, mk_stack(wb, i));
  }
  var ex = VF_CATCH(sort(arr));
  vf.evaluations++;
  if (ex) vf_violation(L(H.name, cls, "raises"), NULL, "sort raised %s", vf_exc_name(ex));
  else if (len(arr) != (size_t)n) vf_violation(L(H.name, cls, "length-changed"), NULL, "len = %zu after sorting %d elements", len(arr), n);
  else {
    for (int q = 0; q < n; q++) {
      vf.evaluations++;
      if (!h_same(get(arr, $I(q)), sorted[q])) {
        char ds[64]; h_desc(sorted[q], ds, sizeof ds);
        vf_violation(L(H.name, cls, "not-the-sorted-permutation"), NULL, "after sort position %d of %d does not hold %s (the value the reference order puts there)", q, n, ds);
        break;
      }
    }
    vf.nontrivial++;
  }
  if (vf_want_sample()) vf_sample("%s (%d elements)", ckey, n);
  { var e3 = VF_CATCH(del_raw(arr)); (void)e3; }
  free(sorted);
}

static void part_ops(void) {
  int n = H.n;
  for (int i = 0; i < n; i++) { copy_case(i, 0); copy_case(i, 1); }
  for (int i = 0; i < n; i++) { assign_case(i, -1); assign_case(i, -2); }
  for (int i = 0; i < n; i++) for (int j = 0; j < n; j++) assign_case(i, j);
  for (int i = 0; i < n; i++) for (int j = 0; j < n; j++) {
    swap_case(i, j, 0);
    if (H.can_stack_swap) swap_case(i, j, 1);
    if (H.embed) swap_array_case(i, j);
    if (H.embed && H.can_stack_swap) swap_array_stack_case(i, j);
  }
  if (H.embed && H.can_sort) for (int order = 0; order < 4; order++) sort_case(order);
}

/* ---- part containers: Array / List / Tuple holding the same elements ----------------------------
**
** For every sequence of length 0..3 over three different values of the element domain: an Array and a
** List built by push, a heap Tuple and a stack Tuple of the same objects, an Array and a List built
** through another history (junk element, reserve, push_at at the front in reverse order, pop, shrink).
** All hold the same elements (checked against the C reference through len/get); whenever two of them
** are eq in both directions their hashes must be equal (hash is a function of the value alone, across
** container kinds that compare equal element-wise, and across construction histories); copy(c) and
** assign into the other kind (List := Array, Array := List, targets not empty before) are eq to the
** source and hash like it.
*/
#define NCONT 6
static const char* cont_name[NCONT] = { "array", "list", "tuple", "stack-tuple", "array-history", "list-history" };

static int cont_holds(var c, const int* seq, int SL) {
  if (len(c) != (size_t)SL) return 0;
  for (int k = 0; k < SL; k++) if (!h_same(get(c, $I(k)), seq[k])) return 0;
  return 1;
}

static void container_case(const int* e, var* E, const int* code, int SL) {
  char cs[8] = "-"; for (int k = 0; k < SL; k++) { cs[k] = (char)('0' + code[k]); cs[k+1] = 0; }
  char ds[160]; size_t o = 0; ds[0] = 0;
  for (int k = 0; k < SL; k++) { char d1[40]; h_desc(e[code[k]], d1, sizeof d1); o += snprintf(ds + o, sizeof ds - o, "%s%s", k ? " " : "", d1); if (o >= sizeof ds) { o = sizeof ds - 1; break; } }
  if (!begin_case(ds, "containers %s %s", H.name, cs)) return;
  int seq[3]; for (int k = 0; k < SL; k++) seq[k] = e[code[k]];
  int junk = e[(SL ? code[0] + 1 : 0) % 3];
  var C[NCONT];
  C[0] = new_raw(Array, H.type); for (int k = 0; k < SL; k++) push(C[0], E[code[k]]);
  C[1] = new_raw(List, H.type);  for (int k = 0; k < SL; k++) push(C[1], E[code[k]]);
  /* a Tuple finds its cursor by pointer identity (known finding D16): every position gets an object of its own */
  C[2] = new_raw(Tuple);         for (int k = 0; k < SL; k++) push(C[2], E[3 * (k + 1) + code[k]]);
  STACKBUF(s0); STACKBUF(s1); STACKBUF(s2);
  char* sb[3] = { s0, s1, s2 };
  var items[4] = { Terminal, Terminal, Terminal, Terminal };
  for (int k = 0; k < SL; k++) items[k] = mk_stack(sb[k], seq[k]);
  C[3] = $(Tuple, items);
  (void)junk;
  C[4] = new_raw(Array, H.type); push(C[4], E[(SL ? code[0] + 1 : 0) % 3]); resize(C[4], 16);
  for (int k = SL - 1; k >= 0; k--) push_at(C[4], E[code[k]], $I(0));
  pop(C[4]); if (SL > 0) resize(C[4], (size_t)SL);
  C[5] = new_raw(List, H.type); push(C[5], E[(SL ? code[0] + 1 : 0) % 3]);
  for (int k = SL - 1; k >= 0; k--) push_at(C[5], E[code[k]], $I(0));
  pop(C[5]);
  uint64_t hc[NCONT];
  for (int a = 0; a < NCONT; a++) {
    vf.evaluations++;
    if (!cont_holds(C[a], seq, SL)) vf_violation(L(H.name, cont_name[a], "container-does-not-hold-the-elements"), NULL, "the %s does not hold the %d elements it was built from (len/get against the C reference)", cont_name[a], SL);
    hc[a] = hash(C[a]);
  }
  for (int a = 0; a < NCONT; a++) for (int b = a + 1; b < NCONT; b++) {
    char cls[48]; snprintf(cls, sizeof cls, "%s-vs-%s", cont_name[a], cont_name[b]);
    volatile bool e1 = false, e2 = false;
    var ex = VF_CATCH(e1 = eq(C[a], C[b]); e2 = eq(C[b], C[a]));
    vf.evaluations += 2;
    if (ex) { vf_violation(L(H.name, cls, "eq-raises"), NULL, "eq raised %s", vf_exc_name(ex)); continue; }
    if (!e1 || !e2) vf_violation(L(H.name, cls, "same-elements-not-eq"), NULL, "a %s and a %s holding the same %d elements: eq = %d / %d", cont_name[a], cont_name[b], SL, (int)e1, (int)e2);
    else if (hc[a] != hc[b]) vf_violation(L(H.name, cls, "eq-but-hash-differs"), NULL, "a %s and a %s holding the same %d elements are eq but hash to %016" PRIx64 " and %016" PRIx64, cont_name[a], cont_name[b], SL, hc[a], hc[b]);
    if (SL > 0) vf.nontrivial++;
  }
  /* Tuples that reference ONE object at every position of equal value (heap and stack).  Tuple_Cmp / Tuple_Hash walk
  ** by index, so as the LEFT operand of eq they are in contract (iterating them - the right operand - is known finding D16):
  ** eq(shared, x) must hold for every container x of distinct objects above, and then the hashes must be equal */
  int repeats = 0;
  for (int k = 0; k < SL; k++) for (int q = 0; q < k; q++) if (code[k] == code[q]) repeats = 1;
  if (repeats) {
    var sh[2]; var sitems[4] = { Terminal, Terminal, Terminal, Terminal };
    sh[0] = new_raw(Tuple); for (int k = 0; k < SL; k++) { push(sh[0], E[code[k]]); sitems[k] = E[code[k]]; }
    sh[1] = $(Tuple, sitems);
    for (int w = 0; w < 2; w++) {
      uint64_t hs = hash(sh[w]);
      vf.evaluations++;
      if (len(sh[w]) != (size_t)SL) vf_violation(L(H.name, w ? "shared-object-stack-tuple" : "shared-object-tuple", "len"), NULL, "len = %zu, %d elements", len(sh[w]), SL);
      for (int b = 0; b < NCONT; b++) {
        char cls[64]; snprintf(cls, sizeof cls, "%s-vs-%s", w ? "shared-object-stack-tuple" : "shared-object-tuple", cont_name[b]);
        volatile bool e1 = false;
        var ex = VF_CATCH(e1 = eq(sh[w], C[b]));
        vf.evaluations += 2;
        if (ex) { vf_violation(L(H.name, cls, "eq-raises"), NULL, "eq raised %s", vf_exc_name(ex)); continue; }
        if (!e1) vf_violation(L(H.name, cls, "same-elements-not-eq"), NULL, "eq(tuple referencing one object at several positions, %s of the same %d values) is false", cont_name[b], SL);
        else if (hs != hc[b]) vf_violation(L(H.name, cls, "eq-but-hash-differs"), NULL, "eq but hash %016" PRIx64 " vs %016" PRIx64, hs, hc[b]);
        vf.nontrivial++;
      }
    }
    del_raw(sh[0]);
  }
  /* copy of each heap container */
  for (int a = 0; a < 3; a++) {
    char cls[48]; snprintf(cls, sizeof cls, "copy-of-%s", cont_name[a]);
    volatile var yv = NULL;
    var ex = VF_CATCH(yv = copy(C[a]));
    var y = yv;
    vf.evaluations += 3;
    if (ex) { vf_violation(L(H.name, cls, "raises"), NULL, "copy raised %s", vf_exc_name(ex)); continue; }
    if (!cont_holds(y, seq, SL)) vf_violation(L(H.name, cls, "container-does-not-hold-the-elements"), NULL, "copy(%s) does not hold the source's elements", cont_name[a]);
    else if (!eq(y, C[a]) || !eq(C[a], y)) vf_violation(L(H.name, cls, "not-eq"), NULL, "copy(%s) is not eq to its source", cont_name[a]);
    else if (hash(y) != hc[a]) vf_violation(L(H.name, cls, "hash-differs"), NULL, "copy(%s) hashes to %016" PRIx64 ", the source to %016" PRIx64, cont_name[a], hash(y), hc[a]);
    del(y);
    vf.nontrivial++;
  }
  /* assign into the other kind, the target holding something else before */
  for (int dir = 0; dir < 2; dir++) {
    const char* cls = dir ? "array-assigned-from-list" : "list-assigned-from-array";
    var src = dir ? C[1] : C[0];
    var dst = dir ? (var)new_raw(Array, H.type) : (var)new_raw(List, H.type);
    push(dst, E[(SL ? code[0] + 1 : 0) % 3]); push(dst, E[(SL ? code[0] + 2 : 1) % 3]);
    var ex = VF_CATCH(assign(dst, src));
    vf.evaluations += 3;
    if (ex) vf_violation(L(H.name, cls, "raises"), NULL, "assign raised %s", vf_exc_name(ex));
    else if (!cont_holds(dst, seq, SL)) vf_violation(L(H.name, cls, "container-does-not-hold-the-elements"), NULL, "after assign the target does not hold the source's %d elements", SL);
    else if (!eq(dst, src) || !eq(src, dst)) vf_violation(L(H.name, cls, "not-eq"), NULL, "after assign the target is not eq to the source");
    else if (hash(dst) != hash(src)) vf_violation(L(H.name, cls, "hash-differs"), NULL, "after assign the target hashes to %016" PRIx64 ", the source to %016" PRIx64, hash(dst), hash(src));
    del_raw(dst);
    vf.nontrivial++;
  }
  if (vf_want_sample()) vf_sample("%s | %s -> hash %016" PRIx64, ckey, ds, hc[0]);
  for (int a = 0; a < NCONT; a++) if (a != 3) del_raw(C[a]);
}

/* ---- maps keyed by / holding the element domain -------------------------------------------------------
**
** Table and Tree with key type = the domain (values Int) and with Int keys (values of the domain), every
** non-empty subset of three bindings: hash must not raise; the same bindings built in ascending and in
** descending order, copy(), and assign into a non-empty map hash equal (only the hash is judged here: eq of
** Tables with colliding keys is known finding D10); a Table and a Tree that are eq both ways hash equal;
** changing the value of one binding changes the hash for at least one of three replacement values.
*/
static var map_new(int tree, int keyed) {
  if (keyed) return tree ? (var)new_raw(Tree, H.type, Int) : (var)new_raw(Table, H.type, Int);
  return tree ? (var)new_raw(Tree, Int, H.type) : (var)new_raw(Table, Int, H.type);
}
static void map_set(var m, int keyed, var* E, int k, int alt) {
  /* binding k: keyed: E[k] -> 10+k (alt: 20+k+alt); else 10+k -> E[k] (alt: E[(k+alt)%3]) */
  if (keyed) set(m, E[k], $I(alt ? 20 + k + alt : 10 + k));
  else set(m, $I(10 + k), E[alt ? (k + alt) % 3 : k]);
}

static void map_case(var* E, int tree, int keyed, int subset) {
  const char* kind = tree ? "tree" : "table";
  char cls[48]; snprintf(cls, sizeof cls, "%s-%s", kind, keyed ? "keyed-by-domain" : "holding-domain-values");
  if (!begin_case(NULL, "maps %s %s %s %d", H.name, kind, keyed ? "keys" : "vals", subset)) return;
  if (tree && keyed && H.no_tree_key) { vf.executions--; return; }
  volatile var m1 = NULL, m2 = NULL, m3 = NULL, cp = NULL, other = NULL;
  volatile uint64_t h1 = 0, h2 = 0, h3 = 0, hc = 0, ho = 0;
  volatile bool e1 = false, e2 = false;
  var ex = VF_CATCH(
    m1 = map_new(tree, keyed); m2 = map_new(tree, keyed); m3 = map_new(tree, keyed);
    for (int k = 0; k < 3; k++) if (subset & (1 << k)) map_set(m1, keyed, E, k, 0);
    for (int k = 2; k >= 0; k--) if (subset & (1 << k)) map_set(m2, keyed, E, k, 0);
    map_set(m3, keyed, E, 0, 1); map_set(m3, keyed, E, 2, 2);
    h1 = hash(m1); h2 = hash(m2);
    cp = copy(m1); hc = hash(cp);
    assign(m3, m1); h3 = hash(m3);
    other = map_new(!tree, keyed);
    if (!(!tree && keyed && H.no_tree_key)) {
      for (int k = 0; k < 3; k++) if (subset & (1 << k)) map_set(other, keyed, E, k, 0);
      ho = hash(other); e1 = eq(m1, other); e2 = eq(other, m1);
    }
  );
  vf.evaluations += 5;
  if (ex) vf_violation(L(H.name, cls, "raises"), NULL, "building / hashing / copying the map raised %s", vf_exc_name(ex));
  else {
    if (len(m1) != (size_t)__builtin_popcount(subset)) vf_violation(L(H.name, cls, "len"), NULL, "len = %zu, %d bindings were set", len(m1), __builtin_popcount(subset));
    if (h1 != h2) vf_violation(L(H.name, cls, "hash-depends-on-insertion-order"), NULL, "same bindings inserted ascending / descending hash to %016" PRIx64 " / %016" PRIx64, (uint64_t)h1, (uint64_t)h2);
    if (hc != h1) vf_violation(L(H.name, cls, "copy-hash-differs"), NULL, "hash(copy(m)) = %016" PRIx64 ", hash(m) = %016" PRIx64, (uint64_t)hc, (uint64_t)h1);
    if (h3 != h1) vf_violation(L(H.name, cls, "assign-hash-differs"), NULL, "after assign(non-empty map, m) the target hashes to %016" PRIx64 ", m to %016" PRIx64, (uint64_t)h3, (uint64_t)h1);
    if (e1 && e2 && ho != h1) vf_violation(L(H.name, cls, "eq-to-other-kind-but-hash-differs"), NULL, "a Table and a Tree with the same bindings are eq but hash to %016" PRIx64 " and %016" PRIx64, (uint64_t)h1, (uint64_t)ho);
    /* a changed value shows in the hash (three different replacements, one collision is forgiven) */
    int first = __builtin_ctz(subset), changed = 0;
    for (int alt = 1; alt <= 3 && !ex; alt++) {
      volatile uint64_t hx = 0;
      ex = VF_CATCH(map_set(m2, keyed, E, first, alt); hx = hash(m2));
      if (!ex && hx != h1) changed++;
    }
    vf.evaluations++;
    if (ex) vf_violation(L(H.name, cls, "raises"), NULL, "updating a binding / hashing raised %s", vf_exc_name(ex));
    else if (!changed) vf_violation(L(H.name, cls, "hash-ignores-values"), NULL, "the hash stayed %016" PRIx64 " for three different replacement values of one binding", (uint64_t)h1);
    vf.nontrivial++;
    if (vf_want_sample()) vf_sample("%s -> hash %016" PRIx64, ckey, (uint64_t)h1);
  }
  { var e3 = VF_CATCH(if (cp) del(cp); if (m1) del_raw(m1); if (m2) del_raw(m2); if (m3) del_raw(m3); if (other) del_raw(other)); (void)e3; }
}

static void part_containers(void) {
  if (!H.embed) return;
  int n = H.n, e[3], ne = 0;
  /* three different element values: the first, the last, one from the middle of the grid */
  int cand[3] = { 0, n - 1, n / 2 };
  for (int c = 0; c < 3; c++) for (int d = 0; d < n && ne <= c; d++) {
    int x = (cand[c] + d) % n, dup = 0;
    for (int q = 0; q < ne; q++) if (h_refeq(e[q], x)) dup = 1;
    if (!dup) e[ne++] = x;
  }
  if (ne < 3) return;
  var E[12];                            /* E[0..2]: one object per value; E[3(p+1)+v]: value v for Tuple position p */
  for (int k = 0; k < 12; k++) { STACKBUF(wb); E[k] = new_raw_with(H.type, tuple(mk_stack(wb, e[k % 3]))); }
  int code[3];
  for (int SL = 0; SL <= 3; SL++) {
    int cnt = 1; for (int q = 0; q < SL; q++) cnt *= 3;
    for (int c = 0; c < cnt; c++) {
      int x = c; for (int k = SL - 1; k >= 0; k--) { code[k] = x % 3; x /= 3; }
      container_case(e, E, code, SL);
    }
  }
  for (int tree = 0; tree < 2; tree++) for (int keyed = 0; keyed < 2; keyed++) for (int subset = 1; subset < 8; subset++) map_case(E, tree, keyed, subset);
  for (int k = 0; k < 12; k++) drop_raw(E[k]);
}

/* ---- part recycled: run-time record types deleted and re-created with another size (vf_cmp.h) ------
**
** Sub-families by the operation that is the very FIRST library call on objects of the new type:
** 0 hash, 1 assign, 2 swap, 3 copy.  Afterwards all of them run over all value pairs.
*/
static uint64_t rec_generations, rec_same_address;
static const char* rec_family_name[] = { "hash", "assign", "swap", "copy" };

static void rec_check_assign(var T, size_t size, int i, int j, const char* trans, const char* kase, const char* pre) {
  static char X[VFR_BLOCK] __attribute__((aligned(16))), Y[VFR_BLOCK] __attribute__((aligned(16)));
  char sym[64];
  var x = vfr_obj(X, T, i & 1, size, i, 0xA5), y = vfr_obj(Y, T, (j + 1) & 1, size, j, 0x5A);
  var ex = VF_CATCH(assign(y, x));
  vf.evaluations += 3;
  if (ex) { snprintf(sym, sizeof sym, "%sassign-raises", pre); vf_violation(L("recycled-type", trans, sym), kase, "assign raised %s", vf_exc_name(ex)); return; }
  if (!vfr_holds(y, size, i)) { snprintf(sym, sizeof sym, "%sassign-value-differs", pre); vf_violation(L("recycled-type", trans, sym), kase, "assign(y,x) on a %zu-byte run-time type: y (held value %d) does not hold x's value %d over all %zu bytes", size, j, i, size); }
  if (!vfr_holds(x, size, i)) { snprintf(sym, sizeof sym, "%sassign-source-changed", pre); vf_violation(L("recycled-type", trans, sym), kase, "assign changed its source"); }
  if (!vfr_canary_ok(y, size, 0x5A) || !vfr_canary_ok(x, size, 0xA5)) { snprintf(sym, sizeof sym, "%sassign-writes-beyond-object", pre); vf_violation(L("recycled-type", trans, sym), kase, "assign on a %zu-byte run-time type changed bytes behind the objects", size); }
}

static void rec_check_swap(var T, size_t size, int i, int j, const char* trans, const char* kase, const char* pre) {
  static char X[VFR_BLOCK] __attribute__((aligned(16))), Y[VFR_BLOCK] __attribute__((aligned(16)));
  char sym[64];
  var x = vfr_obj(X, T, i & 1, size, i, 0xA5), y = vfr_obj(Y, T, (j + 1) & 1, size, j, 0x5A);
  var ex = VF_CATCH(swap(x, y));
  vf.evaluations += 2;
  if (ex) { snprintf(sym, sizeof sym, "%sswap-raises", pre); vf_violation(L("recycled-type", trans, sym), kase, "swap raised %s", vf_exc_name(ex)); return; }
  if (!vfr_holds(x, size, j) || !vfr_holds(y, size, i)) { snprintf(sym, sizeof sym, "%sswap-values-not-exchanged", pre); vf_violation(L("recycled-type", trans, sym), kase, "swap on a %zu-byte run-time type: values %d and %d were not exchanged over all %zu bytes", size, i, j, size); }
  if (!vfr_canary_ok(x, size, 0xA5) || !vfr_canary_ok(y, size, 0x5A)) { snprintf(sym, sizeof sym, "%sswap-writes-beyond-object", pre); vf_violation(L("recycled-type", trans, sym), kase, "swap on a %zu-byte run-time type changed bytes behind the objects", size); }
}

static void rec_check_hash(var T, size_t size, int i, const char* trans, const char* kase, const char* pre) {
  static char X[VFR_BLOCK] __attribute__((aligned(16))), Y[VFR_BLOCK] __attribute__((aligned(16)));
  char sym[64];
  var x = vfr_obj(X, T, 0, size, i, 0xA5), y = vfr_obj(Y, T, 1, size, i, 0x5A);
  uint64_t hx = hash(x), hy = hash(y);
  vf.evaluations++;
  if (hx != hy) { snprintf(sym, sizeof sym, "%sequal-values-hash-differs", pre); vf_violation(L("recycled-type", trans, sym), kase, "two %zu-byte objects holding value %d (different bytes BEHIND them) hash to %016" PRIx64 " and %016" PRIx64, size, i, hx, hy); }
}

static void rec_check_copy(var T, size_t size, int i, const char* trans, const char* kase, const char* pre) {
  static char X[VFR_BLOCK] __attribute__((aligned(16)));
  char sym[64];
  var x = vfr_obj(X, T, i & 1, size, i, 0xA5);
  volatile var yv = NULL;
  var ex = VF_CATCH(yv = copy(x));
  var y = yv;
  vf.evaluations += 3;
  if (ex) { snprintf(sym, sizeof sym, "%scopy-raises", pre); vf_violation(L("recycled-type", trans, sym), kase, "copy raised %s", vf_exc_name(ex)); return; }
  if (type_of(y) != T || !vfr_holds(y, size, i)) { snprintf(sym, sizeof sym, "%scopy-value-differs", pre); vf_violation(L("recycled-type", trans, sym), kase, "copy of a %zu-byte run-time struct (value %d) does not hold the value over all %zu bytes", size, i, size); }
  else if (!eq(y, x) || !eq(x, y)) { snprintf(sym, sizeof sym, "%scopy-not-eq", pre); vf_violation(L("recycled-type", trans, sym), kase, "copy is not eq to its source"); }
  else if (hash(y) != hash(x)) { snprintf(sym, sizeof sym, "%scopy-hash-differs", pre); vf_violation(L("recycled-type", trans, sym), kase, "copy hashes differently from its source"); }
  if (!vfr_holds(x, size, i) || !vfr_canary_ok(x, size, 0xA5)) { snprintf(sym, sizeof sym, "%scopy-source-changed", pre); vf_violation(L("recycled-type", trans, sym), kase, "copy changed its source or the bytes behind it"); }
  del(y);
}

static void recycled_family(int fam, int upto) {
  uintptr_t prev_addr = 0; size_t prev_size = 0;
  int G = 2 * VFR_NSIZES;
  for (int g = 0; g < G && g <= upto; g++) {
    size_t size = vfr_sizes[g % VFR_NSIZES];
    int second_pass = (g / VFR_NSIZES) & 1;
    const char* trans = prev_size == 0 ? "first-type" : size > prev_size ? "larger-than-previous" : "smaller-than-previous";
    snprintf(ckey, sizeof ckey, "recycled %s %d", rec_family_name[fam], g);
    vf_set_cur("%s | size=%zu previous size=%zu", ckey, size, prev_size);
    char kase[128]; snprintf(kase, sizeof kase, "%s", vf_cur);
    var T = vfr_type_new(g);
    int same = prev_addr != 0 && (uintptr_t)T == prev_addr;
    rec_generations++; if (same) rec_same_address++;
    vf.executions++;
    /* the very first operation on the new type: first pass a value differing from the base only in its LAST byte
    ** (a stale smaller size loses it), second pass equal values / the base (a stale larger size reaches behind the object) */
    int fi = second_pass ? 0 : 5;
    switch (fam) {
      case 0: rec_check_hash(T, size, fi, trans, kase, "first-"); break;
      case 1: rec_check_assign(T, size, fi, 0, trans, kase, "first-"); break;
      case 2: rec_check_swap(T, size, fi, 0, trans, kase, "first-"); break;
      case 3: rec_check_copy(T, size, fi, trans, kase, "first-"); break;
    }
    for (int i = 0; i < VFR_NVALS; i++) {
      rec_check_hash(T, size, i, trans, kase, "");
      rec_check_copy(T, size, i, trans, kase, "");
      for (int j = 0; j < VFR_NVALS; j++) { rec_check_assign(T, size, i, j, trans, kase, ""); rec_check_swap(T, size, i, j, trans, kase, ""); }
    }
    if (same && size != prev_size) vf.nontrivial++;
    if (vf_want_sample()) vf_sample("%s (%s)", kase, same ? "type block recycled at the same address" : "type at a new address");
    prev_addr = (uintptr_t)T; prev_size = size;
    del_raw(T);
  }
}

static void part_recycled(void) {
  vf.phase = "hash-recycled-type";
  if (vf.replay) {
    char dn[16], fam[16]; int g = -1;
    if (sscanf(vf.replay, "%15s %15s %d", dn, fam, &g) != 3 || strcmp(dn, "recycled") != 0) return;
    for (int f = 0; f < 4; f++) if (!strcmp(fam, rec_family_name[f])) recycled_family(f, g);
    return;
  }
  for (int f = 0; f < 4; f++) recycled_family(f, 1 << 30);
  vf_extra("recycled_types", "{\"generations\": %" PRIu64 ", \"new_type_at_the_address_of_the_deleted_one\": %" PRIu64 "}", rec_generations, rec_same_address);
  if (rec_same_address == 0) vf_note("recycled run-time types: the allocator never handed the deleted Type block back (sanitizer quarantine?); the same-address cases were NOT exercised in this instance and are not counted");
}

/* ---- Type: static type objects against heap-allocated twins with the same name ------------------- */

static void part_types(const char* parts) {
  vf.phase = "hash-type";
  int did_note = 0;
  for (int i = 0; i < tn; i++) {
    if (type_of(tobj[i]) != Type) { fprintf(stderr, "h_hash: %s is not a Type object\n", tname[i]); _exit(2); }
    if (part_on(parts, "values") && begin_case(tname[i], "values type %d heap-twin", i)) {
      var twin = new_raw(Type, $S((char*)tname[i]), $I(size(tobj[i])));
      uint64_t h0 = hash(tobj[i]), h1 = hash(twin);
      vf.evaluations += 2;
      if (!eq(tobj[i], twin) || !eq(twin, tobj[i])) vf_violation(L("type", "heap-twin", "not-eq"), NULL, "a heap Type object named %s is not eq to the static one", tname[i]);
      if (h0 != h1) vf_violation(L("type", "heap-twin", "hash-differs"), NULL, "hash(%s) = %016" PRIx64 " but a heap Type object with the same name hashes to %016" PRIx64, tname[i], h0, h1);
      if (hash(tobj[i]) != h0) vf_violation(L("type", "static", "hash-not-stable"), NULL, "hash(%s) changed between two calls", tname[i]);
      vf.nontrivial++;
      if (vf_want_sample()) vf_sample("%s | %s -> hash %016" PRIx64, ckey, tname[i], h0);
      del_raw(twin);
    }
    if (part_on(parts, "pairs")) for (int j = 0; j < tn; j++) {
      if (!begin_case(NULL, "pairs type %d %d", i, j)) continue;
      vf_set_cur("%s | a=%s b=%s", ckey, tname[i], tname[j]);
      bool leq = eq(tobj[i], tobj[j]);
      int req = strcmp(tname[i], tname[j]) == 0;
      vf.evaluations++;
      if ((leq || req) && hash(tobj[i]) != hash(tobj[j]))
        vf_violation(L("type", req ? "equal-values" : "unequal-values", leq ? "eq-but-hash-differs" : "equal-values-hash-differs"), NULL, "%s and %s: eq = %d but the hashes differ", tname[i], tname[j], (int)leq);
      if (i == j) vf.outcomes++;
    }
    if (part_on(parts, "ops") && !did_note) {
      /* Type objects refuse copy and assign by design ("Type objects cannot be copied"): not judged */
      did_note = 1;
      vf_note("Type: copy/assign raise ValueError by design; C10 copy/assign/swap not applied to Type objects");
    }
  }
}

/* ---- driver ------------------------------------------------------------------------------------ */

static void set_domain(const char* name) {
  memset(&H, 0, sizeof H);
  H.name = name; H.embed = 1; H.can_stack_swap = 1;
  if (!strcmp(name, "int")) { H.type = Int; H.n = ni; H.can_sort = 1; }
  else if (!strcmp(name, "float")) { H.type = Float; H.n = fn; H.can_sort = 1; }
  else if (!strcmp(name, "string")) { H.type = String; H.n = sn; H.can_stack_swap = 0; H.can_sort = 1; }
  else if (raw_find(name)) { RW = raw_find(name); H.type = RW->type; H.n = RW->n; H.raw = 1; H.no_tree_key = RW->size % 8 != 0 && !vf_param_i("oddtree", 0); H.can_sort = 1; }
  else if (!strcmp(name, "ref")) { H.type = Ref; H.n = NTARGETS; H.is_ptr = 1; }
  else if (!strcmp(name, "box")) { H.type = Box; H.n = NTARGETS; H.is_ptr = 1; H.embed = 0; }
  else { fprintf(stderr, "h_hash: unknown domain %s\n", name); _exit(2); }
}

/* an uncaught Cello exception ends in exit(1): attribute it to the case in progress and keep the results */
static void on_uncaught_exit(void) {
  char label[96];
  snprintf(label, sizeof label, "%s/uncaught-exception", vf.phase ? vf.phase : "run");
  vf.aborted = 1;
  vf_violation(label, vf_cur_valid ? vf_cur : "(no case in progress)", "the library raised an exception nobody expected while executing the case (exploration of this instance stopped here)");
  vf_write();
}

int main(int argc, char** argv) {
  vf_init(argc, argv);
  atexit(on_uncaught_exit);
  vfg_build(vf_param_is("grid", "large", "small"));
  const char* parts = vf_param("part", "all");
  const char* doms = vf_param("dom", "all");
  vf_watchdog(900);

  targets[0] = NULL;
  targets[1] = new_raw(Int, $I(1)); targets[2] = new_raw(Int, $I(2)); targets[3] = new_raw(Int, $I(1));
  targets[4] = Int;

  if (part_on(parts, "hashdata")) part_hashdata();

  static const char* all[] = { "int", "float", "string", "raw", "raw1", "raw3", "raw4", "raw7", "raw9", "raw12", "raw16", "raw20", "raw21", "raw63", "raw64", "raw65", "raw72", "raw100", "raw127", "raw128", "raw129", "raw200", "raw300", "ref", "box" };
  static char phase[32];
  for (size_t q = 0; q < sizeof all / sizeof all[0]; q++) {
    if (!vfg_dom_selected(doms, all[q])) continue;
    set_domain(all[q]);
    snprintf(phase, sizeof phase, "hash-%s", all[q]); vf.phase = phase;
    uint64_t ev0 = vf.evaluations, ex0 = vf.executions;
    if (part_on(parts, "values")) part_values();
    if (part_on(parts, "pairs")) part_pairs();
    if (part_on(parts, "ops")) part_ops();
    if (part_on(parts, "containers")) part_containers();
    vf_extra(all[q], "{\"values\": %d, \"cases\": %" PRIu64 ", \"oracle_evaluations\": %" PRIu64 "}", H.n, vf.executions - ex0, vf.evaluations - ev0);
  }
  if (vfg_dom_selected(doms, "type")) part_types(parts);
  if (vfg_dom_selected(doms, "recycled") && part_on(parts, "recycled")) part_recycled();
  if (vf.replay && vf.executions == 0) vf_note("replay case not found: %s", vf.replay);
  vf_finish();
  return 0;
}
