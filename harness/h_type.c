/*
** h_type.c - C08 (sequential part): type-class dispatch returns exactly what the type
** declares, whatever was looked up before.
**
** The state graph explored: a state is (type object, memo configuration), where the memo
** configuration is what Type.c fills lazily - the CELLO_CACHE_NUM cache slots in front of
** the record, the `cls` field of every {cls, name, inst} triple, and the header type of
** a statically declared type object (NULL until the first type_of).  An operation is one
** lookup (class x entry point x member).  A history starts from the COLD type: the bytes
** of every exported type record (header included) are snapshotted by a constructor that
** runs before main (i.e. before the library has looked anything up) and copied back.
**
** The oracle never looks at the memo fields: the instance a type declares for a class is
** found by walking the raw record as Cello.h lays it out (header, cache slots, "__Name",
** "__Size", triples up to a NULL name) and comparing the triple's NAME with the class's
** own name by strcmp.  For run-time types the oracle is the list the harness passed to
** new(Type, ...).
**
** Parameters:
**   mode=matrix   every type x class x entry point x member, each cell as the history
**                 <cold> lookup ; same lookup (warm)
**   mode=hist     depth=2|3 eps=<list>  every ordered pair/triple of lookups from cold
**   mode=long     every type x entry point x rotation of the class order: 30 lookups
**                 from cold followed by a verification sweep
**   mode=rt       run-time types: ns=<list> pool=<k> variants=<k> stride=<k>
**   mode=recycle  run-time types whose calloc block is handed back and reused: T1 declares class X, X is looked
**                 up, T1 is deleted, T2 (same block) declares X with another instance or not at all and X is the
**                 FIRST lookup on T2; plus lookups alternating between live types that declare X differently
**   mode=prefix   user classes whose names are prefixes of one another (K1/K10/K100, Pri/Print): run-time types over
**                 every subset in every declaration order, and statically declared types, every lookup order
**   mode=names    classes whose NAME collides with what a type record carries besides its instances: "__Name", "__Size",
**                 other "__" names, "", "_", the type's own name (the type object itself asked as a class, and a run-time
**                 class of that name) - on every exported type, statically declared user types and run-time types that
**                 do / do not declare such a class (full=1: every entry-point pair in the two-name histories)
**   mode=typecmp  (C09) cmp/eq/neq/lt/gt/le/ge/hash of type objects, prefix-related type names included
**   mode=cast     cast(obj, T) for every ordered pair of exported types
**   mode=matrix only=fail warm=1 pairs=1  (C12; pairs=1: back-to-back dispatches of a present and an empty member)
**   mode=matrix only=fail warm=1   (C12) the cells whose class is absent / whose member is empty, cold and after
**                 every other class of the type has been looked up
**   mode=null     (C12) NULL as receiver of every public function with object parameters, and NULL in every further
**                 object position with a valid receiver of every kind that implements the class (defects=1 also runs
**                 the cases recorded as library defects; survey=1 forks every case and prints what happens)
**   mode=api      (C12) the public functions (len, push, get, c_float, sopen, lock, current, ...) on an object of
**                 every exported type that lacks the needed class or member, cold and warm: ClassError, object
**                 bytes unchanged; and such objects offered to containers as element / key / value
**   shard=i/n     (matrix/hist/long) only types with index % n == i
**   count=0       report states/nontrivial as *_local only (instance re-explores a space owned by another instance)
**   replay=<case> run one recorded case
*/

#include "vf.h"

#define NCACHE   ((int)CELLO_CACHE_NUM)
#define MAXMEM   8
#define NBC      30                  /* classes declared by Cello.h */
#define NRC      260                 /* run-time classes created by the harness */
#define NPFX     5                   /* user classes whose names are prefixes of one another: K1 K10 K100 Pri Print */
#define PF0      (NBC + NRC)
#define NLONG    6                   /* user classes with long names that differ late or are prefixes of one another */
#define LG0      (NBC + NRC + NPFX)
#define RC0      (NBC + NRC + NPFX + NLONG)      /* two slots for class objects that are created and deleted per case */
#define NBK      18                  /* mode=names: classes NAMED like the bookkeeping entries of a type record ("__Name", "__Size", ...) */
#define BK0      (RC0 + 2)
#define OW0      (BK0 + NBK)         /* mode=names: two per-type slots - the type object itself asked as a class, a run-time class named like the type */
#define NU       (OW0 + 2)
#define MAXINST  256

static void fatal(const char* fmt, ...) {
  va_list ap; va_start(ap, fmt);
  fprintf(stderr, "h_type: infrastructure error: ");
  vfprintf(stderr, fmt, ap); fputc('\n', stderr);
  va_end(ap);
  fflush(NULL);
  _exit(2);
}

/* ---- the classes of Cello.h, member by member (checked against sizeof below) ------ */

struct bmem { const char* n; size_t off; };
struct bcls { var* objp; const char* name; size_t size; struct bmem m[MAXMEM + 1]; };
#define M(C, f) { #f, offsetof(struct C, f) }
#define BC(C, ...) { &C, #C, sizeof(struct C), { __VA_ARGS__ } }

static const struct bcls BCL[NBC] = {
  BC(Doc, M(Doc, name), M(Doc, brief), M(Doc, description), M(Doc, definition), M(Doc, examples), M(Doc, methods)),
  BC(Help, M(Help, help_to)),
  BC(Cast, M(Cast, cast)),
  BC(Size, M(Size, size)),
  BC(Alloc, M(Alloc, alloc), M(Alloc, dealloc)),
  BC(New, M(New, construct_with), M(New, destruct)),
  BC(Copy, M(Copy, copy)),
  BC(Assign, M(Assign, assign)),
  BC(Swap, M(Swap, swap)),
  BC(Cmp, M(Cmp, cmp)),
  BC(Hash, M(Hash, hash)),
  BC(Len, M(Len, len)),
  BC(Iter, M(Iter, iter_init), M(Iter, iter_next), M(Iter, iter_last), M(Iter, iter_prev), M(Iter, iter_type)),
  BC(Push, M(Push, push), M(Push, pop), M(Push, push_at), M(Push, pop_at)),
  BC(Concat, M(Concat, concat), M(Concat, append)),
  BC(Get, M(Get, get), M(Get, set), M(Get, mem), M(Get, rem), M(Get, key_type), M(Get, val_type)),
  BC(Sort, M(Sort, sort_by)),
  BC(Resize, M(Resize, resize)),
  BC(C_Str, M(C_Str, c_str)),
  BC(C_Int, M(C_Int, c_int)),
  BC(C_Float, M(C_Float, c_float)),
  BC(Stream, M(Stream, sopen), M(Stream, sclose), M(Stream, sseek), M(Stream, stell), M(Stream, sflush), M(Stream, seof), M(Stream, sread), M(Stream, swrite)),
  BC(Pointer, M(Pointer, ref), M(Pointer, deref)),
  BC(Call, M(Call, call_with)),
  BC(Format, M(Format, format_to), M(Format, format_from)),
  BC(Show, M(Show, show), M(Show, look)),
  BC(Current, M(Current, current)),
  BC(Start, M(Start, start), M(Start, stop), M(Start, join), M(Start, running)),
  BC(Lock, M(Lock, lock), M(Lock, unlock), M(Lock, trylock)),
  BC(Mark, M(Mark, mark)),
};

/* ---- every type object exported by Cello.h ----------------------------------------- */

struct tyinfo { var* objp; const char* name; };
#define TY(T) { &T, #T }
static const struct tyinfo TYS[] = {
  TY(Type), TY(Tuple), TY(Ref), TY(Box), TY(Int), TY(Float), TY(String),
  TY(Tree), TY(List), TY(Array), TY(Table), TY(Range), TY(Slice), TY(Zip), TY(Filter), TY(Map),
  TY(Terminal), TY(_),
  TY(File), TY(Mutex), TY(Thread), TY(Process), TY(Function),
  TY(Exception), TY(IOError), TY(KeyError), TY(BusyError), TY(TypeError), TY(ValueError), TY(ClassError),
  TY(FormatError), TY(ResourceError), TY(OutOfMemoryError), TY(IndexOutOfBoundsError), TY(SegmentationError),
  TY(ProgramAbortedError), TY(DivisionByZeroError), TY(IllegalInstructionError), TY(ProgramInterruptedError),
  TY(ProgramTerminationError),
  TY(Doc), TY(Help), TY(Cast), TY(Size), TY(Alloc), TY(New), TY(Copy), TY(Assign), TY(Swap), TY(Cmp), TY(Hash),
  TY(Len), TY(Iter), TY(Push), TY(Concat), TY(Get), TY(Sort), TY(Resize), TY(C_Str), TY(C_Int), TY(C_Float),
  TY(Stream), TY(Pointer), TY(Call), TY(Format), TY(Show), TY(Current), TY(Start), TY(Lock), TY(Mark),
  TY(GC),
};
#define NTY ((int)(sizeof TYS / sizeof TYS[0]))
#define TI_TYPE 0                      /* index of Type in TYS */

/* ---- cold snapshots, taken before main ----------------------------------------------- */

struct snap { char* base; size_t len; char* bytes; int ntrip; };
static struct snap SN[sizeof TYS / sizeof TYS[0]];

__attribute__((constructor)) static void snap_all(void) {
  for (int i = 0; i < NTY; i++) {
    var T = *TYS[i].objp;
    var* p = (var*)T + NCACHE;
    int k = 0;
    while (p[3 * k + 1]) k++;          /* "__Name", "__Size", then the instances */
    SN[i].ntrip = k;
    SN[i].base = (char*)T - sizeof(struct Header);
    SN[i].len = sizeof(struct Header) + (size_t)(NCACHE + 3 * (k + 1)) * sizeof(var);
    SN[i].bytes = malloc(SN[i].len);
    memcpy(SN[i].bytes, SN[i].base, SN[i].len);
  }
}

static void restore_type(int ti) { memcpy(SN[ti].base, SN[ti].bytes, SN[ti].len); }
static void restore_world(void) { for (int i = 0; i < NTY; i++) restore_type(i); }

/* ---- the class universe: 30 classes of Cello.h + NRC run-time classes ---------------- */

struct RtC { void (*m0)(var); void (*m1)(var); };

struct ucls {
  var obj; const char* name; int nmem;
  size_t off[MAXMEM]; const char* mname[MAXMEM];
  var inst[2];                 /* instance objects handed to new(Type, ...): variant 0 / 1 */
  int slot;                    /* cache slot discovered by experiment, or -1 */
};
static struct ucls U[NU];
static char rcname[NRC][12];
static var BI[NBC][2][4 + MAXMEM];                     /* header + members */
static var RI[NRC][4 + 2];
#define NALT 8
static var RI2[NALT][4 + 2];                           /* a second, different instance object for the first run-time classes */
static var alt_rt[NALT];

/* functions behind the harness's own instances; every call is counted */
static int64_t n_stub, n_size, n_alloc, n_dealloc, n_construct, n_destruct, n_cast, n_docname, n_m0, n_m1;
static var rt_cur_type, last_self;
static var cast_sentinel_buf[8];
static var cast_sentinel;
#define CAST_SENTINEL cast_sentinel

static var stub_fn(void) { n_stub++; return NULL; }
static size_t my_size(void) { n_size++; return 24; }
static var my_alloc(void) {
  n_alloc++;
  struct Header* h = calloc(1, sizeof(struct Header) + 64);
  return header_init(h, rt_cur_type, AllocHeap);
}
static void my_dealloc(var self) { n_dealloc++; free((char*)self - sizeof(struct Header)); }
static void my_construct(var self, var args) { n_construct++; }
static void my_destruct(var self) { n_destruct++; }
static var my_cast(var self, var type) { n_cast++; return CAST_SENTINEL; }
static const char* my_docname(void) { n_docname++; return "DocName"; }
static void rt_m0(var self) { n_m0++; last_self = self; }
static void rt_m1(var self) { n_m1++; last_self = self; }

/*
** User classes with prefix-related names, declared the way a program declares them, and statically declared
** types over them (both declaration orders, only the longer, only the shorter).  The type names are prefix-related
** as well (E1/E10/E100, Net/NetE/NetError/NetErrorTimeout) - used by mode=typecmp.
*/
struct K1 { void (*m0)(var); void (*m1)(var); };
struct K10 { void (*m0)(var); void (*m1)(var); };
struct K100 { void (*m0)(var); void (*m1)(var); };
struct Pri { void (*m0)(var); void (*m1)(var); };
struct Print { void (*m0)(var); void (*m1)(var); };
static var K1 = CelloEmpty(K1);
static var K10 = CelloEmpty(K10);
static var K100 = CelloEmpty(K100);
static var Pri = CelloEmpty(Pri);
static var Print = CelloEmpty(Print);
static var E1 = CelloEmpty(E1, Instance(Print, rt_m0, rt_m1), Instance(Pri, rt_m0, rt_m1));               /* longer first */
static var E10 = CelloEmpty(E10, Instance(Pri, rt_m0, rt_m1), Instance(Print, rt_m0, rt_m1));             /* shorter first */
static var NetError = CelloEmpty(NetError, Instance(Print, rt_m0, rt_m1));                                  /* only the longer */
static var NetErrorTimeout = CelloEmpty(NetErrorTimeout, Instance(Pri, rt_m0, rt_m1));                      /* only the shorter */
static var E100 = CelloEmpty(E100, Instance(K100, rt_m0, rt_m1), Instance(K10, rt_m0, rt_m1), Instance(K1, rt_m0, rt_m1));
static var Net = CelloEmpty(Net, Instance(K10, rt_m0, rt_m1));
static var NetE = CelloEmpty(NetE, Instance(K100, rt_m0, rt_m1), Instance(K1, rt_m0, rt_m1));
#define NSU 7
static const struct { var* objp; const char* name; int n; const char* decl[3]; } SU[NSU] = {
  { &E1, "E1", 2, { "Print", "Pri" } }, { &E10, "E10", 2, { "Pri", "Print" } },
  { &NetError, "NetError", 1, { "Print" } }, { &NetErrorTimeout, "NetErrorTimeout", 1, { "Pri" } },
  { &E100, "E100", 3, { "K100", "K10", "K1" } }, { &Net, "Net", 1, { "K10" } }, { &NetE, "NetE", 2, { "K100", "K1" } },
};
static var PI[NPFX][4 + 2];

/* long names: equal for their first 30..254 bytes.  longname(buf, L, d, c): the first L bytes of a fixed 255-byte text,
   byte d replaced by c (d < 0: unchanged, i.e. a proper prefix of every longer one) */
static const char LONGBASE[] = "Telemetry_Pipeline_Stage_Ingest_Frame_Decoder_Channel_Buffer_Window_Segment_Record_Header_Payload_"
  "Checksum_Trailer_Sequence_Counter_Timestamp_Origin_Target_Route_Priority_Class_Level_Group_Index_Offset_Length_Width_Height_"
  "Depth_Scale_Ratio_Phase_Angle_Limit_End_";
static char* longname(int L, int d, char c) {
  char* b = malloc((size_t)L + 1);
  for (int i = 0; i < L; i++) b[i] = LONGBASE[i % (int)(sizeof LONGBASE - 1)];
  b[L] = 0;
  if (d >= 0 && d < L) b[d] = c;
  return b;
}
static var Telemetry_Pipeline_Stage_Ingest_Frame_Decoder = CelloEmpty(Telemetry_Pipeline_Stage_Ingest_Frame_Decoder);
static var Telemetry_Pipeline_Stage_Ingest_Frame_Encoder = CelloEmpty(Telemetry_Pipeline_Stage_Ingest_Frame_Encoder);
static var Telemetry_Pipeline_Stage_Ingest_Frame = CelloEmpty(Telemetry_Pipeline_Stage_Ingest_Frame);
static var LGI[NLONG][4 + 2];

/*
** mode=names.  A type record is [cache slots]["__Name", name]["__Size", size][{cls, class-name, instance}...][NULL]; the two
** entries in front of the instances have the shape of an instance entry.  Classes called like them (and like other things
** a record could carry) are ordinary classes: statically declared class objects and types that declare instances of them.
*/
struct __Name { void (*m0)(var); void (*m1)(var); };
struct __Size { void (*m0)(var); void (*m1)(var); };
struct BkDeclN { int64_t a, b; };
struct BkDeclS { int64_t a, b, c; };
static var __Name = Cello(__Name);                   /* a class object (and a type) whose own name is "__Name", size 16 */
static var __Size = CelloEmpty(__Size);
static var BkDeclN = Cello(BkDeclN, Instance(__Name, rt_m0, rt_m1));
static var BkDeclS = Cello(BkDeclS, Instance(Pri, rt_m0, rt_m1), Instance(__Size, rt_m0, NULL));
static var BkDeclNS = CelloEmpty(BkDeclNS, Instance(__Size, rt_m0, rt_m1), Instance(__Name, NULL, rt_m1));
static var BkNone = Cello(BkDeclN);                  /* declares nothing; named like another type */
static const char* const BKN[NBK] = { "__Name", "__Size", "__", "__Type", "__Cache", "__Parent", "__Methods", "__Header",
  "__name", "__size", "__Nam", "__Name_", "__Siz", "__Size_", "", "_", "__Name", "__Size" };   /* the last two: the static class objects */
static var BKI[NBK][4 + 2];
static var OWI[2][4 + 2];

/* the raw record, as Cello.h lays it out */
static struct Type* rec_triples(var T) { return (struct Type*)((var*)T + NCACHE); }

static const char* raw_name_of(var T) {
  struct Type* t = rec_triples(T);
  if (!t[0].name || strcmp((char*)t[0].name, "__Name") != 0) return NULL;
  return (const char*)t[0].inst;
}

/* ORACLE: the triple a type declares for the class called cname, by NAME only */
static struct Type* raw_scan(var T, const char* cname) {
  struct Type* t = rec_triples(T) + 2;
  for (; t->name; t++) if (strcmp((const char*)t->name, cname) == 0) return t;
  return NULL;
}

static int find_class(const char* nm) {
  for (int c = 0; c < NU; c++) if (U[c].name && strcmp(U[c].name, nm) == 0) return c;
  return -1;
}

static int find_member(int c, const char* nm) {
  for (int j = 0; j < U[c].nmem; j++) if (strcmp(U[c].mname[j], nm) == 0) return j;
  return -1;
}

static void set_member(const char* cn, const char* mn, var fn) {
  int c = find_class(cn); int j = c >= 0 ? find_member(c, mn) : -1;
  if (j < 0) fatal("no member %s.%s", cn, mn);
  for (int v = 0; v < 2; v++) {
    var* body = U[c].inst[v];
    if (v == 1 && j == 0) continue;           /* variant 1 leaves member 0 empty */
    body[j] = fn;
  }
}

static var new_type_raw(const char* nm, size_t sz, var* insts, int n, int managed) {
  var items[2 + MAXINST + 2];
  if (n > MAXINST + 1) fatal("too many instances");
  items[0] = $S((char*)nm);
  items[1] = $I((int64_t)sz);
  for (int i = 0; i < n; i++) items[2 + i] = insts[i];
  items[2 + n] = Terminal;
  var args = $(Tuple, items);
  return managed == 2 ? new_root_with(Type, args) : managed ? new_with(Type, args) : new_raw_with(Type, args);
}

static void setup_universe(void) {
  if (sizeof(struct Header) > 4 * sizeof(var)) fatal("struct Header larger than expected");
  for (int c = 0; c < NBC; c++) {
    struct ucls* u = &U[c];
    u->obj = *BCL[c].objp;
    u->name = BCL[c].name;
    u->slot = -1;
    int k = 0;
    while (k < MAXMEM && BCL[c].m[k].n) { u->off[k] = BCL[c].m[k].off; u->mname[k] = BCL[c].m[k].n; k++; }
    u->nmem = k;
    /* the struct consists of exactly these members (all pointers) */
    if ((size_t)k * sizeof(var) != BCL[c].size) fatal("struct %s: %d members listed, sizeof says %zu", u->name, k, BCL[c].size / sizeof(var));
    for (int j = 0; j < k; j++) if (u->off[j] != (size_t)j * sizeof(var)) fatal("struct %s: member %s at unexpected offset", u->name, u->mname[j]);
    /* the class's own name, read from its raw record */
    const char* rn = raw_name_of(u->obj);
    if (!rn || strcmp(rn, u->name) != 0) fatal("class object %s names itself %s", u->name, rn ? rn : "(no __Name triple)");
    for (int v = 0; v < 2; v++) {
      var* body = header_init(BI[c][v], u->obj, AllocStatic);
      for (int j = 0; j < k; j++) body[j] = (v == 1 && j == 0) ? NULL : (var)stub_fn;
      u->inst[v] = body;
    }
  }
  set_member("Size", "size", (var)my_size);
  set_member("Alloc", "alloc", (var)my_alloc);
  set_member("Alloc", "dealloc", (var)my_dealloc);
  set_member("New", "construct_with", (var)my_construct);
  set_member("New", "destruct", (var)my_destruct);
  set_member("Cast", "cast", (var)my_cast);
  set_member("Doc", "name", (var)my_docname);
  cast_sentinel = header_init(cast_sentinel_buf, Int, AllocStatic);
}

static void setup_rt_classes(void) {
  for (int k = 0; k < NRC; k++) {
    struct ucls* u = &U[NBC + k];
    snprintf(rcname[k], sizeof rcname[k], "Rt%03d", k);
    /* the size a class object records says nothing about its instances: 0 (like CelloEmpty), one member's worth, or the struct */
    u->obj = new_type_raw(rcname[k], (k & 3) == 3 ? 0 : (k & 3) == 2 ? sizeof(var) : sizeof(struct RtC), NULL, 0, 0);
    u->name = rcname[k];
    u->nmem = 2; u->off[0] = offsetof(struct RtC, m0); u->off[1] = offsetof(struct RtC, m1);
    u->mname[0] = "m0"; u->mname[1] = "m1";
    u->slot = -1;
    struct RtC* body = header_init(RI[k], u->obj, AllocStatic);
    body->m0 = rt_m0; body->m1 = (k & 1) ? rt_m1 : NULL;
    u->inst[0] = u->inst[1] = body;
    if (k < NALT) {
      struct RtC* b2 = header_init(RI2[k], u->obj, AllocStatic);
      b2->m0 = rt_m0; b2->m1 = (k & 1) ? NULL : rt_m1;
      alt_rt[k] = b2;
    }
  }
}

static void setup_prefix_classes(void) {
  static var* const cls[NPFX] = { &K1, &K10, &K100, &Pri, &Print };
  static const char* const nm[NPFX] = { "K1", "K10", "K100", "Pri", "Print" };
  for (int k = 0; k < NPFX; k++) {
    struct ucls* u = &U[PF0 + k];
    u->obj = *cls[k]; u->name = nm[k];
    const char* rn = raw_name_of(u->obj);
    if (!rn || strcmp(rn, nm[k]) != 0) fatal("prefix class %s names itself %s", nm[k], rn ? rn : "?");
    u->nmem = 2; u->off[0] = offsetof(struct RtC, m0); u->off[1] = offsetof(struct RtC, m1);
    u->mname[0] = "m0"; u->mname[1] = "m1"; u->slot = -1;
    struct RtC* body = header_init(PI[k], u->obj, AllocStatic);
    body->m0 = rt_m0; body->m1 = rt_m1;
    u->inst[0] = u->inst[1] = body;
  }
}

static void setup_long_classes(void) {
  /* two 40-byte names that differ at byte 33, a 64-byte name that is a prefix of a 100-byte one, two 255-byte names
     that differ in the last byte */
  char* nm[NLONG] = { longname(40, 33, 'a'), longname(40, 33, 'b'), longname(64, -1, 0), longname(100, -1, 0), longname(255, 254, 'a'), longname(255, 254, 'b') };
  for (int k = 0; k < NLONG; k++) {
    struct ucls* u = &U[LG0 + k];
    u->obj = new_type_raw(nm[k], (k & 1) ? 0 : sizeof(struct RtC), NULL, 0, 0);
    u->name = nm[k];
    u->nmem = 2; u->off[0] = offsetof(struct RtC, m0); u->off[1] = offsetof(struct RtC, m1);
    u->mname[0] = "m0"; u->mname[1] = "m1"; u->slot = -1;
    struct RtC* body = header_init(LGI[k], u->obj, AllocStatic);
    body->m0 = rt_m0; body->m1 = rt_m1;
    u->inst[0] = u->inst[1] = body;
  }
  U[RC0].name = ""; U[RC0 + 1].name = "";
}

/* an instance object for class c that differs from U[c].inst[0] (for a built-in class its first member is empty) */
static var alt_inst(int c) {
  if (c < NBC) return U[c].inst[1];
  if (c - NBC < NALT) return alt_rt[c - NBC];
  fatal("no alternative instance for class %d", c);
  return NULL;
}

/* which classes have a cache slot?  found by experiment, not taken from Type.c */
static int ncached; static int cached_by_slot[64];
static void discover_cache(void) {
  char map[1024]; size_t o = 0; map[0] = 0;
  for (int i = 0; i < 64; i++) cached_by_slot[i] = -1;
  for (int c = 0; c < NBC; c++) {
    var T = new_type_raw("Probe", 8, &U[c].inst[0], 1, 0);
    type_instance(T, U[c].obj);
    for (int i = 0; i < NCACHE; i++) if (((var*)T)[i]) { U[c].slot = i; cached_by_slot[i] = c; }
    del_raw(T);
    if (U[c].slot >= 0) { ncached++; o += snprintf(map + o, sizeof map - o, "%s%s:%d", o ? "," : "", U[c].name, U[c].slot); }
  }
  vf_extra("cache_slots_discovered", "\"%s\"", map);
}

/* ---- type under test ----------------------------------------------------------------- */

struct tut {
  var T; var obj; const char* name;
  int ti;                      /* index in TYS, or -1 for a run-time type */
  int n; const int* comp; const int* vr;   /* run-time: declared (class, variant) list */
  const var* insts;            /* run-time: the instance objects handed to new(Type, ...), in order */
  int user_static;             /* a type the harness declares statically over its own classes (model = declaration) */
};

static var OBJ[sizeof TYS / sizeof TYS[0]][4 + 8];
static struct tut BT[sizeof TYS / sizeof TYS[0]];

static void setup_builtin_tuts(void) {
  for (int i = 0; i < NTY; i++) {
    BT[i].T = *TYS[i].objp; BT[i].name = TYS[i].name; BT[i].ti = i;
    BT[i].obj = header_init(OBJ[i], BT[i].T, AllocStack);
    const char* rn = raw_name_of(BT[i].T);
    if (!rn || strcmp(rn, TYS[i].name) != 0) fatal("type object %s names itself %s", TYS[i].name, rn ? rn : "?");
  }
  if (BT[TI_TYPE].T != Type) fatal("TYS[0] must be Type");
}

/* the name and inst fields of a static record never change, so the oracle's walk is done once per (type, class) */
static struct Type* TRIPC[sizeof TYS / sizeof TYS[0]][NBC];
static char TRIPC_known[sizeof TYS / sizeof TYS[0]][NBC];

/* what the type declares for class c: instance pointer or NULL; *trip = raw triple */
static var declared(struct tut* t, int c, struct Type** trip) {
  struct Type* r;
  if (t->ti >= 0 && c < NBC) {
    if (!TRIPC_known[t->ti][c]) { TRIPC[t->ti][c] = raw_scan(t->T, U[c].name); TRIPC_known[t->ti][c] = 1; }
    r = TRIPC[t->ti][c];
  } else r = raw_scan(t->T, U[c].name);
  if (trip) *trip = r;
  if (t->ti >= 0) return r ? r->inst : NULL;
  /* a class is identified by its NAME (any class object of that name asks for the same entry) */
  for (int i = 0; i < t->n; i++) if (t->comp[i] == c || strcmp(U[t->comp[i]].name, U[c].name) == 0) return t->insts[i];
  return NULL;
}

/* ---- memo configuration of a record (for counting states; never used by the oracle) -- */

struct cfg { uint64_t memo; uint32_t cache; int hdr; int pop; };

static void get_cfg(var T, struct cfg* s) {
  s->memo = 0; s->cache = 0; s->pop = 0;
  for (int i = 0; i < NCACHE; i++) if (((var*)T)[i]) { s->cache |= 1u << i; s->pop++; }
  struct Type* t = rec_triples(T);
  for (int i = 0; t[i].name; i++) if (t[i].cls) { if (i < 64) s->memo |= 1ull << i; s->pop++; }
  s->hdr = ((struct Header*)((char*)T - sizeof(struct Header)))->type != NULL;
  s->pop += s->hdr;
}

/* interning of (type, configuration) */
static struct { uint64_t* k1; uint64_t* k2; uint32_t* id; size_t cap, n; } CT;
static uint64_t mix64(uint64_t x) { x ^= x >> 33; x *= 0xff51afd7ed558ccdULL; x ^= x >> 33; x *= 0xc4ceb9fe1a85ec53ULL; x ^= x >> 33; return x; }

static void ct_grow(void) {
  size_t ocap = CT.cap; uint64_t* o1 = CT.k1; uint64_t* o2 = CT.k2; uint32_t* oi = CT.id;
  CT.cap = ocap ? ocap * 2 : 1 << 16;
  CT.k1 = calloc(CT.cap, sizeof *CT.k1); CT.k2 = calloc(CT.cap, sizeof *CT.k2); CT.id = calloc(CT.cap, sizeof *CT.id);
  for (size_t i = 0; i < ocap; i++) {
    if (!oi[i]) continue;
    size_t j = mix64(o1[i] ^ mix64(o2[i])) & (CT.cap - 1);
    while (CT.id[j]) j = (j + 1) & (CT.cap - 1);
    CT.k1[j] = o1[i]; CT.k2[j] = o2[i]; CT.id[j] = oi[i];
  }
  free(o1); free(o2); free(oi);
}

static uint32_t ct_intern(int ti, const struct cfg* s) {
  if ((CT.n + 1) * 10 > CT.cap * 6) ct_grow();
  uint64_t k1 = s->memo, k2 = ((uint64_t)ti << 32) | ((uint64_t)s->cache << 1) | (uint64_t)s->hdr;
  size_t j = mix64(k1 ^ mix64(k2)) & (CT.cap - 1);
  while (CT.id[j]) {
    if (CT.k1[j] == k1 && CT.k2[j] == k2) return CT.id[j];
    j = (j + 1) & (CT.cap - 1);
  }
  CT.k1[j] = k1; CT.k2[j] = k2; CT.id[j] = (uint32_t)++CT.n;
  return CT.id[j];
}

/* set of 64-bit keys: distinct non-trivial (configuration, lookup) pairs */
static struct { uint64_t* k; size_t cap, n; } NT;
static void nt_grow(void) {
  size_t ocap = NT.cap; uint64_t* o = NT.k;
  NT.cap = ocap ? ocap * 2 : 1 << 16;
  NT.k = calloc(NT.cap, sizeof *NT.k);
  for (size_t i = 0; i < ocap; i++) {
    if (!o[i]) continue;
    size_t j = mix64(o[i]) & (NT.cap - 1);
    while (NT.k[j]) j = (j + 1) & (NT.cap - 1);
    NT.k[j] = o[i];
  }
  free(o);
}
static int nt_put(uint64_t key) {
  if ((NT.n + 1) * 10 > NT.cap * 6) nt_grow();
  size_t j = mix64(key) & (NT.cap - 1);
  while (NT.k[j]) { if (NT.k[j] == key) return 0; j = (j + 1) & (NT.cap - 1); }
  NT.k[j] = key; NT.n++;
  return 1;
}

/* ---- entry points ------------------------------------------------------------------------ */

enum { EP_TINST, EP_INST, EP_TIMPL, EP_IMPL, EP_TIMPLM, EP_IMPLM, EP_TMETH, EP_METH,
       EP_INST_T, EP_IMPL_T, EP_IMPLM_T, EP_METH_T, EP_TYPEOF_T, NEP };
static const char* EPN[NEP] = { "type_instance", "instance", "type_implements", "implements",
  "type_implements_method", "implements_method", "type_method", "method",
  "instance@typeobj", "implements@typeobj", "implements_method@typeobj", "method@typeobj", "type_of@typeobj" };
static int ep_has_member(int ep) { return ep == EP_TIMPLM || ep == EP_IMPLM || ep == EP_TMETH || ep == EP_METH || ep == EP_IMPLM_T || ep == EP_METH_T; }
static int ep_on_typeobj(int ep) { return ep >= EP_INST_T; }

struct lk { short ci; signed char ep, mi; };
#define MAXH 4096
static struct lk H[MAXH];
static int HN;
static volatile int h_pos, h_first;
static int h_restore;                 /* 0 none, 1 the type under test (+ Type), 2 every exported type */
static var g_ret; static int g_bool;
static int h_viol;
static int count_states;              /* this mode contributes to vf.states */
static int is_rt;
static int acct_ti = -1;              /* >= 0: a run-time / user type whose configurations are interned like those of the exported types (mode=names) */
#define ACCT     (!is_rt || acct_ti >= 0)
#define ACCT_TI(t) (is_rt ? acct_ti : (t)->ti)
static uint64_t rt_state_changes, configs_seen;
static int rt_count_nontrivial;

/* configuration left by the previous lookup of this history, when nothing ran in between */
static struct cfg cur_cfg; static uint32_t cur_cfg_id; static int cur_cfg_valid;

/* expectation of the lookup in progress (computed before the call, from name/declaration only) */
static struct { var inst; var memb; int present; int memo_cold; struct cfg before; uint32_t before_id; var T; int ti; } X;

static void build_cur_hist(struct tut* t) {
  char* p = vf_cur;
  char* end = vf_cur + sizeof vf_cur - 96;
  p = stpcpy(p, "hist type="); p = stpcpy(p, t->name); p = stpcpy(p, " ops=");
  for (int i = 0; i < HN && p < end; i++) {
    if (i) *p++ = ',';
    p = stpcpy(p, U[H[i].ci].name); *p++ = '.';
    p = stpcpy(p, EPN[H[i].ep]); *p++ = '.';
    p = stpcpy(p, H[i].mi >= 0 ? U[H[i].ci].mname[H[i].mi] : "-");
  }
  if (p >= end) p = stpcpy(p, ",...");
  *p = 0;
  vf_cur_valid = 1;
}

static const char* h_desc;            /* compact replayable description instead of the op list */
static char lab[256];
static const char* mklabel(struct tut* t, struct lk* k, const char* symptom) {
  const char* pres = !X.present ? "absent-class" : (ep_has_member(k->ep) && !X.memb) ? "empty-member" : "present";
  /* Terminal is the one type object that cannot travel in an argument tuple (it ends it): a feature of the input */
  snprintf(lab, sizeof lab, "dispatch/%s/%s/%s/%s/%s", t->user_static ? "static-user-type" : t->ti < 0 ? "runtime-type" : t->T == Terminal ? "static-type:Terminal" : "static-type", EPN[k->ep], pres,
    !X.present ? "-" : X.memo_cold < 0 ? "not-in-record" : X.memo_cold ? "cold" : "warm", symptom);
  return lab;
}

static const char* inst_desc(struct tut* t, var inst, char* buf, size_t cap) {
  /* describe an instance pointer without printing an address: which class's instance is it? */
  if (!inst) return "none";
  var T = ep_on_typeobj(H[h_pos].ep) ? Type : t->T;
  for (struct Type* r = rec_triples(T) + 2; r->name; r++) if (r->inst == inst) { snprintf(buf, cap, "the instance declared for %s", (char*)r->name); return buf; }
  if (inst == rec_triples(T)[0].inst) return "the type's NAME string (the inst field of the \"__Name\" entry that precedes the instances)";
  if (inst == rec_triples(T)[1].inst) return "the type's SIZE as a pointer (the inst field of the \"__Size\" entry that precedes the instances)";
  return "a pointer the type does not declare";
}

static void prepare(struct tut* t, struct lk* k) {
  struct Type* trip = NULL;
  struct tut* src = ep_on_typeobj(k->ep) ? &BT[TI_TYPE] : t;
  if (k->ep == EP_TYPEOF_T) { X.inst = Type; X.present = 1; X.memb = NULL; X.memo_cold = ((struct Header*)((char*)t->T - sizeof(struct Header)))->type == NULL; }
  else {
    X.inst = declared(src, k->ci, &trip);
    X.present = X.inst != NULL;
    X.memb = (X.present && k->mi >= 0) ? *(var*)((char*)X.inst + U[k->ci].off[k->mi]) : NULL;
    X.memo_cold = trip ? trip->cls == NULL : -1;
    if (src->ti < 0 && (trip ? trip->inst : NULL) != X.inst) {
      vf_violation("dispatch/runtime-type/record/differs-from-declared-list", NULL,
        "the record built by new(Type, ...) holds %s for class %s, the argument list declares %s",
        trip ? "another instance" : "nothing", U[k->ci].name, X.inst ? "an instance" : "nothing");
      h_viol++;
    }
  }
  if (cur_cfg_valid) { X.before = cur_cfg; X.before_id = cur_cfg_id; }
  else {
    get_cfg(t->T, &X.before);
    X.before_id = ACCT ? ct_intern(ACCT_TI(t), &X.before) : 0;
  }
}

static void do_call(struct tut* t, struct lk* k) {
  var C = U[k->ci].obj;
  size_t off = k->mi >= 0 ? U[k->ci].off[k->mi] : 0;
  const char* mn = k->mi >= 0 ? U[k->ci].mname[k->mi] : "-";
  g_ret = NULL; g_bool = -1;
  switch (k->ep) {
  case EP_TINST:   g_ret = type_instance(t->T, C); break;
  case EP_INST:    g_ret = instance(t->obj, C); break;
  case EP_TIMPL:   g_bool = type_implements(t->T, C); break;
  case EP_IMPL:    g_bool = implements(t->obj, C); break;
  case EP_TIMPLM:  g_bool = type_implements_method_at_offset(t->T, C, off); break;
  case EP_IMPLM:   g_bool = implements_method_at_offset(t->obj, C, off); break;
  case EP_TMETH:   g_ret = type_method_at_offset(t->T, C, off, mn); break;
  case EP_METH:    g_ret = method_at_offset(t->obj, C, off, mn); break;
  case EP_INST_T:  g_ret = instance(t->T, C); break;
  case EP_IMPL_T:  g_bool = implements(t->T, C); break;
  case EP_IMPLM_T: g_bool = implements_method_at_offset(t->T, C, off); break;
  case EP_METH_T:  g_ret = method_at_offset(t->T, C, off, mn); break;
  case EP_TYPEOF_T: g_ret = type_of(t->T); break;
  }
}

/* judge the outcome of lookup k (exc = exception it raised, or NULL) and account for it */
static char seen_outcome[NEP][5];      /* distinct (entry point, kind of answer) observed: instance/none/true/false/raised */
static void judge(struct tut* t, struct lk* k, var exc) {
  char b1[96], b2[96];
  int bad = 0;
  int returns_inst = !(k->ep == EP_TIMPL || k->ep == EP_IMPL || k->ep == EP_TIMPLM || k->ep == EP_IMPLM || k->ep == EP_IMPL_T || k->ep == EP_IMPLM_T);
  int is_meth = k->ep == EP_TMETH || k->ep == EP_METH || k->ep == EP_METH_T;
  int must_raise = is_meth && !(X.present && X.memb);
  const char* what = k->ep == EP_TYPEOF_T ? "type_of" : U[k->ci].name;
  if (exc) {
    if (!must_raise) {
      char sym[96]; snprintf(sym, sizeof sym, "raised-%s", vf_exc_name(exc));
      vf_violation(mklabel(t, k, sym), NULL, "lookup #%d %s(%s) raised %s; the type declares %s", h_pos, EPN[k->ep], what, vf_exc_name(exc), X.present ? "an instance" : "none (the answer is NULL/false)");
      bad = 1;
    } else if (exc != ClassError) {
      char sym[96]; snprintf(sym, sizeof sym, "raised-%s-not-ClassError", vf_exc_name(exc));
      vf_violation(mklabel(t, k, sym), NULL, "lookup #%d %s(%s.%s) raised %s, ClassError expected", h_pos, EPN[k->ep], what, U[k->ci].mname[k->mi], vf_exc_name(exc));
      bad = 1;
    }
  } else if (must_raise) {
    vf_violation(mklabel(t, k, "no-classerror"), NULL, "lookup #%d %s(%s.%s) returned %s instead of raising ClassError (%s)", h_pos, EPN[k->ep], what, U[k->ci].mname[k->mi],
      inst_desc(t, g_ret, b1, sizeof b1), X.present ? "the declared instance leaves this member empty" : "the type does not declare this class");
    bad = 1;
  } else if (returns_inst) {
    if (g_ret != X.inst) {
      const char* sym = !X.present ? "reports-an-instance" : !g_ret ? "reports-none" : "wrong-instance";
      if (k->ep == EP_TYPEOF_T) vf_violation(mklabel(t, k, "not-Type"), NULL, "lookup #%d type_of(type object) is not Type", h_pos);
      else vf_violation(mklabel(t, k, sym), NULL, "lookup #%d %s(%s) returned %s; declared: %s", h_pos, EPN[k->ep], what, inst_desc(t, g_ret, b1, sizeof b1), inst_desc(t, X.inst, b2, sizeof b2));
      bad = 1;
    }
  } else {
    int expb = ep_has_member(k->ep) ? (X.present && X.memb != NULL) : X.present;
    if (g_bool != expb) {
      vf_violation(mklabel(t, k, expb ? "says-false" : "says-true"), NULL, "lookup #%d %s(%s%s%s) = %d, expected %d", h_pos, EPN[k->ep], what,
        k->mi >= 0 ? "." : "", k->mi >= 0 ? U[k->ci].mname[k->mi] : "", g_bool, expb);
      bad = 1;
    }
  }
  if (bad) h_viol++;
  vf.transitions++;
  {
    int kind = exc ? 4 : returns_inst ? (g_ret ? 0 : 1) : (g_bool ? 2 : 3);
    if (!seen_outcome[k->ep][kind]) { seen_outcome[k->ep][kind] = 1; vf.outcomes++; }
  }
  /* accounting */
  struct cfg after; get_cfg(t->T, &after);
  int changed = after.pop != X.before.pop || after.memo != X.before.memo || after.cache != X.before.cache || after.hdr != X.before.hdr;
  int nontriv = changed || !X.present || must_raise;
  cur_cfg = after; cur_cfg_id = 0;
  cur_cfg_valid = exc == NULL;          /* after a raise the harness's own catch/try run before the next lookup */
  if (ACCT) {
    cur_cfg_id = changed ? ct_intern(ACCT_TI(t), &after) : X.before_id;
    if (changed && is_rt) rt_state_changes++;
    if (nontriv) nt_put(((uint64_t)X.before_id << 24) | ((uint64_t)k->ci << 12) | ((uint64_t)k->ep << 8) | (uint64_t)(k->mi + 1));
  } else {
    if (changed) rt_state_changes++;
    if (nontriv && rt_count_nontrivial) vf.nontrivial++;
  }
}

/*
** Execute H[0..HN) on t.  Lookups run inside one try block (so the harness's own use of the
** exception machinery does not touch the cold type before the first lookup); a raising
** lookup ends the block, is judged, and the history continues in a new block.
*/
static int run_history(struct tut* t) {
  h_pos = 0; h_first = 1; h_viol = 0; cur_cfg_valid = 0;
  if (!is_rt) {                           /* a run-time case keeps its own (replayable) description */
    if (h_desc) vf_set_cur("%s", h_desc);
    else build_cur_hist(t);
  }
  while (h_pos < HN) {
    try {
      if (h_first) {
        h_first = 0;
        if (h_restore == 2) restore_world();
        else if (h_restore == 1) { restore_type(TI_TYPE); if (t->ti > 0) restore_type(t->ti); }
        if (ACCT) { get_cfg(t->T, &cur_cfg); cur_cfg_id = ct_intern(ACCT_TI(t), &cur_cfg); cur_cfg_valid = 1; }
      }
      while (h_pos < HN) {
        prepare(t, &H[h_pos]);
        do_call(t, &H[h_pos]);
        judge(t, &H[h_pos], NULL);
        h_pos++;
      }
    } catch (e) {
      judge(t, &H[h_pos], e);
      h_pos++;
    }
  }
  if (!is_rt) vf.executions++;
  if ((uint64_t)HN > vf.max_depth) vf.max_depth = HN;
  return h_viol;
}

static void push_op(int ci, int ep, int mi) {
  if (HN >= MAXH) fatal("history too long");
  H[HN].ci = (short)ci; H[HN].ep = (signed char)ep; H[HN].mi = (signed char)(ep_has_member(ep) ? mi : -1); HN++;
}

/* member used in a history position: first empty member the type leaves in that class, else the last member */
static int probe_member(struct tut* t, int ci, int ep) {
  struct tut* src = ep_on_typeobj(ep) ? &BT[TI_TYPE] : t;
  var inst = declared(src, ci, NULL);
  if (inst) for (int j = 0; j < U[ci].nmem; j++) if (*(var*)((char*)inst + U[ci].off[j]) == NULL) return j;
  return U[ci].nmem - 1;
}

static int shard_i, shard_n;
static int in_shard(int ti) { return shard_n <= 1 || ti % shard_n == shard_i; }

static void finish_static_counts(void) {
  configs_seen = CT.n;
  if (count_states) vf.states = CT.n;
  vf.nontrivial = NT.n;
  vf_extra("configurations_seen", "%" PRIu64, configs_seen);
}

/* ---- mode=matrix -------------------------------------------------------------------------- */

static void mode_matrix(void) {
  vf.phase = "matrix";
  h_restore = 2;
  uint64_t cells = 0, present_cells = 0, empty_member_cells = 0;
  int only_fail = vf_param_is("only", "fail", "all");
  int warm = (int)vf_param_i("warm", 0);
  for (int ti = 0; ti < NTY; ti++) {
    if (!in_shard(ti)) continue;
    struct tut* t = &BT[ti];
    for (int ep = 0; ep < NEP; ep++) {
      for (int ci = 0; ci < NBC; ci++) {
        if (ep == EP_TYPEOF_T && ci > 0) break;
        int nm = ep_has_member(ep) ? U[ci].nmem : 1;
        for (int mi = 0; mi < nm; mi++) {
          if (only_fail) {
            /* only the cells the type cannot answer: class absent, or member left empty */
            struct tut* src = ep_on_typeobj(ep) ? &BT[TI_TYPE] : t;
            var di = ep == EP_TYPEOF_T ? (var)Type : declared(src, ci, NULL);
            if (di && !(ep_has_member(ep) && *(var*)((char*)di + U[ci].off[mi]) == NULL)) continue;
          }
          HN = 0; push_op(ci, ep, mi); push_op(ci, ep, mi);
          vf_watchdog(60);
          run_history(t);
          if (vf_want_sample()) vf_sample("%s", vf_cur);
          if (warm) {
            /* the same cell after every OTHER class has been looked up successfully or not (all caches warm) */
            HN = 0;
            for (int c2 = 0; c2 < NBC; c2++) if (c2 != ci) { push_op(c2, EP_TINST, -1); if (ep_on_typeobj(ep)) push_op(c2, EP_INST_T, -1); }
            push_op(ci, ep, mi);
            run_history(t);
          }
          cells++; vf.evaluations++;
          if (X.present) present_cells++;
          if (X.present && ep_has_member(ep) && !X.memb) empty_member_cells++;
        }
      }
    }
  }
  if (vf_param_i("pairs", 0)) {
    /* back-to-back dispatches on one (type, class) that the type implements only in part: a member it has, then one it
       leaves empty - nothing else is called in between (one try block) - and the longer patterns around that */
    uint64_t npairs = 0;
    static const int meps[] = { EP_TMETH, EP_METH };
    for (int ti = 0; ti < NTY; ti++) {
      if (!in_shard(ti)) continue;
      struct tut* t = &BT[ti];
      for (int ci = 0; ci < NBC; ci++) {
        var di = declared(t, ci, NULL);
        if (!di) continue;
        for (int p = 0; p < U[ci].nmem; p++) for (int q = 0; q < U[ci].nmem; q++) {
          if (*(var*)((char*)di + U[ci].off[p]) == NULL || *(var*)((char*)di + U[ci].off[q]) != NULL) continue;
          for (int e = 0; e < 2; e++) for (int pat = 0; pat < 6; pat++) {
            int ep = meps[e], ep2 = meps[1 - e];
            HN = 0;
            switch (pat) {
            case 0: push_op(ci, ep, p); push_op(ci, ep, q); break;                                  /* present ; empty */
            case 1: push_op(ci, ep, q); push_op(ci, ep, p); push_op(ci, ep, q); break;                /* empty ; present ; empty */
            case 2: push_op(ci, ep, p); push_op(ci, EP_METH_T, 0); push_op(ci, ep, q); break;         /* the same class on another type in between */
            case 3: push_op(ci, ep, p); push_op(ci, ep, p); push_op(ci, ep, q); push_op(ci, ep, p); push_op(ci, ep, q); break;
            case 4: push_op(ci, ep, p); push_op(ci, ep2, q); break;                                   /* through the other entry point */
            default: push_op(ci, EP_TIMPLM, p); push_op(ci, ep, p); push_op(ci, EP_IMPLM, q); push_op(ci, ep, q); break;
            }
            vf_watchdog(60);
            run_history(t);
            npairs++; vf.evaluations++;
            if (vf_want_sample()) vf_sample("%s", vf_cur);
          }
        }
      }
    }
    vf_extra("partial_class_dispatch_sequences", "%" PRIu64, npairs);
  }
  vf_extra("matrix_cells", "%" PRIu64, cells);
  vf_extra("matrix_cells_class_present", "%" PRIu64, present_cells);
  vf_extra("matrix_cells_empty_member", "%" PRIu64, empty_member_cells);
  finish_static_counts();
}

/* ---- mode=hist ------------------------------------------------------------------------------ */

static int eps_list[NEP], neps;

static void parse_eps(const char* s) {
  neps = 0;
  while (*s) {
    int v = (int)strtol(s, (char**)&s, 10);
    if (v >= 0 && v < NEP && neps < NEP) eps_list[neps++] = v;
    if (*s == ',') s++;
  }
}

static void mode_hist(int depth) {
  vf.phase = "hist";
  h_restore = 1;
  count_states = 1;
  /* alphabet: simplest first (entry point major, class minor) */
  static struct { short ci; signed char ep; } A[NEP * NBC];
  int na = 0;
  for (int e = 0; e < neps; e++) for (int ci = 0; ci < NBC; ci++) {
    if (eps_list[e] == EP_TYPEOF_T && ci > 0) break;
    A[na].ci = (short)ci; A[na].ep = (signed char)eps_list[e]; na++;
  }
  vf_extra("alphabet", "%d", na);
  for (int ti = 0; ti < NTY; ti++) {
    if (!in_shard(ti)) continue;
    struct tut* t = &BT[ti];
    static signed char pm[NEP][NBC];
    for (int e = 0; e < NEP; e++) for (int ci = 0; ci < NBC; ci++) pm[e][ci] = (signed char)probe_member(t, ci, e);
    int idx[3] = { 0, 0, 0 };
    for (idx[0] = 0; idx[0] < na; idx[0]++) {
      vf_watchdog(300);
      if (vf_deadline_hit()) goto out;
      for (idx[1] = 0; idx[1] < na; idx[1]++) {
        for (idx[2] = 0; idx[2] < (depth >= 3 ? na : 1); idx[2]++) {
          HN = 0;
          for (int d = 0; d < depth; d++) push_op(A[idx[d]].ci, A[idx[d]].ep, d == 0 ? 0 : pm[A[idx[d]].ep][A[idx[d]].ci]);
          run_history(t);
          if (vf_want_sample()) vf_sample("%s", vf_cur);
        }
      }
    }
  }
out:
  finish_static_counts();
}

/* ---- mode=long ------------------------------------------------------------------------------- */

static void mode_long(int rot_step) {
  vf.phase = "long";
  h_restore = 1;
  static const int verify_eps[] = { EP_TINST, EP_IMPL, EP_TIMPLM, EP_METH, EP_INST_T };
  char rtype[64] = ""; int r_ep = -1, r_rot = -1, r_dir = -1;
  if (vf.replay && sscanf(vf.replay, "long type=%63s ep=%d rot=%d dir=%d", rtype, &r_ep, &r_rot, &r_dir) != 4) fatal("bad long replay string");
  for (int ti = 0; ti < NTY; ti++) {
    if (vf.replay ? strcmp(rtype, TYS[ti].name) != 0 : !in_shard(ti)) continue;
    struct tut* t = &BT[ti];
    for (int ep = 0; ep < NEP; ep++) {
      if (ep == EP_TYPEOF_T) continue;
      for (int rot = 0; rot < NBC; rot += (vf.replay ? 1 : rot_step)) {
        for (int dir = 0; dir < 2; dir++) {
          if (vf.replay && (ep != r_ep || rot != r_rot || dir != r_dir)) continue;
          char desc[256];
          snprintf(desc, sizeof desc, "long type=%s ep=%d rot=%d dir=%d (cold; %s of all %d classes starting at %s going %s; then type_instance/implements/type_implements_method/method/instance@typeobj of all classes)",
            TYS[ti].name, ep, rot, dir, EPN[ep], NBC, U[dir ? (NBC - 1 + rot) % NBC : rot % NBC].name, dir ? "down" : "up");
          h_desc = desc;
          HN = 0;
          for (int i = 0; i < NBC; i++) { int ci = ((dir ? NBC - 1 - i : i) + rot) % NBC; push_op(ci, ep, probe_member(t, ci, ep)); }
          for (size_t v = 0; v < sizeof verify_eps / sizeof verify_eps[0]; v++)
            for (int ci = 0; ci < NBC; ci++) push_op(ci, verify_eps[v], v & 1 ? 0 : probe_member(t, ci, verify_eps[v]));
          push_op(0, EP_TYPEOF_T, -1);
          vf_watchdog(60);
          run_history(t);
          if (vf_want_sample()) vf_sample("%s", vf_cur);
          h_desc = NULL;
        }
      }
    }
  }
  finish_static_counts();
}

/* ---- replay of a "hist ..." case ------------------------------------------------------------ */

static void replay_hist(const char* s) {
  char tn[64]; const char* p = strstr(s, "type=");
  if (!p) fatal("bad replay string");
  p += 5; size_t n = strcspn(p, " "); if (n >= sizeof tn) n = sizeof tn - 1;
  memcpy(tn, p, n); tn[n] = 0;
  int ti = -1;
  for (int i = 0; i < NTY; i++) if (strcmp(TYS[i].name, tn) == 0) ti = i;
  if (ti < 0) fatal("replay: unknown type %s", tn);
  p = strstr(s, "ops="); if (!p) fatal("bad replay string");
  p += 4;
  HN = 0;
  while (*p) {
    char tok[128]; n = strcspn(p, ","); if (n >= sizeof tok) n = sizeof tok - 1;
    memcpy(tok, p, n); tok[n] = 0;
    p += n; if (*p == ',') p++;
    if (strcmp(tok, "...") == 0) break;
    char* d1 = strchr(tok, '.'); if (!d1) fatal("bad op %s", tok);
    *d1++ = 0;
    char* d2 = strrchr(d1, '.'); if (!d2) fatal("bad op");
    *d2++ = 0;
    int ci = find_class(tok), ep = -1;
    for (int e = 0; e < NEP; e++) if (strcmp(EPN[e], d1) == 0) ep = e;
    if (ci < 0 || ci >= NBC || ep < 0) fatal("replay: unknown op %s.%s", tok, d1);
    int mi = strcmp(d2, "-") == 0 ? -1 : find_member(ci, d2);
    push_op(ci, ep, mi < 0 ? 0 : mi);
  }
  h_restore = vf_param_is("mode", "matrix", "hist") ? 2 : 1;
  const char* keep = vf.replay; vf.replay = NULL;
  run_history(&BT[ti]);
  vf.replay = keep;
  finish_static_counts();
}

/* ---- mode=cast --------------------------------------------------------------------------------- */

static void mode_cast(void) {
  vf.phase = "cast";
  restore_world();
  for (int as = 0; as < 2; as++) {
    for (int i = 0; i < NTY; i++) {
      for (int j = 0; j < NTY; j++) {
        /* as==0: a harness object whose header says type i; as==1: the type object i itself (its type is Type) */
        var obj = as ? BT[i].T : BT[i].obj;
        var own = as ? Type : BT[i].T;
        var target = BT[j].T;
        vf_set_cur("cast obj=%s as=%s to=%s", TYS[i].name, as ? "typeobj" : "object", TYS[j].name);
        if (vf.replay && strcmp(vf.replay, vf_cur) != 0) continue;
        if (as) restore_type(i);
        vf_watchdog(60);
        volatile var r = NULL;
        var e = VF_CATCH(r = cast(obj, target));
        vf.executions++; vf.evaluations++; vf.transitions++;
        { static char seen[2][3]; int kd = e == NULL ? 0 : e == ValueError ? 1 : 2; if (!seen[target == own][kd]) { seen[target == own][kd] = 1; vf.outcomes++; } }
        char l[160];
        const char* oth = (own == Terminal || target == Terminal) ? "other-type:Terminal" : "other-type";
        if (target == own) {
          if (e) { snprintf(l, sizeof l, "cast/%s/own-type/raised-%s", as ? "typeobj" : "object", vf_exc_name(e)); vf_violation(l, NULL, "cast to the object's own type raised %s", vf_exc_name(e)); }
          else if (r != obj) { snprintf(l, sizeof l, "cast/%s/own-type/returns-other", as ? "typeobj" : "object"); vf_violation(l, NULL, "cast to the object's own type did not return the object"); }
        } else {
          vf.nontrivial++;
          if (!e) { snprintf(l, sizeof l, "cast/%s/%s/no-exception", as ? "typeobj" : "object", oth); vf_violation(l, NULL, "cast to a different type returned %s instead of raising ValueError", r == obj ? "the object" : "something"); }
          else if (e != ValueError) { snprintf(l, sizeof l, "cast/%s/%s/raised-%s", as ? "typeobj" : "object", oth, vf_exc_name(e)); vf_violation(l, NULL, "cast to a different type raised %s, ValueError expected", vf_exc_name(e)); }
        }
        if (vf_want_sample()) vf_sample("%s", vf_cur);
      }
    }
  }

  /* ---- distinct type OBJECTS that share a name: run-time types called like built-in ones, two live run-time types of one
          name and different sizes.  cast succeeds for the object's own type object only, whatever the names say ---------- */
  {
    enum { NS = 8 };
    static var sob[NS][4 + 8];
    var ST[NS]; const char* SN[NS]; var SO[NS];
    ST[0] = Int; SN[0] = "Int"; ST[1] = String; SN[1] = "String"; ST[2] = Array; SN[2] = "Array";
    ST[3] = new_type_raw("Int", 8, NULL, 0, 0); SN[3] = "rt:Int";
    ST[4] = new_type_raw("String", 8, NULL, 0, 0); SN[4] = "rt:String";
    ST[5] = new_type_raw("Array", 48, NULL, 0, 0); SN[5] = "rt:Array";
    ST[6] = new_type_raw("RtSame", 8, NULL, 0, 0); SN[6] = "rt:RtSame/8";
    ST[7] = new_type_raw("RtSame", 16, NULL, 0, 0); SN[7] = "rt:RtSame/16";
    for (int i = 0; i < NS; i++) SO[i] = header_init(sob[i], ST[i], AllocStack);
    SO[0] = new_raw(Int, $I(5)); SO[1] = new_raw(String, $S("ab"));        /* real objects where the type has methods */
    for (int i = 0; i < NS; i++) for (int j = 0; j < NS; j++) {
      vf_set_cur("cast same-name obj=%s to=%s", SN[i], SN[j]);
      if (vf.replay && strcmp(vf.replay, vf_cur) != 0) continue;
      vf_watchdog(60);
      int samename = strcmp(c_str(ST[i]), c_str(ST[j])) == 0;
      volatile var r = NULL;
      var e = VF_CATCH(r = cast(SO[i], ST[j]));
      vf.executions++; vf.evaluations++; vf.transitions++;
      char l[160];
      const char* feat = i == j ? "own-type" : samename ? "other-type-object-of-the-same-name" : "other-type";
      if (i == j) { if (e || r != SO[i]) { snprintf(l, sizeof l, "cast/object/%s/%s", feat, e ? "raised" : "returns-other"); vf_violation(l, NULL, "cast to the object's own type gave %s", e ? vf_exc_name(e) : "another pointer"); } }
      else {
        vf.nontrivial++;
        if (!e) { snprintf(l, sizeof l, "cast/object/%s/no-exception", feat); vf_violation(l, NULL, "cast(object of %s, %s) returned %s; they are different type objects: ValueError expected", SN[i], SN[j], r == SO[i] ? "the object" : "something"); }
        else if (e != ValueError) { snprintf(l, sizeof l, "cast/object/%s/raised-%s", feat, vf_exc_name(e)); vf_violation(l, NULL, "cast raised %s, ValueError expected", vf_exc_name(e)); }
      }
      if (vf_want_sample()) vf_sample("%s", vf_cur);
    }
    /* the container casts: a Table / Tree of Int keys and values offered an object of the run-time type called "Int" */
    static const char* OPN[] = { "set-key", "set-value", "get", "mem", "rem" };
    for (int tr = 0; tr < 2; tr++) for (int op = 0; op < 5; op++) {
      vf_set_cur("cast same-name container=%s op=%s", tr ? "Tree" : "Table", OPN[op]);
      if (vf.replay && strcmp(vf.replay, vf_cur) != 0) continue;
      var c = tr ? (var)new_raw(Tree, Int, Int, $I(0), $I(10), $I(1), $I(11)) : (var)new_raw(Table, Int, Int, $I(0), $I(10), $I(1), $I(11));
      var fo = SO[3];
      var e;
      switch (op) {
      case 0: e = VF_CATCH(set(c, fo, $I(1))); break;
      case 1: e = VF_CATCH(set(c, $I(0), fo)); break;
      case 2: e = VF_CATCH(get(c, fo)); break;
      case 3: e = VF_CATCH(mem(c, fo)); break;
      default: e = VF_CATCH(rem(c, fo)); break;
      }
      vf.executions++; vf.evaluations++; vf.transitions++; vf.nontrivial++;
      char l[160];
      if (e != ValueError && e != TypeError) { snprintf(l, sizeof l, "cast/container/%s/%s/other-type-object-of-the-same-name/%s", tr ? "Tree" : "Table", OPN[op], e ? "wrong-exception" : "no-exception"); vf_violation(l, NULL, "%s with an object of a run-time type that is only NAMED Int gave %s; ValueError expected", OPN[op], vf_exc_name(e)); }
      if (len(c) != 2 || c_int(get(c, $I(0))) != 10 || c_int(get(c, $I(1))) != 11) { snprintf(l, sizeof l, "cast/container/%s/%s/other-type-object-of-the-same-name/container-changed", tr ? "Tree" : "Table", OPN[op]); vf_violation(l, NULL, "the container changed"); }
      var e3 = VF_CATCH(del_raw(c)); (void)e3;
    }
  }
  /* a type whose only job is to answer type_of: the header must still say what header_init wrote */
  for (int i = 0; i < NTY; i++) {
    vf_set_cur("cast obj=%s as=object to=%s", TYS[i].name, TYS[i].name);
    if (type_of(BT[i].obj) != BT[i].T) vf_violation("cast/object/type_of-changed", NULL, "type_of(object) no longer the type written by header_init");
    vf.evaluations++;
  }
  vf.states = 0;
}

/* ---- mode=rt: run-time types ------------------------------------------------------------------- */

static var* R;                         /* stack-resident roots */
static char rt_tname[2][16] = { "RtTypeA", "RtTypeB" };
static int pool[16], npool;

static void build_pool(int want) {
  /* run-time classes and built-in classes with cache slots (first, second, middle, last slot) and without */
  int cand[16], nc = 0;
  int slots[4] = { 0, 1, NCACHE / 2, NCACHE - 1 };
  cand[nc++] = NBC + 0; cand[nc++] = NBC + 1;
  for (int s = 0; s < 4; s++) if (NCACHE > 0 && cached_by_slot[slots[s]] >= 0) {
    int c = cached_by_slot[slots[s]], dup = 0;
    for (int i = 0; i < nc; i++) if (cand[i] == c) dup = 1;
    if (!dup) cand[nc++] = c;
  }
  cand[nc++] = find_class("Doc"); cand[nc++] = find_class("Show");
  cand[nc++] = NBC + 2; cand[nc++] = find_class("Cast");
  cand[nc++] = find_class("New"); cand[nc++] = find_class("Alloc");
  npool = 0;
  for (int i = 0; i < nc && npool < want; i++) {
    int dup = 0;
    for (int k = 0; k < npool; k++) if (pool[k] == cand[i]) dup = 1;
    if (!dup) pool[npool++] = cand[i];
  }
}

static int comp_has(const int* comp, const int* vr, int n, const char* cn, int* variant) {
  int c = find_class(cn);
  for (int i = 0; i < n; i++) if (comp[i] == c) { if (variant) *variant = vr[i]; return 1; }
  return 0;
}

static void api_fail(const char* what, const char* fmt, ...) {
  char l[160], d[400];
  va_list ap; va_start(ap, fmt); vsnprintf(d, sizeof d, fmt, ap); va_end(ap);
  snprintf(l, sizeof l, "dispatch/runtime-type/api/%s", what);
  vf_violation(l, NULL, "%s", d);
}

/* name, size, new, type_of, method(), cast, del on a run-time type, against the declared list */
static void api_checks(struct tut* t, int managed) {
  const int* comp = t->comp; const int* vr = t->vr; int n = t->n; int v;
  var e;
  if (type_of(t->T) != Type) api_fail("type_of-type/not-Type", "type_of(run-time type) is not Type");
  vf.evaluations++;
  const char* expname = (comp_has(comp, vr, n, "Doc", &v) && v == 0) ? "DocName" : t->name;
  volatile const char* gotname = NULL;
  e = VF_CATCH(gotname = name(t->T));
  if (e) api_fail("name/raised", "name(T) raised %s", vf_exc_name(e));
  else if (strcmp((const char*)gotname, expname) != 0) api_fail("name/wrong", "name(T) = \"%s\", expected \"%s\"", (const char*)gotname, expname);
  if (strcmp(c_str(t->T), t->name) != 0) api_fail("c_str/wrong", "c_str(T) = \"%s\", the type was created as \"%s\"", c_str(t->T), t->name);
  vf.evaluations += 2;
  size_t expsize = (comp_has(comp, vr, n, "Size", &v) && v == 0) ? 24 : 40;
  volatile size_t gotsize = 0;
  e = VF_CATCH(gotsize = size(t->T));
  if (e) api_fail("size/raised", "size(T) raised %s", vf_exc_name(e));
  else if (gotsize != expsize) api_fail("size/wrong", "size(T) = %zu, expected %zu (%s)", (size_t)gotsize, expsize, expsize == 24 ? "declared Size instance" : "size given to new(Type)");
  vf.evaluations++;

  int has_alloc = comp_has(comp, vr, n, "Alloc", &v); int alloc_v0 = has_alloc && v == 0;
  int has_new = comp_has(comp, vr, n, "New", &v); int new_v0 = has_new && v == 0;
  int has_cast = comp_has(comp, vr, n, "Cast", &v); int cast_v0 = has_cast && v == 0;
  int64_t a0 = n_alloc, c0 = n_construct, d0 = n_destruct, f0 = n_dealloc, k0 = n_cast;
  rt_cur_type = t->T;
  R[2] = NULL;
  e = VF_CATCH(R[2] = managed ? new_with(t->T, tuple()) : new_raw_with(t->T, tuple()));
  if (e || !R[2]) { api_fail("new/raised", "new(T) raised %s", vf_exc_name(e)); return; }
  var o = R[2];
  if (type_of(o) != t->T) api_fail("new/type_of-differs", "type_of(new(T)) is not T");
  if (n_alloc - a0 != alloc_v0) api_fail("new/alloc-dispatch", "new(T) called the declared Alloc.alloc %d times, expected %d", (int)(n_alloc - a0), alloc_v0);
  if (n_construct - c0 != new_v0) api_fail("new/construct-dispatch", "new(T) called the declared New.construct_with %d times, expected %d", (int)(n_construct - c0), new_v0);
  vf.evaluations += 3;
  /* every declared class through a real object of the type */
  for (int i = 0; i < n && i < 40; i++) {
    if (instance(o, U[comp[i]].obj) != t->insts[i]) api_fail("object/instance-differs", "instance(new(T), %s) is not the declared instance", U[comp[i]].name);
    vf.evaluations++;
  }
  /* the method() macro itself on run-time classes: invoked exactly when declared and non-empty */
  for (int k = 0; k < 4; k++) {
    int ci = NBC + k; var RtC = U[ci].obj;
    int present = 0; for (int i = 0; i < n; i++) if (comp[i] == ci) present = 1;
    int64_t m0 = n_m0, m1 = n_m1; last_self = NULL;
    e = VF_CATCH(method(o, RtC, m0));
    if (present) {
      if (e) api_fail("method/present/raised", "method(obj, %s, m0) raised %s", U[ci].name, vf_exc_name(e));
      else if (n_m0 - m0 != 1 || last_self != o) api_fail("method/present/not-invoked-once", "method(obj, %s, m0) invoked the member %d times", U[ci].name, (int)(n_m0 - m0));
    } else {
      if (e != ClassError) api_fail("method/absent/no-classerror", "method(obj, %s, m0) on a type without that class gave %s", U[ci].name, vf_exc_name(e));
      if (n_m0 != m0 || n_m1 != m1) api_fail("method/absent/invoked", "method(obj, %s, m0) invoked something although the class is absent", U[ci].name);
    }
    m0 = n_m0; m1 = n_m1;
    e = VF_CATCH(method(o, RtC, m1));
    int callable = present && (k & 1);
    if (callable) {
      if (e || n_m1 - m1 != 1) api_fail("method/present/not-invoked-once", "method(obj, %s, m1): exception %s, %d calls", U[ci].name, vf_exc_name(e), (int)(n_m1 - m1));
    } else {
      if (e != ClassError) api_fail(present ? "method/empty-member/no-classerror" : "method/absent/no-classerror", "method(obj, %s, m1) gave %s, ClassError expected", U[ci].name, vf_exc_name(e));
      if (n_m0 != m0 || n_m1 != m1) api_fail("method/empty-or-absent/invoked", "method(obj, %s, m1) invoked something", U[ci].name);
    }
    vf.evaluations += 2;
  }
  /* cast */
  volatile var r = NULL;
  e = VF_CATCH(r = cast(o, t->T));
  if (cast_v0) { if (e || r != CAST_SENTINEL || n_cast - k0 != 1) api_fail("cast/own-cast-instance-not-used", "cast(obj, T) did not go through the declared Cast instance"); }
  else if (e || r != o) api_fail("cast/own-type", "cast(obj, own type) gave %s", e ? vf_exc_name(e) : "another pointer");
  k0 = n_cast;
  e = VF_CATCH(r = cast(o, Int));
  if (cast_v0) { if (e || r != CAST_SENTINEL || n_cast - k0 != 1) api_fail("cast/own-cast-instance-not-used", "cast(obj, Int) did not go through the declared Cast instance"); }
  else if (e != ValueError) api_fail("cast/other-type", "cast(obj of a run-time type, Int) gave %s, ValueError expected", vf_exc_name(e));
  e = VF_CATCH(r = cast($I(1), t->T));
  if (e != ValueError) api_fail("cast/other-type", "cast(Int object, run-time type) gave %s, ValueError expected", vf_exc_name(e));
  vf.evaluations += 3;
  /* del */
  e = VF_CATCH(if (managed) del(o); else del_raw(o));
  R[2] = NULL;
  if (e) api_fail("del/raised", "del(new(T)) raised %s", vf_exc_name(e));
  if (n_destruct - d0 != has_new) api_fail("del/destruct-dispatch", "del called the declared New.destruct %d times, expected %d", (int)(n_destruct - d0), has_new);
  if (n_dealloc - f0 != has_alloc) api_fail("del/dealloc-dispatch", "del called the declared Alloc.dealloc %d times, expected %d", (int)(n_dealloc - f0), has_alloc);
  vf.evaluations += 2;
  if (n_stub) { api_fail("stub-invoked", "a member that no operation asked for was invoked %d times", (int)n_stub); n_stub = 0; }
}

static void decode_perm(int n, int code, int* out) {
  int avail[8], na = n;
  for (int i = 0; i < n; i++) avail[i] = i;
  int f = 1; for (int i = 2; i < n; i++) f *= i;           /* (n-1)! */
  for (int i = 0; i < n; i++) {
    int q = f ? code / f : 0; if (f) code %= f;
    out[i] = avail[q];
    for (int k = q; k < na - 1; k++) avail[k] = avail[k + 1];
    na--;
    if (n - 1 - i > 0) f /= (n - 1 - i);
  }
}

/*
** one run-time type.  kind 0: the classes of pool-subset `subset` in permutation `perm`;
** kind 1: the base list for n (cached built-in classes interleaved with run-time classes)
** rotated by `perm`; kind 2: as 1, reversed before rotating.
** variant 0/1: every instance object is variant 0/1 (1 = first member empty); 2: alternating.
** order 0/1: classes looked up ascending / descending;  api first when perm is odd.
*/
static void run_rt_case(int n, int kind, unsigned subset, int perm, int variant, int order, int managed) {
  static int comp[MAXINST + 2], vr[MAXINST + 2], base[MAXINST + 2];
  static var insts[MAXINST + 2];
  vf_set_cur("rt n=%d kind=%d subset=%u perm=%d variant=%d order=%d managed=%d", n, kind, subset, perm, variant, order, managed);
  if (vf.replay && strcmp(vf.replay, vf_cur) != 0) return;
  char casebuf[160]; snprintf(casebuf, sizeof casebuf, "%s", vf_cur);
  vf_watchdog(120);
  int nb = 0;
  if (kind == 0) {
    for (int i = 0; i < npool; i++) if (subset & (1u << i)) base[nb++] = pool[i];
    if (nb != n) fatal("subset size mismatch");
    int p[8]; decode_perm(n, perm, p);
    for (int i = 0; i < n; i++) comp[i] = base[p[i]];
  } else {
    int nextc = 0, nextr = 0;
    for (int i = 0; i < n; i++) {
      int c = -1;
      if ((i & 1) == 0) { while (nextc < NCACHE && cached_by_slot[nextc] < 0) nextc++; if (nextc < NCACHE) c = cached_by_slot[nextc++]; }
      if (c < 0) c = NBC + nextr++;
      base[nb++] = c;
    }
    for (int i = 0; i < n; i++) { int s = kind == 2 ? n - 1 - i : i; comp[(i + perm) % (n ? n : 1)] = base[s]; }
  }
  for (int i = 0; i < n; i++) { vr[i] = variant == 2 ? (i & 1) : variant; insts[i] = U[comp[i]].inst[vr[i]]; }

  const char* tn = rt_tname[perm & 1];
  volatile var Tv = NULL;
  var e = VF_CATCH(Tv = new_type_raw(tn, 40, insts, n, managed));
  if (e || !Tv) { api_fail("new-type/raised", "new(Type, name, size, %d instances) raised %s", n, vf_exc_name(e)); return; }
  R[1] = Tv;
  static var objbuf[4 + 8];
  struct tut t; memset(&t, 0, sizeof t);
  t.T = Tv; t.ti = -1; t.name = tn; t.n = n; t.comp = comp; t.vr = vr; t.insts = insts;
  t.obj = header_init(objbuf, t.T, AllocStack);
  is_rt = 1; h_restore = 0;

  if (perm & 1) api_checks(&t, managed);

  /* classes to look up: every built-in class, every declared class, and run-time classes beyond the declared ones */
  static int Q[NU]; int nq = 0, maxr = 5;
  for (int i = 0; i < n; i++) if (comp[i] >= NBC && comp[i] - NBC + 3 > maxr) maxr = comp[i] - NBC + 3;
  if (maxr > NRC - 1) maxr = NRC - 1;
  for (int c = 0; c < NBC; c++) Q[nq++] = c;
  for (int k = 0; k <= maxr; k++) Q[nq++] = NBC + k;
  int serial = perm + (int)subset;
  int viol = 0;
  uint64_t changes0 = rt_state_changes;
  rt_count_nontrivial = 1;
  /* pass 1: per class the eight entry points, starting with a different one for each class (so every entry point meets cold memos) */
  HN = 0;
  for (int qi = 0; qi < nq; qi++) {
    int ci = Q[order ? nq - 1 - qi : qi];
    if (HN + 8 * MAXMEM + 8 > MAXH) { viol += run_history(&t); HN = 0; }
    for (int k = 0; k < 8; k++) {
      int ep = (k + ci + serial) % 8;
      if (ep_has_member(ep)) for (int mi = 0; mi < U[ci].nmem; mi++) push_op(ci, ep, mi);
      else push_op(ci, ep, -1);
    }
  }
  if (HN) viol += run_history(&t);
  rt_count_nontrivial = 0;
  /* pass 2 (warm): everything once more, plus the type object used as an object */
  HN = 0;
  for (int qi = 0; qi < nq; qi++) {
    int ci = Q[qi];
    if (HN + 16 > MAXH) { viol += run_history(&t); HN = 0; }
    push_op(ci, EP_TINST, -1); push_op(ci, EP_IMPL, -1); push_op(ci, EP_IMPLM, U[ci].nmem - 1);
    if (ci < NBC) push_op(ci, EP_INST_T, -1);
  }
  push_op(0, EP_TYPEOF_T, -1);
  viol += run_history(&t);
  vf.executions++;                      /* all lookups on this type object form one history */
  (void)viol;

  if (!(perm & 1)) api_checks(&t, managed);

  vf.states += 1 + (rt_state_changes - changes0);
  e = VF_CATCH(if (managed) del(t.T); else del_raw(t.T));
  R[1] = NULL;
  if (e) api_fail("del-type/raised", "del(run-time type) raised %s", vf_exc_name(e));
  if (vf_want_sample()) vf_sample("%s", casebuf);
}

static void mode_rt(void) {
  vf.phase = "rt";
  const char* ns = vf_param("ns", "0,1,2,3,4,31,255,256");
  int nvariants = (int)vf_param_i("variants", 2);
  int stride = (int)vf_param_i("stride", 1);
  int kinds = (int)vf_param_i("kinds", 1);
  build_pool((int)vf_param_i("pool", 8));
  {
    char pb[256]; size_t o = 0;
    for (int i = 0; i < npool; i++) o += snprintf(pb + o, sizeof pb - o, "%s%s", i ? "," : "", U[pool[i]].name);
    vf_extra("rt_pool", "\"%s\"", pb);
  }
  if (vf.replay) {
    int n, kind, perm, variant, order, managed; unsigned subset;
    if (sscanf(vf.replay, "rt n=%d kind=%d subset=%u perm=%d variant=%d order=%d managed=%d", &n, &kind, &subset, &perm, &variant, &order, &managed) != 7) fatal("bad rt replay string");
    run_rt_case(n, kind, subset, perm, variant, order, managed);
    return;
  }
  const char* p = ns;
  while (*p) {
    int n = (int)strtol(p, (char**)&p, 10);
    if (*p == ',') p++;
    if (n <= 4) {
      int nperm = 1; for (int i = 2; i <= n; i++) nperm *= i;
      for (unsigned subset = 0; subset < (1u << npool); subset++) {
        if (__builtin_popcount(subset) != n) continue;
        for (int perm = 0; perm < nperm; perm++)
          for (int variant = 0; variant < nvariants; variant++)
            run_rt_case(n, 0, subset, perm, variant, (perm ^ variant) & 1, (perm % 4) == 0);
      }
    } else {
      for (int kind = 1; kind <= kinds; kind++)
        for (int rot = 0; rot < n; rot += stride)
          for (int variant = 0; variant < nvariants; variant++) {
            if (vf_deadline_hit()) return;
            run_rt_case(n, kind, 0, rot, variant, rot & 1, 0);
          }
    }
  }
}


/* ---- mode=recycle: a type object that takes the address of a deleted one; alternating live types ---------- */

static uint64_t rc_cases, rc_same_addr, rc_other_addr, il_cases;

static void del_type(var T, int managed) {
  var e = VF_CATCH(if (managed == 2) del_root(T); else if (managed) del(T); else del_raw(T));
  if (e) api_fail("del-type/raised", "del(run-time type) raised %s", vf_exc_name(e));
}

static void rt_tut(struct tut* t, var T, const char* nm, int n, const int* comp, const int* vr, const var* insts, var* objbuf) {
  memset(t, 0, sizeof *t);
  t->T = T; t->ti = -1; t->name = nm; t->n = n; t->comp = comp; t->vr = vr; t->insts = insts;
  t->obj = header_init(objbuf, T, AllocStack);
}

/*
** T1 = [.. X:I1 ..]; X looked up through ep1 (twice); T1 deleted; T2 built at once with the same number of
** instances: t2kind 0: X with a different instance I2, t2kind 1: another class in X's place (X absent).
** The first lookup on T2 is X through ep2 (member mi); then a sweep over the universe.
*/
static void recycle_case(int ci, int n, int ep1, int t2kind, int ep2, int mi, int managed) {
  static int comp1[4], comp2[4], vr0[4] = { 0, 0, 0, 0 };
  static var ins1[4], ins2[4];
  static var ob1[4 + 8], ob2[4 + 8];
  vf_set_cur("recycle cls=%s n=%d ep1=%d t2=%d ep2=%d m=%d managed=%d", U[ci].name, n, ep1, t2kind, ep2, mi, managed);
  if (vf.replay && strcmp(vf.replay, vf_cur) != 0) return;
  vf_watchdog(60);
  int fill[2] = { NBC + 6, NBC + 7 }, other = NBC + 5;
  int xpos = n == 1 ? 0 : 1;
  for (int i = 0, f = 0; i < n; i++) {
    comp1[i] = comp2[i] = i == xpos ? ci : fill[f++];
    ins1[i] = ins2[i] = U[comp1[i]].inst[0];
  }
  if (t2kind == 0) ins2[xpos] = alt_inst(ci);
  else { comp2[xpos] = other; ins2[xpos] = U[other].inst[0]; }
  is_rt = 1; h_restore = 0; rt_count_nontrivial = 1;
  uint64_t changes0 = rt_state_changes;

  volatile var T1v = NULL;
  var e = VF_CATCH(T1v = new_type_raw(rt_tname[0], 40, ins1, n, managed));
  if (e || !T1v) { api_fail("new-type/raised", "new(Type, ...) raised %s", vf_exc_name(e)); return; }
  R[1] = T1v;
  struct tut t1; rt_tut(&t1, T1v, rt_tname[0], n, comp1, vr0, ins1, ob1);
  HN = 0; push_op(ci, ep1, 0); push_op(ci, ep1, U[ci].nmem - 1);
  run_history(&t1);
  uintptr_t addr1 = (uintptr_t)T1v;
  R[1] = NULL;
  del_type(T1v, managed);

  volatile var T2v = NULL;
  e = VF_CATCH(T2v = new_type_raw(rt_tname[1], 40, ins2, n, managed));
  if (e || !T2v) { api_fail("new-type/raised", "new(Type, ...) raised %s", vf_exc_name(e)); return; }
  R[1] = T2v;
  int same = (uintptr_t)T2v == addr1;
  struct tut t2; rt_tut(&t2, T2v, rt_tname[1], n, comp2, vr0, ins2, ob2);
  /* the FIRST lookup on the new type is the class last looked up on the dead one */
  HN = 0; push_op(ci, ep2, mi);
  run_history(&t2);
  /* then everything */
  HN = 0;
  for (int c = 0; c < NBC + NALT; c++) {
    push_op(c, EP_TINST, -1); push_op(c, EP_IMPL, -1);
    if (c == ci || c == other || c == fill[0] || c == fill[1]) { push_op(c, EP_TIMPLM, U[c].nmem - 1); push_op(c, EP_METH, 0); push_op(c, EP_TMETH, U[c].nmem - 1); }
  }
  run_history(&t2);
  R[1] = NULL;
  del_type(T2v, managed);
  rc_cases++;
  if (same) { rc_same_addr++; vf.executions++; vf.states += 2 + (rt_state_changes - changes0); if (vf_want_sample()) vf_sample("%s", vf_cur); }
  else rc_other_addr++;
}

/* three live types: A declares X with I1, B declares X with I2, C does not declare X; lookups of X alternate */
static void interleave_case(int ci, int ep, int mi) {
  static int compa[1], compc[1], vr0[1] = { 0 };
  static var insa[1], insb[1], insc[1];
  static var oba[4 + 8], obb[4 + 8], obc[4 + 8];
  vf_set_cur("interleave cls=%s ep=%d m=%d", U[ci].name, ep, mi);
  if (vf.replay && strcmp(vf.replay, vf_cur) != 0) return;
  vf_watchdog(60);
  compa[0] = ci; compc[0] = NBC + 5;
  insa[0] = U[ci].inst[0]; insb[0] = alt_inst(ci); insc[0] = U[NBC + 5].inst[0];
  is_rt = 1; h_restore = 0; rt_count_nontrivial = 1;
  var Ta = new_type_raw("RtLiveA", 40, insa, 1, 0), Tb = new_type_raw("RtLiveB", 40, insb, 1, 0), Tc = new_type_raw("RtLiveC", 40, insc, 1, 0);
  struct tut t[3];
  rt_tut(&t[0], Ta, "RtLiveA", 1, compa, vr0, insa, oba);
  rt_tut(&t[1], Tb, "RtLiveB", 1, compa, vr0, insb, obb);
  rt_tut(&t[2], Tc, "RtLiveC", 1, compc, vr0, insc, obc);
  static const int order[] = { 0, 1, 2, 0, 1, 2, 1, 0, 2, 2, 1, 0 };
  uint64_t changes0 = rt_state_changes;
  for (size_t i = 0; i < sizeof order / sizeof order[0]; i++) {
    HN = 0; push_op(ci, i < 6 ? ep : (ep + (int)i) % 8, i < 6 ? mi : U[ci].nmem - 1);
    run_history(&t[order[i]]);
  }
  vf.states += 3 + (rt_state_changes - changes0);
  del_raw(Ta); del_raw(Tb); del_raw(Tc);
  il_cases++; vf.executions++;
  if (vf_want_sample()) vf_sample("%s", vf_cur);
}


/*
** Recycled CLASS objects (classes=1).  A class is a type object too; a run-time class KA named A is created, a type that
** declares "A" is asked for KA (which memoises KA's address in the entry), KA is deleted and a class KB with ANOTHER name
** is created - on the same block if the allocator hands it back.  Lookups through KB must be answered by KB's name:
** absent, or the entry the type declares under that name - never the entry memoised for the dead class.
*/
static uint64_t rcl_cases, rcl_same;
static void cold_user_static(var T);
static var RCI[2][4 + 2];

static void class_slot(int slot, var K, const char* nm) {
  struct ucls* u = &U[RC0 + slot];
  u->obj = K; u->name = nm; u->nmem = 2; u->slot = -1;
  u->off[0] = offsetof(struct RtC, m0); u->off[1] = offsetof(struct RtC, m1); u->mname[0] = "m0"; u->mname[1] = "m1";
  struct RtC* body = header_init(RCI[slot], K, AllocStatic);
  body->m0 = rt_m0; body->m1 = rt_m1;
  u->inst[0] = u->inst[1] = body;
}

/* tkind 0: run-time type [A]; 1: run-time type [K10, A]; 2: static E1 = [Print, Pri] with A = "Pri"; 3: static E10 = [Pri, Print].
   bkind 0: the new class has a name the type does not declare; 1: the name of the OTHER class the type declares */
static void recycled_class_case(int tkind, int ep1, int bkind, int ep2, int mi, int managed) {
  static int comp[2], vr0[2]; static var insts[2]; static var ob[4 + 8];
  if (bkind == 1 && tkind == 0) return;
  vf_set_cur("recycled-class type=%d ep1=%d b=%d ep2=%d m=%d managed=%d", tkind, ep1, bkind, ep2, mi, managed);
  if (vf.replay && strcmp(vf.replay, vf_cur) != 0) return;
  vf_watchdog(60);
  is_rt = 1; h_restore = 0; rt_count_nontrivial = 1;
  const char* nameA = tkind >= 2 ? "Pri" : "RcKx";
  const char* nameB = bkind == 0 ? "RcKy" : tkind >= 2 ? "Print" : "K10";
  var KA = new_type_raw(nameA, sizeof(struct RtC), NULL, 0, managed);
  R[1] = KA;
  class_slot(0, KA, nameA);
  U[RC0 + 1].name = "";                     /* not in use yet */
  struct tut t; var T; int n;
  if (tkind < 2) {
    n = 0;
    if (tkind == 1) { comp[n] = find_class("K10"); insts[n] = U[comp[n]].inst[0]; n++; }
    comp[n] = RC0; insts[n] = U[RC0].inst[0]; n++;
    T = new_type_raw(rt_tname[0], 40, insts, n, 0);
    rt_tut(&t, T, rt_tname[0], n, comp, vr0, insts, ob);
  } else {
    int si = tkind - 2; T = *SU[si].objp; n = SU[si].n;
    cold_user_static(T);
    for (int i = 0; i < n; i++) { comp[i] = PF0 + (strcmp(SU[si].decl[i], "Pri") == 0 ? 3 : 4); insts[i] = rec_triples(T)[2 + i].inst; }
    rt_tut(&t, T, SU[si].name, n, comp, vr0, insts, ob);
    t.user_static = 1;
  }
  uint64_t c0 = rt_state_changes;
  HN = 0; push_op(RC0, ep1, 0); push_op(RC0, EP_TIMPL, -1);
  run_history(&t);                          /* the entry for A now carries KA's address */
  uintptr_t addr = (uintptr_t)KA;
  R[1] = NULL;
  del_type(KA, managed);
  U[RC0].obj = NULL;                        /* dead: never used for a lookup again (its name stays in the model) */
  var KB = new_type_raw(nameB, sizeof(struct RtC), NULL, 0, managed);
  R[1] = KB;
  int same = (uintptr_t)KB == addr;
  class_slot(1, KB, nameB);
  HN = 0; push_op(RC0 + 1, ep2, mi);        /* first lookup through the new class */
  run_history(&t);
  HN = 0;
  for (int e = 0; e < 8; e++) push_op(RC0 + 1, e, e & 1);
  for (int k = 0; k < NPFX; k++) { push_op(PF0 + k, EP_TINST, -1); push_op(PF0 + k, EP_IMPL, -1); }
  run_history(&t);
  R[1] = NULL;
  del_type(KB, managed);
  if (tkind < 2) del_raw(T);
  U[RC0].name = ""; U[RC0 + 1].name = "";
  rcl_cases++;
  if (same) { rcl_same++; vf.executions++; vf.states += 1 + (rt_state_changes - c0); if (vf_want_sample()) vf_sample("%s", vf_cur); }
}

static void mode_recycle(void) {
  vf.phase = "recycle";
  int full = (int)vf_param_i("full", 0);
  /* X: every class of Cello.h (cached and uncached) and two run-time classes */
  for (int c = 0; c < NBC + 2; c++) {
    int nm = U[c].nmem;
    for (int n = 1; n <= 3; n += 2)
      for (int ep1 = 0; ep1 < 8; ep1++)
        for (int t2kind = 0; t2kind < 2; t2kind++)
          for (int ep2 = 0; ep2 < 8; ep2++) {
            int nmi = ep_has_member(ep2) ? (nm > 1 ? 2 : 1) : 1;
            for (int k = 0; k < nmi; k++) {
              int mi = ep_has_member(ep2) ? (k == 0 ? 0 : nm - 1) : -1;
              if (full) { for (int mg = 0; mg <= 2; mg += 2) recycle_case(c, n, ep1, t2kind, ep2, mi, mg); }
              else recycle_case(c, n, ep1, t2kind, ep2, mi, ((ep1 + ep2 + n) & 1) ? 2 : 0);
            }
          }
  }
  for (int c = 0; c < NBC + 2; c++)
    for (int ep = 0; ep < 8; ep++) {
      int nmi = ep_has_member(ep) ? (U[c].nmem > 1 ? 2 : 1) : 1;
      for (int k = 0; k < nmi; k++) interleave_case(c, ep, ep_has_member(ep) ? (k == 0 ? 0 : U[c].nmem - 1) : -1);
    }
  if (vf_param_i("classes", 0)) {
    for (int tkind = 0; tkind < 4; tkind++)
      for (int ep1 = 0; ep1 < 8; ep1++)
        for (int bkind = 0; bkind < 2; bkind++)
          for (int ep2 = 0; ep2 < 8; ep2++)
            for (int k = 0; k < (ep_has_member(ep2) ? 2 : 1); k++)
              for (int mg = 0; mg <= 2; mg += 2)
                recycled_class_case(tkind, ep1, bkind, ep2, ep_has_member(ep2) ? k : -1, mg);
    vf_extra("recycled_class_cases", "%" PRIu64, rcl_cases);
    vf_extra("recycled_class_same_address", "%" PRIu64, rcl_same);
    if (rcl_cases && !rcl_same) vf_note("the allocator never handed the block of the deleted class object to the next one: recycled-class family established nothing here");
  } else vf_note("recycled CLASS objects (classes=1) not run: recorded defect proposed/C08-recycled-class-memo.md");
  vf_extra("recycle_cases", "%" PRIu64, rc_cases);
  vf_extra("recycle_same_address", "%" PRIu64, rc_same_addr);
  vf_extra("recycle_other_address", "%" PRIu64, rc_other_addr);
  vf_extra("interleave_cases", "%" PRIu64, il_cases);
  if (rc_cases && rc_same_addr == 0)
    vf_note("the allocator of this build never handed the block of the deleted type back to the next new(Type): the recycle family established nothing here (0 of %" PRIu64 " cases counted)", rc_cases);
  else if (rc_other_addr)
    vf_note("recycle: %" PRIu64 " of %" PRIu64 " cases got a different address and are not counted as executions", rc_other_addr, rc_cases);
}


/* ---- mode=prefix: classes whose names are prefixes of one another ------------------------------------------------ */

static void class_slot(int slot, var K, const char* nm);
static void cold_user_static(var T) {
  for (int i = 0; i < NCACHE; i++) ((var*)T)[i] = NULL;
  for (struct Type* t = rec_triples(T); t->name; t++) t->cls = NULL;
  ((struct Header*)((char*)T - sizeof(struct Header)))->type = NULL;
}

/* 5 lookups of the five prefix classes in the order lperm, entry points rotating from ep0, then a sweep */
static void group_history(struct tut* t, int g0, int gn, const int* order, int ep0, int mbit) {
  HN = 0;
  for (int i = 0; i < gn; i++) push_op(g0 + order[i], (ep0 + i) % 8, (i + mbit) & 1);
  for (int c = 0; c < gn; c++) { push_op(g0 + c, EP_TINST, -1); push_op(g0 + c, EP_IMPL, -1); push_op(g0 + c, EP_METH, 0); push_op(g0 + c, EP_TIMPLM, 1); }
  run_history(t);
}
static void prefix_history(struct tut* t, int lperm, int ep0) {
  int order[8]; decode_perm(NPFX, lperm, order);
  group_history(t, PF0, NPFX, order, ep0, lperm);
}

static void mode_prefix(void) {
  vf.phase = "prefix";
  is_rt = 1; h_restore = 0; rt_count_nontrivial = 1;
  uint64_t nrt = 0, nst = 0;
  static int comp[NPFX], vr0[NLONG + NPFX]; static var insts[NPFX]; static var ob[4 + 8];
  /* run-time types: every non-empty subset of the five classes in every declaration order, every lookup order */
  for (int mask = 1; mask < (1 << NPFX); mask++) {
    int S[NPFX], n = 0;
    for (int i = 0; i < NPFX; i++) if (mask & (1 << i)) S[n++] = PF0 + i;
    int nperm = 1; for (int i = 2; i <= n; i++) nperm *= i;
    for (int dperm = 0; dperm < nperm; dperm++) {
      int p[8]; decode_perm(n, dperm, p);
      for (int i = 0; i < n; i++) { comp[i] = S[p[i]]; insts[i] = U[comp[i]].inst[0]; }
      for (int lperm = 0; lperm < 120; lperm++) {
        vf_set_cur("prefix rt mask=%d dperm=%d lperm=%d", mask, dperm, lperm);
        if (vf.replay && strcmp(vf.replay, vf_cur) != 0) continue;
        vf_watchdog(60);
        var T = new_type_raw(rt_tname[0], 40, insts, n, 0);
        struct tut t; rt_tut(&t, T, rt_tname[0], n, comp, vr0, insts, ob);
        uint64_t c0 = rt_state_changes;
        prefix_history(&t, lperm, (lperm + dperm + mask) % 8);
        vf.states += 1 + (rt_state_changes - c0);
        del_raw(T);
        vf.executions++; nrt++;
        if (vf_want_sample()) vf_sample("%s (declares %d of K1,K10,K100,Pri,Print)", vf_cur, n);
      }
    }
  }
  /* classes with long names (two that differ at byte 33, a 64-byte prefix of a 100-byte name, two 255-byte names that
     differ in the last byte): every subset in every declaration order; lookups in the 6 rotations, both directions */
  uint64_t nlg = 0;
  {
    static int lcomp[NLONG]; static var linsts[NLONG];
    for (int mask = 1; mask < (1 << NLONG); mask++) {
      int S[NLONG], n = 0;
      for (int i = 0; i < NLONG; i++) if (mask & (1 << i)) S[n++] = LG0 + i;
      int nperm = 1; for (int i = 2; i <= n; i++) nperm *= i;
      for (int dperm = 0; dperm < nperm; dperm++) {
        int p[8]; decode_perm(n, dperm, p);
        for (int i = 0; i < n; i++) { lcomp[i] = S[p[i]]; linsts[i] = U[lcomp[i]].inst[0]; }
        for (int lo = 0; lo < 2 * NLONG; lo++) {
          vf_set_cur("prefix long mask=%d dperm=%d lorder=%d", mask, dperm, lo);
          if (vf.replay && strcmp(vf.replay, vf_cur) != 0) continue;
          vf_watchdog(60);
          int order[NLONG];
          for (int i = 0; i < NLONG; i++) order[i] = ((lo & 1 ? NLONG - 1 - i : i) + lo / 2) % NLONG;
          var T = new_type_raw(rt_tname[0], 40, linsts, n, 0);
          struct tut t; rt_tut(&t, T, rt_tname[0], n, lcomp, vr0, linsts, ob);
          uint64_t c0 = rt_state_changes;
          group_history(&t, LG0, NLONG, order, (lo + dperm + mask) % 8, lo);
          vf.states += 1 + (rt_state_changes - c0);
          del_raw(T);
          vf.executions++; nlg++;
          if (vf_want_sample()) vf_sample("%s (declares %d of 6 long-named classes)", vf_cur, n);
        }
      }
    }
  }
  vf_extra("prefix_longname_type_histories", "%" PRIu64, nlg);
  /* two LIVE class objects with one name: the static class Pri and a run-time class object also named "Pri" (and the
     same for K10).  Whichever asks first, both must be given the entry the type declares under that name */
  uint64_t nal = 0;
  {
    static int acomp[3]; static var ainsts[3];
    static const char* an[2] = { "Pri", "K10" };
    for (int which = 0; which < 2; which++) {
      int orig = find_class(an[which]);
      var KA = new_type_raw(an[which], 0, NULL, 0, 0);
      class_slot(0, KA, an[which]);
      /* types: 0 run-time [X], 1 run-time [Print, X, K1], 2 run-time without X, 3.. the statically declared ones */
      for (int tk = 0; tk < 3 + NSU; tk++) {
        for (int e1 = 0; e1 < 8; e1++) for (int e2 = 0; e2 < 8; e2++) for (int ord = 0; ord < 4; ord++) {
          vf_set_cur("prefix alias name=%s type=%d ep1=%d ep2=%d order=%d", an[which], tk, e1, e2, ord);
          if (vf.replay && strcmp(vf.replay, vf_cur) != 0) continue;
          vf_watchdog(60);
          struct tut t; var T = NULL; int n = 0;
          if (tk < 3) {
            if (tk == 1) { acomp[n] = PF0 + 4; ainsts[n] = U[PF0 + 4].inst[0]; n++; }
            if (tk != 2) { acomp[n] = orig; ainsts[n] = U[orig].inst[0]; n++; } else { acomp[n] = PF0 + 2; ainsts[n] = U[PF0 + 2].inst[0]; n++; }
            if (tk == 1) { acomp[n] = PF0; ainsts[n] = U[PF0].inst[0]; n++; }
            T = new_type_raw(rt_tname[0], 40, ainsts, n, 0);
            rt_tut(&t, T, rt_tname[0], n, acomp, vr0, ainsts, ob);
          } else {
            int si = tk - 3; T = *SU[si].objp; n = SU[si].n;
            cold_user_static(T);
            for (int i = 0; i < n; i++) { acomp[i] = find_class(SU[si].decl[i]); if (acomp[i] == RC0) acomp[i] = orig; ainsts[i] = rec_triples(T)[2 + i].inst; }
            rt_tut(&t, T, SU[si].name, n, acomp, vr0, ainsts, ob);
            t.user_static = 1;
          }
          /* order 0: original, alias; 1: alias, original; 2: o a o; 3: a o a - then both through every entry point */
          int a0 = (ord & 1) ? RC0 : orig, a1 = (ord & 1) ? orig : RC0;
          uint64_t c0 = rt_state_changes;
          HN = 0; push_op(a0, e1, 0); push_op(a1, e2, 1); if (ord >= 2) push_op(a0, e2, 0);
          for (int e = 0; e < 8; e++) { push_op(orig, e, e & 1); push_op(RC0, (e + 3) % 8, e & 1); }
          run_history(&t);
          vf.states += 1 + (rt_state_changes - c0);
          if (tk < 3) del_raw(T);
          vf.executions++; nal++;
          if (vf_want_sample()) vf_sample("%s", vf_cur);
        }
      }
      U[RC0].name = "";
      del_raw(KA);
    }
  }
  vf_extra("prefix_alias_histories", "%" PRIu64, nal);
  /* statically declared types over the same classes */
  for (int si = 0; si < NSU; si++) {
    var T = *SU[si].objp;
    int n = SU[si].n;
    for (int i = 0; i < n; i++) {
      comp[i] = find_class(SU[si].decl[i]);
      struct Type* tr = rec_triples(T) + 2 + i;
      if (comp[i] < 0 || !tr->name || strcmp((char*)tr->name, SU[si].decl[i]) != 0) fatal("static user type %s: declaration table wrong", SU[si].name);
      insts[i] = tr->inst;                    /* the instance at the position it was declared at */
    }
    for (int lperm = 0; lperm < 120; lperm++) for (int ep0 = 0; ep0 < 8; ep0++) {
      vf_set_cur("prefix static type=%s lperm=%d ep0=%d", SU[si].name, lperm, ep0);
      if (vf.replay && strcmp(vf.replay, vf_cur) != 0) continue;
      vf_watchdog(60);
      cold_user_static(T);
      struct tut t; rt_tut(&t, T, SU[si].name, n, comp, vr0, insts, ob);
      t.user_static = 1;
      uint64_t c0 = rt_state_changes;
      prefix_history(&t, lperm, ep0);
      vf.states += 1 + (rt_state_changes - c0);
      vf.executions++; nst++;
      if (vf_want_sample()) vf_sample("%s", vf_cur);
    }
  }
  vf_extra("prefix_runtime_type_histories", "%" PRIu64, nrt);
  vf_extra("prefix_static_type_histories", "%" PRIu64, nst);
}

/* ---- mode=names: classes NAMED like the bookkeeping entries of a type record ------------------------------------- */

/*
** Every type record carries two entries of the shape {cls, name, inst} in front of its instances: {NULL, "__Name", the type's
** name string} and {NULL, "__Size", the size as a pointer}.  They are not instances.  A class object whose own name is
** "__Name" or "__Size" (any "__" name, "", "_", or the very name of the type that is asked) is an ordinary class: a type
** answers for it iff it DECLARES an instance under exactly that name; otherwise none / false / ClassError.
**
** tuts: the 71 exported types (cold image), statically declared user types (7 of mode=prefix, 6 of this mode - two of them
** the class objects __Name / __Size themselves, three that declare instances of __Name / __Size) and 19 shapes of run-time
** types (x new_raw / new_root): no instances, ordinary instances, instances of the colliding names at the first / middle /
** last position (up to 256 instances), types that are themselves CALLED "__Name", "__Size", "__" or "", a type declaring a
** class of its own name.  classes: 18 colliding names (16 run-time class objects, 2 static ones) + the type object itself
** asked as a class + a run-time class called like the type.
** histories, each from the cold record:  cell: <lookup; same lookup> and <lookup; next entry point> for every entry point x
** member;  mix: the colliding class and a real class alternating (a rotating class of Cello.h, and the first class the type
** declares) through entry-point pairs in both orders;  two: every ordered pair of colliding classes alternating;
** sweep: all colliding classes one after the other (8 starting entry points x 2 directions), then every class of Cello.h
** and every colliding class again, then c_str(T) / size(T) still what the type was made with.
*/
static uint64_t nm_hist, nm_tuts;
static int nm_full;

struct nmtut { struct tut t; int kind; int idx; size_t size; };   /* kind 0 exported static type, 1 user static type, 2 run-time type */

static void cold_rt(var T) {
  for (int i = 0; i < NCACHE; i++) ((var*)T)[i] = NULL;
  for (struct Type* t = rec_triples(T); t->name; t++) t->cls = NULL;
}

static void nm_class_slot(int idx, var K, const char* nm, var* ibuf, int has_m1) {
  struct ucls* u = &U[idx];
  u->obj = K; u->name = nm; u->nmem = 2; u->slot = -1;
  u->off[0] = offsetof(struct RtC, m0); u->off[1] = offsetof(struct RtC, m1); u->mname[0] = "m0"; u->mname[1] = "m1";
  /* called like a class of Cello.h (the type asked is that class object, e.g. Help): instances declared under this name are
     that class's structs, so the member offsets asked for are that class's */
  int b = find_class(nm);
  if (b >= 0 && b < NBC) { u->nmem = U[b].nmem; for (int j = 0; j < U[b].nmem; j++) { u->off[j] = U[b].off[j]; u->mname[j] = U[b].mname[j]; } }
  struct RtC* body = header_init(ibuf, K, AllocStatic);
  body->m0 = rt_m0; body->m1 = has_m1 ? rt_m1 : NULL;
  u->inst[0] = u->inst[1] = body;
}

static void setup_bk_classes(void) {
  for (int k = 0; k < NBK; k++) {
    var K = k == NBK - 2 ? __Name : k == NBK - 1 ? __Size
          : new_type_raw(BKN[k], (k % 3) == 0 ? sizeof(struct RtC) : (k % 3) == 1 ? 0 : sizeof(var), NULL, 0, (k & 4) ? 2 : 0);
    const char* rn = raw_name_of(K);
    if (!rn || strcmp(rn, BKN[k]) != 0) fatal("class object for the name '%s' names itself '%s'", BKN[k], rn ? rn : "?");
    nm_class_slot(BK0 + k, K, BKN[k], BKI[k], !(k & 1));
  }
}

/* one history; returns 1 if it was executed (0: filtered out by replay=) */
static int nm_run(struct nmtut* n, const char* fmt, ...) {
  char desc[400];
  int o = snprintf(desc, sizeof desc, "names tut=%d:%s ", n->idx, n->t.name);
  va_list ap; va_start(ap, fmt); vsnprintf(desc + o, sizeof desc - (size_t)o, fmt, ap); va_end(ap);
  if (vf.replay && strcmp(vf.replay, desc) != 0) return 0;
  vf_watchdog(60);
  if (n->kind == 0) { is_rt = 0; h_restore = 1; h_desc = desc; acct_ti = -1; }
  else {
    is_rt = 1; h_restore = 0; rt_count_nontrivial = 0; acct_ti = 1000 + n->idx;
    vf_set_cur("%s", desc);
    if (n->kind == 1) cold_user_static(n->t.T); else cold_rt(n->t.T);
  }
  run_history(&n->t);
  h_desc = NULL;
  if (n->kind) vf.executions++;
  nm_hist++;
  if (vf_want_sample()) vf_sample("%s", desc);
  return 1;
}

static int nm_mi(int c, int want) { return want < U[c].nmem ? want : U[c].nmem - 1; }
static void nm_push(int c, int ep, int mi) { push_op(c, ep, nm_mi(c, mi)); }

static const char* nm_kindname(struct nmtut* n) { return n->kind == 0 ? (n->t.T == Terminal ? "static-type:Terminal" : "static-type") : n->kind == 1 ? "static-user-type" : "runtime-type"; }

/* after a sweep: the name and the size the type was made with are still what the API reports */
static void nm_api_after(struct nmtut* n) {
  char l[160];
  volatile const char* cs = NULL; volatile size_t sz = 0;
  var e = VF_CATCH({ cs = c_str(n->t.T); sz = size(n->t.T); });
  vf.evaluations += 2;
  if (e) { snprintf(l, sizeof l, "dispatch/%s/after-name-lookups/c_str-or-size-raised-%s", nm_kindname(n), vf_exc_name(e)); vf_violation(l, NULL, "c_str(T) / size(T) raised %s after the lookups", vf_exc_name(e)); return; }
  if (strcmp((const char*)cs, n->t.name) != 0) { snprintf(l, sizeof l, "dispatch/%s/after-name-lookups/type-name-changed", nm_kindname(n)); vf_violation(l, NULL, "c_str(T) = \"%s\" after the lookups, the type is called \"%s\"", (const char*)cs, n->t.name); }
  if (sz != n->size) { snprintf(l, sizeof l, "dispatch/%s/after-name-lookups/type-size-changed", nm_kindname(n)); vf_violation(l, NULL, "size(T) = %zu after the lookups, expected %zu", (size_t)sz, n->size); }
}

static void nm_tut(struct nmtut* n) {
  static var owbuf0[4 + 2];
  /* the per-type classes: the type object itself asked as a class; a run-time class object called like the type (set up by the caller) */
  nm_class_slot(OW0, n->t.T, n->t.name, owbuf0, 1);
  int Q[NBK + 2], nq = 0;
  for (int k = 0; k < NBK; k++) Q[nq++] = BK0 + k;
  Q[nq++] = OW0; Q[nq++] = OW0 + 1;
  /* a real class the type declares (the first one), if any */
  int xdecl = -1;
  if (n->kind == 0) { struct Type* r = rec_triples(n->t.T) + 2; if (r->name) { xdecl = find_class((const char*)r->name); if (xdecl >= NBC) xdecl = -1; } }
  else if (n->t.n > 0 && n->t.comp[0] < BK0) xdecl = n->t.comp[0];
  nm_tuts++;
  for (int qi = 0; qi < nq; qi++) {
    int c = Q[qi];
    /* cell */
    for (int ep = 0; ep < NEP; ep++) {
      if (ep == EP_TYPEOF_T) continue;
      for (int mi = 0; mi < (ep_has_member(ep) ? U[c].nmem : 1); mi++) {
        HN = 0; push_op(c, ep, mi); push_op(c, ep, mi);
        nm_run(n, "cls=%d:%s f=cell ep=%d m=%d again=same", qi, U[c].name, ep, mi);
        HN = 0; push_op(c, ep, mi); nm_push(c, (ep + 1) % 8, mi ? 0 : 1);
        nm_run(n, "cls=%d:%s f=cell ep=%d m=%d again=next", qi, U[c].name, ep, mi);
      }
    }
    /* mix with a real class */
    for (int ep1 = 0; ep1 < 8; ep1++) for (int k2 = 0; k2 < (nm_full ? 8 : 2); k2++) {
      int ep2 = nm_full ? k2 : k2 == 0 ? (ep1 * 3 + qi) % 8 : (ep1 + 1) % 8;
      for (int xsel = 0; xsel < 2; xsel++) {
        int x = xsel ? xdecl : (ep1 * 8 + ep2 + qi) % NBC;
        if (x < 0) continue;
        for (int ord = 0; ord < 2; ord++) {
          HN = 0;
          if (!ord) { push_op(c, ep1, 0); push_op(x, ep2, U[x].nmem - 1); nm_push(c, ep2, 1); push_op(x, ep1, 0); }
          else      { push_op(x, ep1, U[x].nmem - 1); nm_push(c, ep2, 1); push_op(x, ep2, 0); push_op(c, ep1, 0); }
          nm_run(n, "cls=%d:%s f=mix x=%s ep1=%d ep2=%d ord=%d", qi, U[c].name, U[x].name, ep1, ep2, ord);
        }
      }
    }
    /* two colliding names */
    for (int q2 = 0; q2 < nq; q2++) for (int ep1 = 0; ep1 < 8; ep1++) for (int k2 = 0; k2 < (nm_full ? 8 : 1); k2++) {
      int ep2 = nm_full ? k2 : (ep1 + 3 + q2) % 8;
      int c2 = Q[q2];
      HN = 0; push_op(c, ep1, 0); nm_push(c2, ep2, 1); nm_push(c, ep2, 1); push_op(c2, ep1, 0);
      nm_run(n, "cls=%d:%s f=two c2=%d:%s ep1=%d ep2=%d", qi, U[c].name, q2, U[c2].name, ep1, ep2);
    }
  }
  /* sweep */
  for (int ep0 = 0; ep0 < 8; ep0++) for (int dir = 0; dir < 2; dir++) {
    HN = 0;
    for (int i = 0; i < nq; i++) nm_push(Q[dir ? nq - 1 - i : i], (ep0 + i) % 8, i & 1);
    for (int c = 0; c < NBC; c++) { push_op(c, EP_TINST, -1); push_op(c, EP_IMPL, -1); }
    for (int i = 0; i < nq; i++) { push_op(Q[i], EP_TINST, -1); push_op(Q[i], EP_METH, 0); nm_push(Q[i], EP_TIMPLM, 1); }
    if (nm_run(n, "f=sweep ep0=%d dir=%d", ep0, dir)) nm_api_after(n);
  }
}

static void mode_names(void) {
  vf.phase = "names";
  nm_full = (int)vf_param_i("full", 0);
  count_states = 1;
  setup_bk_classes();
  static var owbuf1[4 + 2];
  static var ob[4 + 8];
  static int vr0[MAXINST + 2];
  int idx = 0;
  struct nmtut n;

  /* (a) every exported type, from its cold image */
  static size_t bsize[sizeof TYS / sizeof TYS[0]];
  for (int ti = 0; ti < NTY; ti++) bsize[ti] = size(BT[ti].T);
  restore_world();
  for (int ti = 0; ti < NTY; ti++, idx++) {
    if (!in_shard(ti)) continue;
    memset(&n, 0, sizeof n);
    n.t = BT[ti]; n.kind = 0; n.idx = idx; n.size = bsize[ti];
    var K = new_type_raw(TYS[ti].name, sizeof(struct RtC), NULL, 0, 0);
    nm_class_slot(OW0 + 1, K, TYS[ti].name, owbuf1, 1);
    nm_tut(&n);
    del_raw(K);
  }

  /* (b) statically declared user types */
  {
    static const struct { var* objp; const char* name; size_t size; int n; const char* decl[3]; } NS[] = {
      { &__Name, "__Name", sizeof(struct __Name), 0, { 0 } }, { &__Size, "__Size", 0, 0, { 0 } },
      { &BkDeclN, "BkDeclN", sizeof(struct BkDeclN), 1, { "__Name" } }, { &BkDeclS, "BkDeclS", sizeof(struct BkDeclS), 2, { "Pri", "__Size" } },
      { &BkDeclNS, "BkDeclNS", 0, 2, { "__Size", "__Name" } }, { &BkNone, "BkDeclN", sizeof(struct BkDeclN), 0, { 0 } },
    };
    static int comp[4]; static var insts[4];
    for (int si = 0; si < NSU + (int)(sizeof NS / sizeof NS[0]); si++, idx++) {
      if (!in_shard(idx)) continue;
      var T; const char* nm; size_t sz; int cnt; const char* const* decl;
      if (si < NSU) { T = *SU[si].objp; nm = SU[si].name; sz = 0; cnt = SU[si].n; decl = SU[si].decl; }
      else { T = *NS[si - NSU].objp; nm = NS[si - NSU].name; sz = NS[si - NSU].size; cnt = NS[si - NSU].n; decl = NS[si - NSU].decl; }
      const char* rn = raw_name_of(T);
      if (!rn || strcmp(rn, nm) != 0) fatal("static user type %s names itself %s", nm, rn ? rn : "?");
      for (int i = 0; i < cnt; i++) {
        comp[i] = find_class(decl[i]);
        struct Type* tr = rec_triples(T) + 2 + i;
        if (comp[i] < 0 || !tr->name || strcmp((char*)tr->name, decl[i]) != 0) fatal("static user type %s: declaration table wrong", nm);
        insts[i] = tr->inst;
      }
      if (rec_triples(T)[2 + cnt].name) fatal("static user type %s declares more than the table says", nm);
      memset(&n, 0, sizeof n);
      rt_tut(&n.t, T, nm, cnt, comp, vr0, insts, ob);
      n.t.user_static = 1; n.kind = 1; n.idx = idx; n.size = sz;
      var K = new_type_raw(nm, 0, NULL, 0, 0);
      nm_class_slot(OW0 + 1, K, nm, owbuf1, 1);
      nm_tut(&n);
      del_raw(K);
    }
  }

  /* (c) run-time types */
  {
    enum { NSHAPE = 19 };
    static int comp[MAXINST + 2]; static var insts[MAXINST + 2];
    int cCmp = find_class("Cmp"), cShow = find_class("Show");
    for (int sh = 0; sh < NSHAPE; sh++) for (int mg = 0; mg <= 2; mg += 2, idx++) {
      if (!in_shard(idx)) continue;
      const char* nm = "?"; size_t sz = 8; int cnt = 0;
      switch (sh) {
      case 0: nm = "RtN0"; sz = 0; break;
      case 1: nm = "RtN1"; sz = 8; break;
      case 2: nm = "RtN2"; sz = 40; comp[cnt++] = NBC + 0; break;
      case 3: nm = "RtN3"; sz = 24; comp[cnt++] = cCmp; comp[cnt++] = NBC + 1; comp[cnt++] = cShow; break;
      case 4: nm = "RtN4"; sz = 8; comp[cnt++] = BK0 + 0; break;
      case 5: nm = "RtN5"; sz = 16; comp[cnt++] = BK0 + 1; break;
      case 6: nm = "RtN6"; sz = 512; comp[cnt++] = BK0 + 0; comp[cnt++] = BK0 + 1; break;
      case 7: nm = "RtN7"; sz = 1; comp[cnt++] = BK0 + 1; comp[cnt++] = NBC + 0; comp[cnt++] = BK0 + 0; break;
      case 8: nm = "RtN8"; sz = 8; comp[cnt++] = BK0 + 14; break;                                       /* declares the class called "" */
      case 9: nm = "RtN9"; sz = 8; comp[cnt++] = NBC + 0; comp[cnt++] = BK0 + 14; comp[cnt++] = BK0 + 15; break;
      case 10: nm = "__Name"; sz = 8; break;                                                            /* types CALLED like the entries */
      case 11: nm = "__Size"; sz = 24; comp[cnt++] = BK0 + 0; break;
      case 12: nm = ""; sz = 8; break;
      case 13: nm = ""; sz = 0; comp[cnt++] = BK0 + 14; break;
      case 14: nm = "RtSelf"; sz = 8; comp[cnt++] = OW0 + 1; break;                                     /* declares a class of its own name */
      case 15: nm = "__Name"; sz = 8; comp[cnt++] = BK0 + 16; comp[cnt++] = BK0 + 1; break;           /* instance of the STATIC class object __Name */
      case 16: nm = "RtBig"; sz = 8; for (int i = 0; i < 255; i++) comp[cnt++] = NBC + i; comp[cnt++] = BK0 + 0; break;
      case 17: nm = "RtBigNone"; sz = 8; for (int i = 0; i < 256; i++) comp[cnt++] = NBC + i; break;
      default: nm = "__"; sz = 8; comp[cnt++] = BK0 + 2; comp[cnt++] = BK0 + 3; break;
      }
      var K = new_type_raw(nm, sizeof(var), NULL, 0, 0);
      nm_class_slot(OW0 + 1, K, nm, owbuf1, 1);
      for (int i = 0; i < cnt; i++) insts[i] = U[comp[i]].inst[0];
      vf_set_cur("names tut=%d:%s (creating the type)", idx, nm);
      volatile var Tv = NULL;
      var e = VF_CATCH(Tv = new_type_raw(nm, sz, insts, cnt, mg));
      if (e || !Tv) { api_fail("new-type/raised", "new(Type, \"%s\", %zu, %d instances) raised %s", nm, sz, cnt, vf_exc_name(e)); del_raw(K); continue; }
      R[1] = Tv;
      memset(&n, 0, sizeof n);
      rt_tut(&n.t, Tv, nm, cnt, comp, vr0, insts, ob);
      n.kind = 2; n.idx = idx; n.size = sz;
      nm_tut(&n);
      R[1] = NULL;
      del_type(Tv, mg);
      del_raw(K);
    }
  }
  acct_ti = -1;
  vf_extra("names_type_objects", "%" PRIu64, nm_tuts);
  vf_extra("names_colliding_classes_per_type", "%d", NBK + 2);
  vf_extra("names_histories", "%" PRIu64, nm_hist);
  finish_static_counts();
}

/* ---- mode=typecmp (C09): cmp / eq / hash of type objects, names that are prefixes of one another included ------- */

static int sgn(int x) { return (x > 0) - (x < 0); }

static void mode_typecmp(void) {
  vf.phase = "typecmp";
  static var TO[160]; static const char* TN[160]; int n = 0;
  for (int i = 0; i < NTY; i++) { TO[n] = BT[i].T; TN[n++] = TYS[i].name; }
  for (int i = 0; i < NSU; i++) { TO[n] = *SU[i].objp; TN[n++] = SU[i].name; }
  for (int k = 0; k < NPFX; k++) { TO[n] = U[PF0 + k].obj; TN[n++] = U[PF0 + k].name; }
  static const char* rtn[] = { "E", "E1000", "NetErrorT", "P", "Pr", "Typ", "In", "Int64", "Terminal_", "_x" };
  for (size_t i = 0; i < sizeof rtn / sizeof rtn[0]; i++) { TO[n] = new_type_raw(rtn[i], 8, NULL, 0, 0); TN[n++] = rtn[i]; }
  /* names that agree for a long time: statically declared ones, and run-time types of length 31/32/33/40/64/100 whose first
     difference is at byte 30/31/32/33/63/64/99, the unmodified prefixes of those lengths (each a proper prefix of the longer
     ones), and two 255-byte names that differ in the last byte */
  TO[n] = Telemetry_Pipeline_Stage_Ingest_Frame_Decoder; TN[n++] = "Telemetry_Pipeline_Stage_Ingest_Frame_Decoder";
  TO[n] = Telemetry_Pipeline_Stage_Ingest_Frame_Encoder; TN[n++] = "Telemetry_Pipeline_Stage_Ingest_Frame_Encoder";
  TO[n] = Telemetry_Pipeline_Stage_Ingest_Frame; TN[n++] = "Telemetry_Pipeline_Stage_Ingest_Frame";
  {
    static const int Ls[] = { 31, 32, 33, 40, 64, 100 }, Ds[] = { 30, 31, 32, 33, 63, 64, 99 };
    for (size_t li = 0; li < 6; li++) {
      char* nm = longname(Ls[li], -1, 0);
      TO[n] = new_type_raw(nm, 8, NULL, 0, 0); TN[n++] = nm;
      for (size_t di = 0; di < 7; di++) {
        if (Ds[di] >= Ls[li]) continue;
        for (char c = 'a'; c <= 'b'; c++) { nm = longname(Ls[li], Ds[di], c); TO[n] = new_type_raw(nm, 8, NULL, 0, 0); TN[n++] = nm; }
      }
    }
    for (char c = 'a'; c <= 'b'; c++) { char* nm = longname(255, 254, c); TO[n] = new_type_raw(nm, 8, NULL, 0, 0); TN[n++] = nm; }
    if (n > 160) fatal("type object table too small");
  }
  vf_extra("type_objects", "%d", n);
  for (int a = 0; a < n; a++) for (int b = 0; b < n; b++) {
    size_t la = strlen(TN[a]), lb = strlen(TN[b]);
    int pfx = a != b && (la < lb ? strncmp(TN[a], TN[b], la) == 0 : strncmp(TN[a], TN[b], lb) == 0);
    vf_set_cur("typecmp a=%s b=%s", TN[a], TN[b]);
    if (vf.replay && strcmp(vf.replay, vf_cur) != 0) continue;
    size_t common = 0; while (TN[a][common] && TN[a][common] == TN[b][common]) common++;
    const char* feat = a == b ? "same-type" : pfx ? (common >= 30 ? "long-prefix-related-names" : "prefix-related-names") : common >= 30 ? "names-differ-after-byte-30" : "unrelated-names";
    if (!pfx && a != b && common >= 30) vf.nontrivial++;
    char l[160];
    volatile int c = 0, d = 0; volatile bool e1 = 0, ne = 0, l1 = 0, g1 = 0, le1 = 0, ge1 = 0; volatile uint64_t ha = 0, hb = 0;
    var ex = VF_CATCH({ c = cmp(TO[a], TO[b]); d = cmp(TO[b], TO[a]); e1 = eq(TO[a], TO[b]); ne = neq(TO[a], TO[b]); l1 = lt(TO[a], TO[b]); g1 = gt(TO[a], TO[b]);
                        le1 = le(TO[a], TO[b]); ge1 = ge(TO[a], TO[b]); ha = hash(TO[a]); hb = hash(TO[b]); });
    vf.executions++; vf.evaluations++; vf.transitions++;
    if (pfx) vf.nontrivial++;
    if (ex) { snprintf(l, sizeof l, "type/cmp/%s/raised-%s", feat, vf_exc_name(ex)); vf_violation(l, NULL, "comparing two type objects raised %s", vf_exc_name(ex)); continue; }
    int ref = sgn(strcmp(TN[a], TN[b]));
    if (sgn(c) != -sgn(d)) { snprintf(l, sizeof l, "type/cmp/%s/not-antisymmetric", feat); vf_violation(l, NULL, "cmp(a,b)=%d but cmp(b,a)=%d", (int)c, (int)d); }
    else if (sgn(c) != ref) { snprintf(l, sizeof l, "type/cmp/%s/differs-from-name-order", feat); vf_violation(l, NULL, "cmp(a,b)=%d, the names compare %d", (int)c, ref); }
    if (e1 != (c == 0) || ne != (c != 0) || l1 != (c < 0) || g1 != (c > 0) || le1 != (c <= 0) || ge1 != (c >= 0)) { snprintf(l, sizeof l, "type/cmp/%s/predicates-disagree-with-cmp", feat); vf_violation(l, NULL, "cmp=%d eq=%d neq=%d lt=%d gt=%d le=%d ge=%d", (int)c, e1, ne, l1, g1, le1, ge1); }
    if (e1 && ha != hb) { snprintf(l, sizeof l, "type/hash/%s/equal-types-hash-differently", feat); vf_violation(l, NULL, "eq(a,b) but the hashes differ"); }
    if (vf_want_sample()) vf_sample("%s", vf_cur);
  }
  /* the hash of a type is the hash of its name (what hash of a String of that text gives): every type object */
  for (int a = 0; a < n; a++) {
    vf_set_cur("typecmp a=%s b=%s", TN[a], TN[a]);
    if (vf.replay && strcmp(vf.replay, vf_cur) != 0) continue;
    vf.evaluations++;
    if (hash(TO[a]) != hash_data(TN[a], strlen(TN[a]))) vf_violation("type/hash/differs-from-hash-of-name", NULL, "hash(type) is not the hash of its name");
  }
  /* a run-time type borrows its name from the caller (Type_New keeps the pointer): names that live in ONE reused buffer,
     and in String objects whose block malloc hands out again.  T1 named X is hashed and deleted, the storage is rewritten
     to Y, T2 is created there and hashed FIRST (no other type hashed in between) */
  {
    static const char* NP[][2] = { { "Aaa", "Bbb" }, { "Bbb", "Aaa" }, { "Aaa", "Bbbbbbbb" }, { "Longer_name_1", "Zz" }, { "Int", "Inu" }, { "K10", "K11" } };
    uint64_t nre = 0, same_ptr = 0;
    for (size_t pi = 0; pi < sizeof NP / sizeof NP[0]; pi++) for (int how = 0; how < 3; how++) for (int partner = 0; partner < 2; partner++) {
      vf_set_cur("typecmp reuse first=%s second=%s storage=%d partner=%d", NP[pi][0], NP[pi][1], how, partner);
      if (vf.replay && strcmp(vf.replay, vf_cur) != 0) continue;
      vf_watchdog(60);
      static char buf[64];
      var T3 = partner == 0 ? new_type_raw(NP[pi][1], 8, NULL, 0, 0) : NULL;      /* a second type of the new name, made before ... */
      var s1 = NULL, s2 = NULL; var T1, T2; const char* p1, * p2;
      if (how < 2) { strcpy(buf, NP[pi][0]); T1 = new_type_raw(buf, 8, NULL, 0, 0); p1 = buf; }
      else { s1 = new_raw(String, $S((char*)NP[pi][0])); p1 = c_str(s1); T1 = new_raw(Type, s1, $I(8)); }
      uint64_t h1 = hash(T1);
      if (how == 1) { strcpy(buf, NP[pi][1]); }                                  /* renamed while alive: the caller owns the text */
      else {
        del_raw(T1);
        if (how == 0) strcpy(buf, NP[pi][1]); else del_raw(s1);
      }
      if (how == 2) { s2 = new_raw(String, $S((char*)NP[pi][1])); p2 = c_str(s2); T2 = new_raw(Type, s2, $I(8)); }
      else if (how == 1) { T2 = T1; p2 = buf; }
      else { T2 = new_type_raw(buf, 8, NULL, 0, 0); p2 = buf; }
      uint64_t h2 = hash(T2);                                                     /* FIRST hash after the storage changed */
      if (!T3) T3 = new_type_raw(NP[pi][1], 8, NULL, 0, 0);                     /* ... or after */
      nre++; if (p1 == p2) same_ptr++;
      vf.executions++; vf.evaluations++; vf.transitions++; if (p1 == p2) vf.nontrivial++;
      char l[160]; const char* st = how == 0 ? "buffer-rewritten-after-delete" : how == 1 ? "buffer-rewritten-while-alive" : "string-block-recycled";
      if (h1 != hash_data(NP[pi][0], strlen(NP[pi][0]))) { snprintf(l, sizeof l, "type/hash/%s/first-differs-from-hash-of-name", st); vf_violation(l, NULL, "hash of the first type is not the hash of '%s'", NP[pi][0]); }
      if (h2 != hash_data(NP[pi][1], strlen(NP[pi][1]))) { snprintf(l, sizeof l, "type/hash/%s/differs-from-hash-of-name", st); vf_violation(l, NULL, "hash of the type now named '%s' is not the hash of that name%s", NP[pi][1], h2 == h1 ? " (it is the hash of the previous name)" : ""); }
      if (!eq(T2, T3) || hash(T2) != hash(T3) || h2 != hash(T3)) { snprintf(l, sizeof l, "type/hash/%s/equal-types-hash-differently", st); vf_violation(l, NULL, "two types named '%s': eq=%d, hashes %s", NP[pi][1], (int)eq(T2, T3), h2 == hash(T3) ? "equal" : "differ"); }
      del_raw(T2); del_raw(T3); if (s2) del_raw(s2); if (how == 1 && s1) del_raw(s1);
      if (vf_want_sample()) vf_sample("%s", vf_cur);
    }
    vf_extra("name_storage_reuse_cases", "%" PRIu64, nre);
    vf_extra("name_storage_same_pointer", "%" PRIu64, same_ptr);
  }
  /* transitivity over all triples */
  static signed char M[160][160];
  for (int a = 0; a < n; a++) for (int b = 0; b < n; b++) M[a][b] = (signed char)sgn(cmp(TO[a], TO[b]));
  for (int a = 0; a < n; a++) for (int b = 0; b < n; b++) for (int c = 0; c < n; c++) {
    vf.evaluations++;
    if (M[a][b] <= 0 && M[b][c] <= 0 && M[a][c] > 0) {
      vf_set_cur("typecmp a=%s b=%s", TN[a], TN[c]);
      vf_violation("type/cmp/triple/not-transitive", NULL, "%s <= %s <= %s but %s > %s", TN[a], TN[b], TN[c], TN[a], TN[c]);
    }
  }
}

/* ---- mode=api (C12): public functions on objects whose type lacks the class --------------------------------- */

enum { AF_LEN, AF_PUSH, AF_PUSH_AT, AF_POP, AF_POP_AT, AF_GET, AF_SET, AF_MEM, AF_REM, AF_KEY_TYPE, AF_VAL_TYPE,
       AF_C_INT, AF_C_FLOAT, AF_C_STR, AF_ITER_INIT, AF_ITER_NEXT, AF_ITER_LAST, AF_ITER_PREV, AF_ITER_TYPE,
       AF_CALL, AF_SOPEN, AF_SCLOSE, AF_SSEEK, AF_STELL, AF_SFLUSH, AF_SEOF, AF_SREAD, AF_SWRITE,
       AF_LOCK, AF_UNLOCK, AF_TRYLOCK, AF_CURRENT, AF_REF, AF_DEREF, AF_SORT, AF_SORT_BY, AF_RESIZE, AF_CONCAT, AF_APPEND,
       AF_FORMAT_TO, AF_FORMAT_FROM, AF_LOOK_FROM, AF_START, AF_STOP, AF_JOIN, AF_RUNNING, NFN };
static const struct { const char* fn; const char* cls; const char* mem; } FN[NFN] = {
  { "len", "Len", "len" }, { "push", "Push", "push" }, { "push_at", "Push", "push_at" }, { "pop", "Push", "pop" }, { "pop_at", "Push", "pop_at" },
  { "get", "Get", "get" }, { "set", "Get", "set" }, { "mem", "Get", "mem" }, { "rem", "Get", "rem" }, { "key_type", "Get", "key_type" }, { "val_type", "Get", "val_type" },
  { "c_int", "C_Int", "c_int" }, { "c_float", "C_Float", "c_float" }, { "c_str", "C_Str", "c_str" },
  { "iter_init", "Iter", "iter_init" }, { "iter_next", "Iter", "iter_next" }, { "iter_last", "Iter", "iter_last" }, { "iter_prev", "Iter", "iter_prev" }, { "iter_type", "Iter", "iter_type" },
  { "call_with", "Call", "call_with" },
  { "sopen", "Stream", "sopen" }, { "sclose", "Stream", "sclose" }, { "sseek", "Stream", "sseek" }, { "stell", "Stream", "stell" }, { "sflush", "Stream", "sflush" },
  { "seof", "Stream", "seof" }, { "sread", "Stream", "sread" }, { "swrite", "Stream", "swrite" },
  { "lock", "Lock", "lock" }, { "unlock", "Lock", "unlock" }, { "trylock", "Lock", "trylock" },
  { "current", "Current", "current" }, { "ref", "Pointer", "ref" }, { "deref", "Pointer", "deref" },
  { "sort", "Sort", "sort_by" }, { "sort_by", "Sort", "sort_by" }, { "resize", "Resize", "resize" },
  { "concat", "Concat", "concat" }, { "append", "Concat", "append" },
  { "format_to", "Format", "format_to" }, { "format_from", "Format", "format_from" }, { "look_from", "Show", "look" },
  { "start", "Start", "start" }, { "stop", "Start", "stop" }, { "join", "Start", "join" }, { "running", "Start", "running" },
};

static bool api_lt(var a, var b) { return a < b; }
static var null_fn(var args);

static void api_call(int f, var T, var o) {
  char buf[8] = { 0 };
  switch (f) {
  case AF_LEN: len(o); break;
  case AF_PUSH: push(o, $I(1)); break;
  case AF_PUSH_AT: push_at(o, $I(1), $I(0)); break;
  case AF_POP: pop(o); break;
  case AF_POP_AT: pop_at(o, $I(0)); break;
  case AF_GET: get(o, $I(0)); break;
  case AF_SET: set(o, $I(0), $I(1)); break;
  case AF_MEM: mem(o, $I(0)); break;
  case AF_REM: rem(o, $I(0)); break;
  case AF_KEY_TYPE: key_type(o); break;
  case AF_VAL_TYPE: val_type(o); break;
  case AF_C_INT: c_int(o); break;
  case AF_C_FLOAT: c_float(o); break;
  case AF_C_STR: c_str(o); break;
  case AF_ITER_INIT: iter_init(o); break;
  case AF_ITER_NEXT: iter_next(o, $I(0)); break;
  case AF_ITER_LAST: iter_last(o); break;
  case AF_ITER_PREV: iter_prev(o, $I(0)); break;
  case AF_ITER_TYPE: iter_type(o); break;
  case AF_CALL: call_with(o, tuple()); break;
  case AF_SOPEN: sopen(o, $S("/nonexistent/x"), $S("r")); break;
  case AF_SCLOSE: sclose(o); break;
  case AF_SSEEK: sseek(o, 0, SEEK_SET); break;
  case AF_STELL: stell(o); break;
  case AF_SFLUSH: sflush(o); break;
  case AF_SEOF: seof(o); break;
  case AF_SREAD: sread(o, buf, 1); break;
  case AF_SWRITE: swrite(o, buf, 1); break;
  case AF_LOCK: lock(o); break;
  case AF_UNLOCK: unlock(o); break;
  case AF_TRYLOCK: trylock(o); break;
  case AF_CURRENT: current(T); break;
  case AF_REF: ref(o, $I(0)); break;
  case AF_DEREF: deref(o); break;
  case AF_SORT: sort(o); break;
  case AF_SORT_BY: sort_by(o, api_lt); break;
  case AF_RESIZE: resize(o, 0); break;
  case AF_CONCAT: concat(o, o); break;
  case AF_APPEND: append(o, $I(1)); break;
  case AF_FORMAT_TO: format_to(o, 0, "x"); break;
  case AF_FORMAT_FROM: format_from(o, 0, "x"); break;
  case AF_LOOK_FROM: look_from(o, $S("1"), 0); break;
  case AF_START: start(o); break;
  case AF_STOP: stop(o); break;
  case AF_JOIN: join(o); break;
  case AF_RUNNING: running(o); break;
  }
}

static const char* WARMN[3] = { "cold", "warm", "after-current" };

/* bring the type's caches into state w: 0 cold; 1 every class but `skip` looked up through the public lookups;
   2 as 1, and current(T) really called when T has it (the call the scenario of the property names) */
static void api_warm(int ti, int w, int skip) {
  restore_type(TI_TYPE); if (ti > 0) restore_type(ti);
  if (w == 0) return;
  for (int c = 0; c < NBC; c++) if (c != skip) { instance(BT[ti].obj, U[c].obj); type_implements(BT[ti].T, U[c].obj); }
  if (w == 2) current(BT[ti].T);
}

static int lacks(int ti, int ci, int mi) {
  var di = declared(&BT[ti], ci, NULL);
  return !di || *(var*)((char*)di + U[ci].off[mi]) == NULL;
}

static void mode_api(void) {
  vf.phase = "api";
  int cur_c = find_class("Current");
  uint64_t ncalls = 0, ncont = 0;
  restore_world();
  for (int ti = 0; ti < NTY; ti++) {
    if (!in_shard(ti)) continue;
    int has_current = !lacks(ti, cur_c, 0);
    for (int f = 0; f < NFN; f++) {
      int ci = find_class(FN[f].cls), mi = find_member(ci, FN[f].mem);
      if (mi < 0) fatal("api table: %s.%s", FN[f].cls, FN[f].mem);
      if (!lacks(ti, ci, mi)) continue;           /* the type provides it: calling it on a blank object is not this check */
      int absent = declared(&BT[ti], ci, NULL) == NULL;
      for (int w = 0; w < 3; w++) {
        if (w == 2 && !has_current) continue;
        vf_set_cur("api type=%s fn=%s state=%s", TYS[ti].name, FN[f].fn, WARMN[w]);
        if (vf.replay && strcmp(vf.replay, vf_cur) != 0) continue;
        vf_watchdog(60);
        var o = BT[ti].obj;
        memset(o, 0, 8 * sizeof(var));
        static var before[4 + 8];
        /* the cache state is prepared inside the try block: the harness's own exception bookkeeping (which
           calls current(Thread)) must not warm the type between the preparation and the call */
        var e = VF_CATCH({ api_warm(ti, w, ci); memcpy(before, OBJ[ti], sizeof before); api_call(f, BT[ti].T, o); });
        ncalls++; vf.executions++; vf.transitions++; vf.evaluations++;
        if (w) vf.nontrivial++;
        char l[200];
        const char* why = absent ? "absent-class" : "empty-member";
        if (!e) { snprintf(l, sizeof l, "dispatch-api/%s/%s/%s/no-exception", FN[f].fn, why, WARMN[w]); vf_violation(l, NULL, "%s on an object of type %s returned normally; the type %s class %s%s%s: ClassError expected and nothing may be invoked", FN[f].fn, TYS[ti].name, absent ? "does not implement" : "leaves empty in", FN[f].cls, absent ? "" : " the member ", absent ? "" : FN[f].mem); }
        else if (e != ClassError) { snprintf(l, sizeof l, "dispatch-api/%s/%s/%s/raised-%s-not-ClassError", FN[f].fn, why, WARMN[w], vf_exc_name(e)); vf_violation(l, NULL, "%s on an object of type %s raised %s, ClassError expected", FN[f].fn, TYS[ti].name, vf_exc_name(e)); }
        if (memcmp(before, OBJ[ti], sizeof before) != 0) { snprintf(l, sizeof l, "dispatch-api/%s/%s/%s/object-changed", FN[f].fn, why, WARMN[w]); vf_violation(l, NULL, "%s on an object of type %s changed the object's bytes", FN[f].fn, TYS[ti].name); memcpy(OBJ[ti], before, sizeof before); }
        if (vf_want_sample()) vf_sample("%s", vf_cur);
      }
    }
  }
  /* containers offered an element / key / value whose type cannot be converted to the element type */
  static const struct { const char* name; int map; int tree; int et; } CK[] = {
    { "Array-of-Float", 0, 0, 1 }, { "Array-of-Int", 0, 0, 0 }, { "Array-of-String", 0, 0, 2 },
    { "List-of-Float", 0, 1, 1 }, { "List-of-Int", 0, 1, 0 }, { "List-of-String", 0, 1, 2 },
    { "Table-Int-to-Float", 1, 0, 1 }, { "Table-String-to-Int", 1, 0, 0 }, { "Tree-Int-to-Float", 1, 1, 1 }, { "Tree-String-to-Int", 1, 1, 0 },
  };
  static const char* conv[3] = { "C_Int", "C_Float", "C_Str" };
  static const char* SOP[] = { "push", "push_at-0", "push_at-1", "set-0", "append", "mem", "rem" };
  static const char* MOP[] = { "set-value", "set-key", "get", "mem", "rem" };
  for (size_t k = 0; k < sizeof CK / sizeof CK[0]; k++) {
    var ET = CK[k].et == 0 ? Int : CK[k].et == 1 ? Float : String;      /* element / value type */
    var KT = NULL;
    var c = NULL;
    int kstr = 0;
    for (int ti = 0; ti < NTY; ti++) {
      if (!in_shard(ti)) continue;
      for (int w = 0; w < 3; w++) {
        int nops = CK[k].map ? 5 : 7;
        for (int op = 0; op < nops; op++) {
          /* which conversion does this operation need from the foreign object? */
          int need;
          if (!CK[k].map) need = CK[k].et;
          else { kstr = strncmp(CK[k].name + (CK[k].tree ? 5 : 6), "String", 6) == 0; need = op == 0 ? CK[k].et : (kstr ? 2 : 0); }
          int nci = find_class(conv[need]);
          if (!lacks(ti, nci, 0)) continue;
          if (w == 2 && lacks(ti, cur_c, 0)) continue;
          vf_set_cur("container kind=%s obj=%s op=%s state=%s", CK[k].name, TYS[ti].name, CK[k].map ? MOP[op] : SOP[op], WARMN[w]);
          if (vf.replay && strcmp(vf.replay, vf_cur) != 0) continue;
          vf_watchdog(60);
          if (!c) {
            if (!CK[k].map) { c = CK[k].tree ? (var)new_raw(List, ET) : (var)new_raw(Array, ET); }
            else { KT = kstr ? String : Int; c = CK[k].tree ? (var)new_raw(Tree, KT, ET) : (var)new_raw(Table, KT, ET); }
            for (int i = 0; i < 2; i++) {
              var v = CK[k].et == 0 ? (var)$I(10 + i) : CK[k].et == 1 ? (var)$F(10.5 + i) : (var)$S(i ? "eleven" : "ten");
              if (!CK[k].map) push(c, v);
              else set(c, kstr ? (var)$S(i ? "k1" : "k0") : (var)$I(i), v);
            }
          }
          var o = BT[ti].obj;
          memset(o, 0, 8 * sizeof(var));
          volatile bool bres = false; volatile var gres = NULL;
          var k0 = kstr ? (var)$S("k0") : (var)$I(0);
          var vok = CK[k].et == 0 ? (var)$I(7) : CK[k].et == 1 ? (var)$F(7.5) : (var)$S("seven");
          var e;
          if (!CK[k].map) {
            switch (op) {
            case 0: e = VF_CATCH({ api_warm(ti, w, nci); push(c, o); }); break;
            case 1: e = VF_CATCH({ api_warm(ti, w, nci); push_at(c, o, $I(0)); }); break;
            case 2: e = VF_CATCH({ api_warm(ti, w, nci); push_at(c, o, $I(1)); }); break;
            case 3: e = VF_CATCH({ api_warm(ti, w, nci); set(c, $I(0), o); }); break;
            case 4: e = VF_CATCH({ api_warm(ti, w, nci); append(c, o); }); break;
            case 5: e = VF_CATCH({ api_warm(ti, w, nci); bres = mem(c, o); }); break;
            default: e = VF_CATCH({ api_warm(ti, w, nci); rem(c, o); }); break;
            }
          } else {
            switch (op) {
            case 0: e = VF_CATCH({ api_warm(ti, w, nci); set(c, k0, o); }); break;
            case 1: e = VF_CATCH({ api_warm(ti, w, nci); set(c, o, vok); }); break;
            case 2: e = VF_CATCH({ api_warm(ti, w, nci); gres = get(c, o); }); break;
            case 3: e = VF_CATCH({ api_warm(ti, w, nci); bres = mem(c, o); }); break;
            default: e = VF_CATCH({ api_warm(ti, w, nci); rem(c, o); }); break;
            }
          }
          ncont++; vf.executions++; vf.transitions++; vf.evaluations++;
          if (w) vf.nontrivial++;
          const char* opn = CK[k].map ? MOP[op] : SOP[op];
          int is_query = CK[k].map ? op >= 2 : op >= 5;
          char l[200]; int bad = 0;
          if (!e) {
            /* an insertion must be refused; a query may answer "not there" but not "there" */
            int silent = !is_query || (strcmp(opn, "mem") == 0 ? (bool)bres : 1);
            if (silent) { snprintf(l, sizeof l, "dispatch-api/container/%s/%s/%s/no-exception", CK[k].name, opn, WARMN[w]); vf_violation(l, NULL, "%s with an object of type %s (which has no %s) succeeded", opn, TYS[ti].name, conv[need]); bad = 1; }
          } else if (e != ClassError && e != TypeError && e != ValueError && !(is_query && e == KeyError)) {
            snprintf(l, sizeof l, "dispatch-api/container/%s/%s/%s/raised-%s", CK[k].name, opn, WARMN[w], vf_exc_name(e)); vf_violation(l, NULL, "%s with an object of type %s raised %s", opn, TYS[ti].name, vf_exc_name(e)); bad = 1;
          }
          /* the container is as it was: two elements / bindings with their values */
          volatile int okc = 1;
          var e2 = VF_CATCH({
            if (len(c) != 2) okc = 0;
            for (int i = 0; i < 2 && okc; i++) {
              var g = CK[k].map ? get(c, kstr ? (var)$S(i ? "k1" : "k0") : (var)$I(i)) : get(c, $I(i));
              if (CK[k].et == 0 && c_int(g) != 10 + i) okc = 0;
              if (CK[k].et == 1 && c_float(g) != 10.5 + i) okc = 0;
              if (CK[k].et == 2 && strcmp(c_str(g), i ? "eleven" : "ten") != 0) okc = 0;
            }
          });
          if (e2 || !okc) {
            snprintf(l, sizeof l, "dispatch-api/container/%s/%s/%s/container-changed", CK[k].name, opn, WARMN[w]);
            vf_violation(l, NULL, "after the refused %s with an object of type %s the container no longer holds its two original items (len %s)", opn, TYS[ti].name, e2 ? "raises" : "or contents differ");
            bad = 1;
          }
          if (bad) { var e3 = VF_CATCH(del_raw(c)); (void)e3; c = NULL; }
          if (vf_want_sample()) vf_sample("%s", vf_cur);
        }
      }
    }
    if (c) { del_raw(c); c = NULL; }
  }

  /* ---- objects that cannot be iterated, given to foreach and to the library loops that take an iterable ---------- */
  {
    int iter_c = find_class("Iter"), iter_m = find_member(iter_c, "iter_init");
    /* real objects next to the blank ones: Int, Float, String, a closed File, a Function, an object of a run-time
       type that declares a class of its own but not Iter */
    static var ob[4 + 8];
    var rtT = new_type_raw("RtNoIter", 16, &U[NBC].inst[0], 1, 0);
    var extra[6]; const char* extran[6] = { "Int-5", "Float-2.5", "String-ab", "File-closed", "Function", "object-of-runtime-type" };
    extra[0] = new_raw(Int, $I(5)); extra[1] = new_raw(Float, $F(2.5)); extra[2] = new_raw(String, $S("ab"));
    extra[3] = new_raw(File); extra[4] = new_raw(Function, $(Function, null_fn)); extra[5] = header_init(ob, rtT, AllocStack);
    static const char* RN[] = { "none", "Array-of-Int", "List-of-Int", "Tuple", "Table-Int-to-Int", "Tree-Int-to-Int" };
    static const char* ON[] = { "foreach", "assign", "concat", "eq", "cmp" };
    var ta = new_raw(Int, $I(1)), tb = new_raw(Int, $I(2));
    uint64_t niter = 0;
    for (int oi = 0; oi < NTY + 6; oi++) {
      if (oi < NTY && !in_shard(oi)) continue;
      var o; const char* on; int ti = -1;
      if (oi < NTY) {
        if (!lacks(oi, iter_c, iter_m)) continue;
        /* a blank object is only a fair argument if the loops cannot reach a method of its own (len, get, cmp, ...
           of a String or File whose fields were never set up): value types are represented by the real objects below */
        static const char* touch[] = { "Len", "Get", "Cmp", "Hash", "C_Int", "C_Float", "C_Str", "Assign", "Copy", "Pointer", "Size", "New" };
        int reach = 0;
        for (size_t q = 0; q < sizeof touch / sizeof touch[0]; q++) if (declared(&BT[oi], find_class(touch[q]), NULL)) reach = 1;
        if (reach) continue;
        o = BT[oi].obj; on = TYS[oi].name; ti = oi;
      }
      else { o = extra[oi - NTY]; on = extran[oi - NTY]; }
      for (int r = 0; r < 6; r++) for (int op = 0; op < 5; op++) {
        if ((r == 0) != (op == 0)) continue;                                   /* foreach has no receiver */
        if (op == 2 && r >= 4) continue;                                       /* Table and Tree have no Concat */
        for (int w = 0; w < (ti >= 0 ? 2 : 1); w++) {
          vf_set_cur("iterable obj=%s%s recv=%s op=%s state=%s", ti >= 0 ? "blank-" : "", on, RN[r], ON[op], WARMN[w]);
          if (vf.replay && strcmp(vf.replay, vf_cur) != 0) continue;
          vf_watchdog(60);
          if (ti >= 0) memset(o, 0, 8 * sizeof(var));
          var c = r == 1 ? (var)new_raw(Array, Int, $I(10), $I(11)) : r == 2 ? (var)new_raw(List, Int, $I(10), $I(11)) : r == 3 ? (var)new_raw(Tuple, ta, tb)
                : r == 4 ? (var)new_raw(Table, Int, Int, $I(0), $I(10), $I(1), $I(11)) : r == 5 ? (var)new_raw(Tree, Int, Int, $I(0), $I(10), $I(1), $I(11)) : NULL;
          volatile int steps = 0;
          var e;
          switch (op) {
          case 0: e = VF_CATCH({ if (ti >= 0) api_warm(ti, w, iter_c); foreach (x in o) { steps++; if (steps > 4) break; } }); break;
          case 1: e = VF_CATCH({ if (ti >= 0) api_warm(ti, w, iter_c); assign(c, o); }); break;
          case 2: e = VF_CATCH({ if (ti >= 0) api_warm(ti, w, iter_c); concat(c, o); }); break;
          case 3: e = VF_CATCH({ if (ti >= 0) api_warm(ti, w, iter_c); eq(c, o); }); break;
          default: e = VF_CATCH({ if (ti >= 0) api_warm(ti, w, iter_c); cmp(c, o); }); break;
          }
          niter++; vf.executions++; vf.transitions++; vf.evaluations++;
          if (w) vf.nontrivial++;
          char l[200];
          const char* of = ti >= 0 ? "blank-object" : on;
          if (!e) { snprintf(l, sizeof l, "dispatch-api/iterable/%s/%s/%s/%s/no-exception", ON[op], RN[r], of, WARMN[w]); vf_violation(l, NULL, "%s over an object of type %s, which has no Iter, returned normally (%d loop steps)", ON[op], on, (int)steps); }
          else if (e != ClassError && e != TypeError && e != ValueError) { snprintf(l, sizeof l, "dispatch-api/iterable/%s/%s/%s/%s/raised-%s", ON[op], RN[r], of, WARMN[w], vf_exc_name(e)); vf_violation(l, NULL, "%s over an object of type %s raised %s", ON[op], on, vf_exc_name(e)); }
          if (steps) { snprintf(l, sizeof l, "dispatch-api/iterable/%s/%s/%s/%s/loop-body-ran", ON[op], RN[r], of, WARMN[w]); vf_violation(l, NULL, "the loop body ran %d times", (int)steps); }
          if (c) {
            volatile int okc = 1;
            var e2 = VF_CATCH({
              if (len(c) != 2) okc = 0;
              if (okc && r == 3 && (get(c, $I(0)) != ta || get(c, $I(1)) != tb)) okc = 0;
              if (okc && r != 3) for (int i = 0; i < 2; i++) if (c_int(get(c, $I(i))) != 10 + i) okc = 0;
            });
            if (e2 || !okc) { snprintf(l, sizeof l, "dispatch-api/iterable/%s/%s/%s/%s/container-changed", ON[op], RN[r], of, WARMN[w]); vf_violation(l, NULL, "after the refused %s from an object of type %s the %s no longer holds its two items", ON[op], on, RN[r]); }
            var e3 = VF_CATCH(del_raw(c)); (void)e3;
          }
          if (vf_want_sample()) vf_sample("%s", vf_cur);
        }
      }
    }
    vf_extra("iterable_operations", "%" PRIu64, niter);
  }
  /* ---- real objects of types that implement a class in part: a member they have, then one they lack, inside ONE try
          block with nothing in between (the second call must raise ClassError, not call through the empty member) ---- */
  {
    uint64_t npair = 0;
    static const char* PN[] = { "String:mem;get", "String:mem;set", "String:get;mem;get", "Tuple:iter_init;iter_type", "Tuple:iter_last;iter_prev;iter_type",
                                "Range:get;set", "Range:mem;rem", "Slice:get;set", "Slice:mem;rem", "Range:get;mem;set;get;rem" };
    for (int pi = 0; pi < (int)(sizeof PN / sizeof PN[0]); pi++) {
      vf_set_cur("apipair %s", PN[pi]);
      if (vf.replay && strcmp(vf.replay, vf_cur) != 0) continue;
      vf_watchdog(60);
      var str = new_raw(String, $S("ab"));
      var ta = new_raw(Int, $I(1)), tb = new_raw(Int, $I(2));
      var tup = new_raw(Tuple, ta, tb);
      var arr = new_raw(Array, Int, $I(10), $I(11), $I(12));
      volatile int step = 0; int want = 0; var e = NULL; var e2 = NULL;
      switch (pi) {
      case 0: want = 1; e = VF_CATCH({ mem(str, $S("a")); step = 1; get(str, $I(0)); step = 2; }); break;
      case 1: want = 1; e = VF_CATCH({ mem(str, $S("b")); step = 1; set(str, $I(0), $S("x")); step = 2; }); break;
      case 2: want = 1; e2 = VF_CATCH(get(str, $I(0))); e = VF_CATCH({ mem(str, $S("a")); step = 1; get(str, $I(0)); step = 2; }); if (e2 != ClassError) e = e2 ? e2 : Terminal; break;
      case 3: want = 1; e = VF_CATCH({ iter_init(tup); step = 1; iter_type(tup); step = 2; }); break;
      case 4: want = 2; e = VF_CATCH({ var l = iter_last(tup); step = 1; iter_prev(tup, l); step = 2; iter_type(tup); step = 3; }); break;
      case 5: want = 1; e = VF_CATCH({ var r = range($I(3)); get(r, $I(0)); step = 1; set(r, $I(0), $I(1)); step = 2; }); break;
      case 6: want = 1; e = VF_CATCH({ var r = range($I(3)); mem(r, $I(1)); step = 1; rem(r, $I(1)); step = 2; }); break;
      case 7: want = 1; e = VF_CATCH({ var sl = slice(arr, $I(1)); get(sl, $I(0)); step = 1; set(sl, $I(0), $I(5)); step = 2; }); break;
      case 8: want = 1; e = VF_CATCH({ var sl = slice(arr, $I(1)); mem(sl, $I(10)); step = 1; rem(sl, $I(10)); step = 2; }); break;
      default: want = 2; e = VF_CATCH({ var r = range($I(3)); get(r, $I(0)); step = 1; mem(r, $I(1)); step = 2; set(r, $I(0), $I(1)); step = 3; }); break;
      }
      npair++; vf.executions++; vf.transitions++; vf.evaluations++; vf.nontrivial++;
      char l[200];
      if (e != ClassError) { snprintf(l, sizeof l, "dispatch-api/pair/%s/%s", PN[pi], e ? "wrong-exception" : "no-exception"); vf_violation(l, NULL, "the member the type lacks was reached after %d calls and gave %s, ClassError expected", (int)step, e == Terminal ? "no ClassError the first time" : vf_exc_name(e)); }
      else if (step != want) { snprintf(l, sizeof l, "dispatch-api/pair/%s/raised-at-the-wrong-call", PN[pi]); vf_violation(l, NULL, "ClassError after %d completed calls, expected after %d", (int)step, want); }
      if (strcmp(c_str(str), "ab") != 0 || len(tup) != 2 || len(arr) != 3 || c_int(get(arr, $I(1))) != 11) { snprintf(l, sizeof l, "dispatch-api/pair/%s/object-changed", PN[pi]); vf_violation(l, NULL, "an object changed"); }
      del_raw(str); del_raw(tup); del_raw(arr); del_raw(ta); del_raw(tb);
      if (vf_want_sample()) vf_sample("%s", vf_cur);
    }
    vf_extra("api_partial_class_pairs", "%" PRIu64, npair);
  }
  vf_extra("api_calls", "%" PRIu64, ncalls);
  vf_extra("container_operations", "%" PRIu64, ncont);
  restore_world();
}

static int vf_extra_skipped;

/* ---- mode=null (C12): NULL as receiver and in every further object position -------------------------------- */

enum { K_ARRAY, K_LIST, K_TABLE, K_TREE, K_STRING, K_INT, K_FLOAT, K_REF, K_BOX, K_TUPLE, K_RANGE, K_FILE, K_MUTEX, K_FUNCTION, NK };
static const char* KN[NK] = { "Array", "List", "Table", "Tree", "String", "Int", "Float", "Ref", "Box", "Tuple", "Range", "File", "Mutex", "Function" };

static var g_int7, g_idx0, g_strA, g_strR, g_out, g_in, g_ta, g_tb, g_reft, g_args0;
static var RCV[NK];
static int64_t fn_calls;
static var null_fn(var args) { fn_calls++; return NULL; }
static void null_markcb(var gc, void* p) { (void)gc; (void)p; }

/* receivers are collector roots: some (Range, Box) keep collector-managed parts that must stay marked */
static var make_recv(int k) {
  switch (k) {
  case K_ARRAY: return new_root(Array, Int, $I(10), $I(11));
  case K_LIST: return new_root(List, Int, $I(10), $I(11));
  case K_TABLE: return new_root(Table, Int, Int, $I(0), $I(10), $I(1), $I(11));
  case K_TREE: return new_root(Tree, Int, Int, $I(0), $I(10), $I(1), $I(11));
  case K_STRING: return new_root(String, $S("ab"));
  case K_INT: return new_root(Int, $I(5));
  case K_FLOAT: return new_root(Float, $F(2.5));
  case K_REF: return new_root(Ref, g_reft);
  case K_BOX: return new_root(Box, new_root(Int, $I(88)));
  case K_TUPLE: return new_root(Tuple, g_ta, g_tb);
  case K_RANGE: return new_root(Range, $I(3));
  case K_FILE: return new_root(File);
  case K_MUTEX: return new_root(Mutex);
  default: return new_root(Function, $(Function, null_fn));
  }
}

/* what the receiver holds, as text (no addresses except identity tests turned into 0/1) */
static void fingerprint(int k, var o, char* b, size_t cap) {
  size_t n = 0;
  switch (k) {
  case K_ARRAY: case K_LIST:
    n += snprintf(b + n, cap - n, "len=%zu:", len(o));
    for (size_t i = 0; i < len(o) && i < 6; i++) n += snprintf(b + n, cap - n, "%" PRId64 ",", c_int(get(o, $I((int64_t)i))));
    { size_t cnt = 0; foreach (x in o) { cnt++; if (cnt > 8) break; } n += snprintf(b + n, cap - n, " iter=%zu", cnt); }
    break;
  case K_TABLE: case K_TREE:
    n += snprintf(b + n, cap - n, "len=%zu:", len(o));
    for (int i = 0; i < 3; i++) { if (mem(o, $I(i))) n += snprintf(b + n, cap - n, "%d=%" PRId64 ",", i, c_int(get(o, $I(i)))); }
    { size_t cnt = 0; foreach (x in o) { cnt++; if (cnt > 8) break; } n += snprintf(b + n, cap - n, " iter=%zu", cnt); }
    break;
  case K_STRING: snprintf(b, cap, "\"%s\" len=%zu", c_str(o), len(o)); break;
  case K_INT: snprintf(b, cap, "%" PRId64, c_int(o)); break;
  case K_FLOAT: snprintf(b, cap, "%g", c_float(o)); break;
  case K_REF: snprintf(b, cap, "ref-to-target=%d", deref(o) == g_reft); break;
  case K_BOX: { var c = deref(o); snprintf(b, cap, "box=%" PRId64, c ? c_int(c) : -1); } break;
  case K_TUPLE: snprintf(b, cap, "len=%zu a=%d b=%d", len(o), len(o) > 0 && get(o, $I(0)) == g_ta, len(o) > 1 && get(o, $I(1)) == g_tb); break;
  case K_RANGE: { struct Range* r = o; snprintf(b, cap, "%" PRId64 "..%" PRId64 " step %" PRId64 " len=%zu", r->start, r->stop, r->step, len(o)); } break;
  case K_FILE: snprintf(b, cap, "file-open=%d", ((struct File*)o)->file != NULL); break;
  case K_MUTEX: { bool got = trylock(o); if (got) unlock(o); snprintf(b, cap, "mutex-free=%d", (int)got); } break;
  default: snprintf(b, cap, "func-ok=%d", ((struct Function*)o)->func == null_fn); break;
  }
}

/* one further valid operation on the receiver, undone again */
static int still_usable(int k, var o) {
  switch (k) {
  case K_ARRAY: case K_LIST: push(o, $I(12)); if (len(o) != 3 || c_int(get(o, $I(2))) != 12) return 0; pop(o); return len(o) == 2;
  case K_TABLE: case K_TREE: set(o, $I(2), $I(12)); if (len(o) != 3 || c_int(get(o, $I(2))) != 12) return 0; rem(o, $I(2)); return len(o) == 2;
  case K_STRING: append(o, $S("c")); if (strcmp(c_str(o), "abc") != 0) return 0; assign(o, $S("ab")); return strcmp(c_str(o), "ab") == 0;
  case K_INT: assign(o, $I(6)); if (c_int(o) != 6) return 0; assign(o, $I(5)); return 1;
  case K_FLOAT: assign(o, $F(3.5)); if (c_float(o) != 3.5) return 0; assign(o, $F(2.5)); return 1;
  case K_REF: return deref(o) == g_reft;
  case K_BOX: return deref(o) != NULL && c_int(deref(o)) == 88;
  case K_TUPLE: return get(o, $I(1)) == g_tb;
  case K_RANGE: { size_t c = 0; foreach (x in o) { c++; if (c > 8) break; } return c == 3; }
  case K_FILE: { var e = VF_CATCH(seof(o)); return e == IOError; }      /* a closed File still refuses use, nothing more */
  case K_MUTEX: lock(o); unlock(o); return 1;
  default: { int64_t c0 = fn_calls; call_with(o, g_args0); return fn_calls == c0 + 1; }
  }
}

enum { N_LEN, N_PUSH, N_PUSH_AT, N_POP, N_POP_AT, N_GET, N_SET, N_MEM, N_REM, N_KEY_TYPE, N_VAL_TYPE,
       N_C_INT, N_C_FLOAT, N_C_STR, N_ITER_INIT, N_ITER_NEXT, N_ITER_LAST, N_ITER_PREV, N_ITER_TYPE,
       N_CALL, N_SOPEN, N_SCLOSE, N_SSEEK, N_STELL, N_SFLUSH, N_SEOF, N_SREAD, N_SWRITE,
       N_LOCK, N_UNLOCK, N_TRYLOCK, N_CURRENT, N_REF, N_DEREF, N_SORT, N_SORT_BY, N_RESIZE, N_CONCAT, N_APPEND,
       N_FORMAT_TO, N_FORMAT_FROM, N_LOOK_FROM, N_SHOW_TO, N_START, N_STOP, N_JOIN, N_RUNNING,
       N_TYPE_OF, N_CAST, N_INSTANCE, N_IMPLEMENTS, N_TYPE_INSTANCE, N_TYPE_IMPLEMENTS, N_SIZE,
       N_ALLOC, N_ALLOC_RAW, N_ALLOC_ROOT, N_NEW, N_NEW_RAW, N_NEW_ROOT, N_DEL, N_DEL_RAW, N_DEL_ROOT,
       N_DEALLOC, N_DEALLOC_RAW, N_DEALLOC_ROOT, N_CONSTRUCT, N_DESTRUCT,
       N_ASSIGN, N_COPY, N_SWAP, N_CMP, N_EQ, N_NEQ, N_GT, N_LT, N_GE, N_LE, N_HASH,
       N_PRINT_TO, N_SCAN_FROM, N_MARK, NNF };

/*
** nobj: number of object parameters (receiver included).  cls/mem: what the receiver must implement for the call
** to get as far as the other parameters (NULL: any receiver).  typelevel: the receiver is a type object.
*/
static const struct nfn { const char* fn; int nobj; const char* cls; const char* mem; int typelevel; } NF[NNF] = {
  { "len", 1, "Len", "len" }, { "push", 2, "Push", "push" }, { "push_at", 3, "Push", "push_at" }, { "pop", 1, "Push", "pop" }, { "pop_at", 2, "Push", "pop_at" },
  { "get", 2, "Get", "get" }, { "set", 3, "Get", "set" }, { "mem", 2, "Get", "mem" }, { "rem", 2, "Get", "rem" }, { "key_type", 1, "Get", "key_type" }, { "val_type", 1, "Get", "val_type" },
  { "c_int", 1, "C_Int", "c_int" }, { "c_float", 1, "C_Float", "c_float" }, { "c_str", 1, "C_Str", "c_str" },
  { "iter_init", 1, "Iter", "iter_init" }, { "iter_next", 2, "Iter", "iter_next" }, { "iter_last", 1, "Iter", "iter_last" }, { "iter_prev", 2, "Iter", "iter_prev" }, { "iter_type", 1, "Iter", "iter_type" },
  { "call_with", 2, "Call", "call_with" },
  { "sopen", 3, "Stream", "sopen" }, { "sclose", 1, "Stream", "sclose" }, { "sseek", 1, "Stream", "sseek" }, { "stell", 1, "Stream", "stell" }, { "sflush", 1, "Stream", "sflush" },
  { "seof", 1, "Stream", "seof" }, { "sread", 1, "Stream", "sread" }, { "swrite", 1, "Stream", "swrite" },
  { "lock", 1, "Lock", "lock" }, { "unlock", 1, "Lock", "unlock" }, { "trylock", 1, "Lock", "trylock" },
  { "current", 1, "Current", "current", 1 }, { "ref", 2, "Pointer", "ref" }, { "deref", 1, "Pointer", "deref" },
  { "sort", 1, "Sort", "sort_by" }, { "sort_by", 1, "Sort", "sort_by" }, { "resize", 1, "Resize", "resize" },
  { "concat", 2, "Concat", "concat" }, { "append", 2, "Concat", "append" },
  { "format_to", 1, "Format", "format_to" }, { "format_from", 1, "Format", "format_from" },
  { "look_from", 2, "Show", "look" }, { "show_to", 2, NULL, NULL },
  { "start", 1, "Start", "start" }, { "stop", 1, "Start", "stop" }, { "join", 1, "Start", "join" }, { "running", 1, "Start", "running" },
  { "type_of", 1, NULL, NULL }, { "cast", 2, NULL, NULL }, { "instance", 2, NULL, NULL }, { "implements", 2, NULL, NULL },
  { "type_instance", 2, NULL, NULL, 1 }, { "type_implements", 2, NULL, NULL, 1 }, { "size", 1, NULL, NULL, 1 },
  { "alloc", 1, NULL, NULL, 1 }, { "alloc_raw", 1, NULL, NULL, 1 }, { "alloc_root", 1, NULL, NULL, 1 },
  { "new_with", 2, NULL, NULL, 1 }, { "new_raw_with", 2, NULL, NULL, 1 }, { "new_root_with", 2, NULL, NULL, 1 },
  { "del", 1, NULL, NULL }, { "del_raw", 1, NULL, NULL }, { "del_root", 1, NULL, NULL },
  { "dealloc", 1, NULL, NULL }, { "dealloc_raw", 1, NULL, NULL }, { "dealloc_root", 1, NULL, NULL },
  { "construct_with", 2, NULL, NULL }, { "destruct", 1, NULL, NULL },
  { "assign", 2, NULL, NULL }, { "copy", 1, NULL, NULL }, { "swap", 2, NULL, NULL },
  { "cmp", 2, NULL, NULL }, { "eq", 2, NULL, NULL }, { "neq", 2, NULL, NULL }, { "gt", 2, NULL, NULL }, { "lt", 2, NULL, NULL }, { "ge", 2, NULL, NULL }, { "le", 2, NULL, NULL },
  { "hash", 1, NULL, NULL },
  { "print_to_with", 2, "Format", "format_to" }, { "scan_from_with", 2, "Format", "format_from" }, { "mark", 2, NULL, NULL },
};

static volatile int n_returned;       /* the call came back normally */

static void null_call(int f, var a0, var a1, var a2) {
  char buf[8] = { 0 };
  switch (f) {
  case N_LEN: len(a0); break;
  case N_PUSH: push(a0, a1); break;
  case N_PUSH_AT: push_at(a0, a1, a2); break;
  case N_POP: pop(a0); break;
  case N_POP_AT: pop_at(a0, a1); break;
  case N_GET: get(a0, a1); break;
  case N_SET: set(a0, a1, a2); break;
  case N_MEM: mem(a0, a1); break;
  case N_REM: rem(a0, a1); break;
  case N_KEY_TYPE: key_type(a0); break;
  case N_VAL_TYPE: val_type(a0); break;
  case N_C_INT: c_int(a0); break;
  case N_C_FLOAT: c_float(a0); break;
  case N_C_STR: c_str(a0); break;
  case N_ITER_INIT: iter_init(a0); break;
  case N_ITER_NEXT: iter_next(a0, a1); break;
  case N_ITER_LAST: iter_last(a0); break;
  case N_ITER_PREV: iter_prev(a0, a1); break;
  case N_ITER_TYPE: iter_type(a0); break;
  case N_CALL: call_with(a0, a1); break;
  case N_SOPEN: sopen(a0, a1, a2); break;
  case N_SCLOSE: sclose(a0); break;
  case N_SSEEK: sseek(a0, 0, SEEK_SET); break;
  case N_STELL: stell(a0); break;
  case N_SFLUSH: sflush(a0); break;
  case N_SEOF: seof(a0); break;
  case N_SREAD: sread(a0, buf, 1); break;
  case N_SWRITE: swrite(a0, buf, 1); break;
  case N_LOCK: lock(a0); break;
  case N_UNLOCK: unlock(a0); break;
  case N_TRYLOCK: trylock(a0); break;
  case N_CURRENT: current(a0); break;
  case N_REF: ref(a0, a1); break;
  case N_DEREF: deref(a0); break;
  case N_SORT: sort(a0); break;
  case N_SORT_BY: sort_by(a0, api_lt); break;
  case N_RESIZE: resize(a0, 2); break;
  case N_CONCAT: concat(a0, a1); break;
  case N_APPEND: append(a0, a1); break;
  case N_FORMAT_TO: format_to(a0, 0, "x"); break;
  case N_FORMAT_FROM: format_from(a0, 0, "x"); break;
  case N_LOOK_FROM: look_from(a0, a1, 0); break;
  case N_SHOW_TO: show_to(a0, a1, 0); break;
  case N_START: start(a0); break;
  case N_STOP: stop(a0); break;
  case N_JOIN: join(a0); break;
  case N_RUNNING: running(a0); break;
  case N_TYPE_OF: type_of(a0); break;
  case N_CAST: cast(a0, a1); break;
  case N_INSTANCE: instance(a0, a1); break;
  case N_IMPLEMENTS: implements(a0, a1); break;
  case N_TYPE_INSTANCE: type_instance(a0, a1); break;
  case N_TYPE_IMPLEMENTS: type_implements(a0, a1); break;
  case N_SIZE: size(a0); break;
  case N_ALLOC: alloc(a0); break;
  case N_ALLOC_RAW: alloc_raw(a0); break;
  case N_ALLOC_ROOT: alloc_root(a0); break;
  case N_NEW: new_with(a0, a1); break;
  case N_NEW_RAW: new_raw_with(a0, a1); break;
  case N_NEW_ROOT: new_root_with(a0, a1); break;
  case N_DEL: del(a0); break;
  case N_DEL_RAW: del_raw(a0); break;
  case N_DEL_ROOT: del_root(a0); break;
  case N_DEALLOC: dealloc(a0); break;
  case N_DEALLOC_RAW: dealloc_raw(a0); break;
  case N_DEALLOC_ROOT: dealloc_root(a0); break;
  case N_CONSTRUCT: construct_with(a0, a1); break;
  case N_DESTRUCT: destruct(a0); break;
  case N_ASSIGN: assign(a0, a1); break;
  case N_COPY: copy(a0); break;
  case N_SWAP: swap(a0, a1); break;
  case N_CMP: cmp(a0, a1); break;
  case N_EQ: eq(a0, a1); break;
  case N_NEQ: neq(a0, a1); break;
  case N_GT: gt(a0, a1); break;
  case N_LT: lt(a0, a1); break;
  case N_GE: ge(a0, a1); break;
  case N_LE: le(a0, a1); break;
  case N_HASH: hash(a0); break;
  case N_PRINT_TO: print_to_with(a0, 0, "%$", a1); break;
  case N_SCAN_FROM: scan_from_with(a0, 0, "%i", a1); break;
  case N_MARK: mark(a0, a1, null_markcb); break;
  }
  n_returned = 1;
}

/* a valid object for parameter `pos` of function f when the receiver is of kind k */
static var null_arg(int f, int pos, int k) {
  switch (f) {
  case N_PUSH: case N_APPEND: case N_MEM: case N_REM: case N_REF: case N_ASSIGN:
    return k == K_STRING ? g_strA : k == K_TUPLE ? g_ta : g_int7;
  case N_PUSH_AT: return pos == 1 ? (k == K_STRING ? g_strA : g_int7) : g_idx0;
  case N_SET: return pos == 1 ? g_idx0 : (k == K_STRING ? g_strA : g_int7);
  case N_SOPEN: return pos == 1 ? g_strA : g_strR;
  case N_LOOK_FROM: return g_in;
  case N_SHOW_TO: return g_out;
  case N_PRINT_TO: return g_args0;
  case N_SCAN_FROM: return pos == 0 ? g_in : g_args0;
  case N_CALL: case N_NEW: case N_NEW_RAW: case N_NEW_ROOT: case N_CONSTRUCT: return g_args0;
  case N_CAST: case N_INSTANCE: case N_IMPLEMENTS: case N_TYPE_INSTANCE: case N_TYPE_IMPLEMENTS: return Len;
  default: return g_idx0;
  }
}

/*
** DECISION TABLE.  Everything not listed here must raise an exception from the accept set
** {ValueError, TypeError, ClassError, KeyError, IndexOutOfBoundsError, FormatError, IOError, ResourceError}
** and leave the valid receiver exactly as it was.  Listed: the calls for which NULL is a VALUE the library
** documents or plainly handles - they may return normally, and those marked `stores` may change the receiver.
*/
#define NV_OK      1     /* may return normally; receiver unchanged */
#define NV_STORES  2     /* may return normally and keep the NULL inside the receiver */
#define NV_DEFECT  4     /* crashes / misbehaves on the tree this was written against (proposed/C12-null-*.md): the
                            case is skipped unless defects=1, so that it cannot end the instance and mask the rest */
static int null_decision(int f, int pos, int k) {
  int is_new = f == N_NEW || f == N_NEW_RAW || f == N_NEW_ROOT;
  /* ---- NULL is a value here -------------------------------------------------------------------------- */
  /* mark(NULL, ..) is a documented no-op ("if (self is NULL) return" in GC.c); the gc argument is an opaque
     token that is only handed on to the callback */
  if (f == N_MARK) return NV_OK;
  /* show_to(NULL, out, pos) prints "<NULL>" (Show.c) */
  if (f == N_SHOW_TO && pos == 0) return NV_OK;
  /* del / del_root hand the pointer to the collector's registry, which ignores what it does not hold - the same
     rule that makes del of a stack object a no-op; del_raw(NULL) and dealloc(NULL) do raise */
  if ((f == N_DEL || f == N_DEL_ROOT) && pos == 0) return NV_OK;
  /* call_with(fn, NULL): the argument list is passed through to the user's function untouched */
  if (f == N_CALL && pos == 1) return NV_OK;
  /* a Tuple stores object pointers as they are, NULL included (push, push_at, append, set) */
  if (k == K_TUPLE && ((f == N_PUSH && pos == 1) || (f == N_PUSH_AT && pos == 1) || (f == N_APPEND && pos == 1) || (f == N_SET && pos == 2))) return NV_STORES;
  /* Ref and Box may hold NULL: ref(r, NULL) */
  if (f == N_REF && pos == 1 && (k == K_REF || k == K_BOX)) return NV_STORES;
  /* the Mutex constructor takes no arguments and never looks at the list */
  if ((f == N_CONSTRUCT || is_new) && pos == 1 && k == K_MUTEX) return NV_OK;
  /* iteration position: a Tuple's cursor is the stored item itself (which may be NULL, see above) and is looked
     for by identity; a Range keeps its own cursor and ignores the argument */
  if ((f == N_ITER_NEXT || f == N_ITER_PREV) && pos == 1 && (k == K_TUPLE || k == K_RANGE)) return NV_OK;
  /* ---- recorded defects (each raises ValueError once proposed/C12-null-*.patch is applied) ------------- */
  /* NULL type: Type_Instance indexes the cache slots of NULL -> SIGSEGV */
  if (pos == 0 && (f == N_CURRENT || f == N_TYPE_INSTANCE || f == N_SIZE || f == N_ALLOC || f == N_ALLOC_RAW || f == N_ALLOC_ROOT || is_new)) return NV_DEFECT;
  /* NULL class: Type_Scan's memo loop matches the first triple whose cls memo is still NULL and returns ITS instance
     (implements says true); with every memo filled it dereferences NULL for the name */
  if (pos == 1 && (f == N_INSTANCE || f == N_IMPLEMENTS || f == N_TYPE_INSTANCE || f == N_TYPE_IMPLEMENTS)) return NV_DEFECT;
  /* assign(table_or_tree, NULL) raises ValueError after clearing the receiver */
  if (f == N_ASSIGN && pos == 1 && (k == K_TABLE || k == K_TREE)) return NV_DEFECT;
  /* look_from(string, NULL, pos) raises ValueError after clearing the string */
  if (f == N_LOOK_FROM && pos == 1 && k == K_STRING) return NV_DEFECT;
  /* iter_next / iter_prev with a NULL position: SIGSEGV in List, Table, Tree; a wild pointer from Array */
  if ((f == N_ITER_NEXT || f == N_ITER_PREV) && pos == 1 && (k == K_ARRAY || k == K_LIST || k == K_TABLE || k == K_TREE)) return NV_DEFECT;
  return 0;
}

static void null_case(int f, int pos, int k, int survey) {
  static char fp0[256], fp1[256];
  int typelevel = NF[f].typelevel;
  var recv = pos == 0 ? NULL : (typelevel ? type_of(RCV[k]) : RCV[k]);
  var a[3];
  for (int i = 0; i < 3; i++) a[i] = i == pos ? NULL : i == 0 ? recv : i < NF[f].nobj ? null_arg(f, i, k) : NULL;
  if (pos == 0) vf_set_cur("null fn=%s pos=0", NF[f].fn);
  else vf_set_cur("null fn=%s pos=%d recv=%s", NF[f].fn, pos, KN[k]);
  if (vf.replay && strcmp(vf.replay, vf_cur) != 0) return;
  int dec = null_decision(f, pos, k);
  if ((dec & NV_DEFECT) && !survey && !vf_param_i("defects", 0)) { vf_extra_skipped++; return; }
  vf_watchdog(20);
  if (pos) fingerprint(k, RCV[k], fp0, sizeof fp0);
  n_returned = 0;
  var e = VF_CATCH(null_call(f, a[0], a[1], a[2]));
  vf.executions++; vf.transitions++; vf.evaluations++;
  if (survey) {
    if (pos) { var e2 = VF_CATCH(fingerprint(k, RCV[k], fp1, sizeof fp1)); if (e2) snprintf(fp1, sizeof fp1, "fingerprint raises %s", vf_exc_name(e2)); }
    printf("SURVEY %-16s pos=%d recv=%-8s -> %s%s%s\n", NF[f].fn, pos, pos ? KN[k] : "-", e ? vf_exc_name(e) : "returns",
      pos && strcmp(fp0, fp1) ? "  CHANGED: " : "", pos && strcmp(fp0, fp1) ? fp1 : "");
    fflush(stdout);
    return;
  }
  char l[200];
  const char* rk = pos ? KN[k] : "-";
  if (!e) {
    if (!(dec & (NV_OK | NV_STORES))) {
      snprintf(l, sizeof l, "null/%s/arg%d/%s/returned-normally", NF[f].fn, pos, rk);
      vf_violation(l, NULL, "%s with NULL as argument %d returned normally; an exception (ValueError) is what the property promises", NF[f].fn, pos);
    }
  } else if (e != ValueError && e != TypeError && e != ClassError && e != KeyError && e != IndexOutOfBoundsError && e != FormatError && e != IOError && e != ResourceError) {
    snprintf(l, sizeof l, "null/%s/arg%d/%s/raised-%s", NF[f].fn, pos, rk, vf_exc_name(e));
    vf_violation(l, NULL, "%s with NULL as argument %d raised %s", NF[f].fn, pos, vf_exc_name(e));
  }
  if (e) vf.nontrivial++;
  if (pos) {
    volatile int usable = 1;
    int stores = (dec & NV_STORES) && !e;
    var e2 = NULL;
    if (!stores) {
      e2 = VF_CATCH(fingerprint(k, RCV[k], fp1, sizeof fp1));
      if (e2 || strcmp(fp0, fp1) != 0) {
        snprintf(l, sizeof l, "null/%s/arg%d/%s/receiver-changed", NF[f].fn, pos, rk);
        vf_violation(l, NULL, "after %s(.., NULL at %d, ..) the %s receiver reads %s%s, before the call: %s", NF[f].fn, pos, rk, e2 ? "raises " : "", e2 ? vf_exc_name(e2) : fp1, fp0);
        stores = 1;      /* rebuild below */
      } else {
        e2 = VF_CATCH(usable = still_usable(k, RCV[k]));
        if (e2 || !usable) {
          snprintf(l, sizeof l, "null/%s/arg%d/%s/receiver-unusable", NF[f].fn, pos, rk);
          vf_violation(l, NULL, "after %s(.., NULL at %d, ..) a further valid operation on the %s receiver %s%s", NF[f].fn, pos, rk, e2 ? "raises " : "gives a wrong result", e2 ? vf_exc_name(e2) : "");
          stores = 1;
        }
      }
    }
    if (stores) { RCV[k] = make_recv(k); }     /* the old one is abandoned (it may hold NULL by design) */
  }
  if (vf_want_sample()) vf_sample("%s", vf_cur);
}

struct null_args { int f, pos, k; };
static void null_child(void* p) { struct null_args* a = p; null_case(a->f, a->pos, a->k, 1); }
/* survey=1: every case in a forked child, outcome printed (how the decision table was drawn up) */
static void null_run(int f, int pos, int k, int survey) {
  if (!survey) { null_case(f, pos, k, 0); return; }
  struct null_args a = { f, pos, k };
  struct vf_child r = vf_fork_run(null_child, &a, 20);
  if (r.signaled) printf("SURVEY %-16s pos=%d recv=%-8s -> %s %d\n", NF[f].fn, pos, pos ? KN[k] : "-", r.timed_out ? "HANG" : "SIGNAL", r.sig);
  else if (r.status) printf("SURVEY %-16s pos=%d recv=%-8s -> exit %d\n", NF[f].fn, pos, pos ? KN[k] : "-", r.status);
}

static void mode_null(void) {
  vf.phase = "null";
  int survey = (int)vf_param_i("survey", 0);
  g_int7 = new_raw(Int, $I(7)); g_idx0 = new_raw(Int, $I(0)); g_strA = new_raw(String, $S("a")); g_strR = new_raw(String, $S("r"));
  g_out = new_raw(String, $S("")); g_in = new_raw(String, $S("1 2 3")); g_ta = new_raw(Int, $I(1)); g_tb = new_raw(Int, $I(2));
  g_reft = new_raw(Int, $I(77)); g_args0 = new_raw(Tuple);
  for (int k = 0; k < NK; k++) RCV[k] = make_recv(k);
  /* (a) NULL receiver, simplest first */
  for (int f = 0; f < NNF; f++) null_run(f, 0, 0, survey);
  /* (b) NULL in each further object position, for every receiver kind that gets that far */
  for (int f = 0; f < NNF; f++) {
    for (int pos = 1; pos < NF[f].nobj; pos++) {
      for (int k = 0; k < NK; k++) {
        if (NF[f].cls) {
          int ci = find_class(NF[f].cls), mi = find_member(ci, NF[f].mem);
          var T = NF[f].typelevel ? type_of(type_of(RCV[k])) : type_of(RCV[k]);
          if (!type_implements_method_at_offset(T, U[ci].obj, U[ci].off[mi])) continue;
        }
        null_run(f, pos, k, survey);
      }
    }
  }
  vf_extra("null_cases_skipped_recorded_defect", "%d", vf_extra_skipped);
  if (vf_extra_skipped) vf_note("%d NULL cases that crash or misbehave on the tree without proposed/C12-null-*.patch were skipped (run with defects=1 once it is applied)", vf_extra_skipped);
}

/* ---- cross-check of the hand-written tables against the header actually used ------------ */

static void crosscheck_header(void) {
  const char* repo = getenv("VERIF_REPO_DIR");
  char path[512];
  snprintf(path, sizeof path, "%s/include/Cello.h", repo ? repo : "/repo");
  FILE* f = fopen(path, "r");
  if (!f) { vf_note("header cross-check skipped: cannot open %s", path); return; }
  char line[512]; int nextern = 0, missing = 0;
  static int seen[sizeof TYS / sizeof TYS[0]];
  char curstruct[64] = ""; int nfp = 0;
  while (fgets(line, sizeof line, f)) {
    char nm[64];
    if (sscanf(line, "extern var %63[A-Za-z0-9_];", nm) == 1) {
      nextern++;
      int hit = -1;
      for (int i = 0; i < NTY; i++) if (strcmp(TYS[i].name, nm) == 0) hit = i;
      if (hit < 0) { vf_note("Cello.h exports '%s' which is not in the harness's type table: coverage incomplete", nm); missing++; }
      else seen[hit] = 1;
    }
    if (sscanf(line, "struct %63[A-Za-z0-9_] {", nm) == 1 && strchr(line, '{')) { snprintf(curstruct, sizeof curstruct, "%s", nm); nfp = 0; continue; }
    if (curstruct[0]) {
      if (strstr(line, "(*")) nfp++;
      if (strncmp(line, "};", 2) == 0) {
        int c = find_class(curstruct);
        if (c >= 0 && c < NBC && U[c].nmem != nfp) { vf_note("struct %s has %d function members in Cello.h, the harness lists %d", curstruct, nfp, U[c].nmem); missing++; }
        curstruct[0] = 0;
      }
    }
  }
  fclose(f);
  for (int i = 0; i < NTY; i++) if (!seen[i]) { vf_note("type table entry '%s' is not exported by Cello.h", TYS[i].name); missing++; }
  if (missing) vf.exhaustive = 0;
  vf_extra("header_crosscheck", "\"%d extern objects in Cello.h, %d in the table, %d mismatches\"", nextern, NTY, missing);
}

static void audit_snapshots(void) {
  /* the snapshot must be the compile-time initialiser: nothing memoised yet */
  int warm = 0;
  for (int i = 0; i < NTY; i++) {
    struct Header* h = (struct Header*)SN[i].bytes;
    var* rec = (var*)(SN[i].bytes + sizeof(struct Header));
    if (h->type) warm++;
    for (int k = 0; k < NCACHE; k++) if (rec[k]) warm++;
    struct Type* t = (struct Type*)(rec + NCACHE);
    for (int k = 0; k < SN[i].ntrip; k++) if (t[k].cls) warm++;
  }
  if (warm) vf_note("snapshot taken before main already contains %d memoised fields (treated as the cold state all the same)", warm);
  vf_extra("types", "%d", NTY);
  vf_extra("classes", "%d", NBC);
}

int main(int argc, char** argv) {
  vf_init(argc, argv);
  var roots[4] = { NULL, NULL, NULL, NULL };
  R = roots;
  const char* sh = vf_param("shard", "0/1");
  if (sscanf(sh, "%d/%d", &shard_i, &shard_n) != 2) { shard_i = 0; shard_n = 1; }

  setup_universe();
  setup_builtin_tuts();
  audit_snapshots();
  crosscheck_header();
  setup_rt_classes();
  setup_prefix_classes();
  setup_long_classes();
  discover_cache();

  const char* mode = vf_param("mode", "matrix");
  parse_eps(vf_param("eps", "0,1,2,3,4,5,6,7,8"));
  if (vf.replay && strncmp(vf.replay, "hist ", 5) == 0) replay_hist(vf.replay);
  else if (strcmp(mode, "matrix") == 0) mode_matrix();
  else if (strcmp(mode, "hist") == 0) mode_hist((int)vf_param_i("depth", 2));
  else if (strcmp(mode, "long") == 0) mode_long((int)vf_param_i("rotstep", 1));
  else if (strcmp(mode, "cast") == 0) mode_cast();
  else if (strcmp(mode, "rt") == 0) mode_rt();
  else if (strcmp(mode, "recycle") == 0) mode_recycle();
  else if (strcmp(mode, "api") == 0) mode_api();
  else if (strcmp(mode, "prefix") == 0) mode_prefix();
  else if (strcmp(mode, "names") == 0) mode_names();
  else if (strcmp(mode, "typecmp") == 0) mode_typecmp();
  else if (strcmp(mode, "null") == 0) mode_null();
  else fatal("unknown mode %s", mode);
  if (vf_param_i("count", 1) == 0) {
    /* this instance re-explores a space that another instance of the check owns (a shallower depth, a sanitizer
       build): keep its counts for the instance summary, contribute nothing to the summed totals */
    vf_extra("states_local", "%" PRIu64, vf.states);
    vf_extra("nontrivial_local", "%" PRIu64, vf.nontrivial);
    vf.states = 0; vf.nontrivial = 0;
  }
  vf_finish();
  return 0;
}
