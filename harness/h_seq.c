/*
** h_seq.c - explicit-state exploration of the sequence containers Array, List, Tuple
** (C04; with prop=C05/C10/C12 the ledger / equality+hash / failed-operation oracles are
** added on the same state graph; mode=cmpgrid is the C09 grid; mode=box the Box
** ownership explorer of C05; mode=ladder the capacity ladder of C04).
**
** Parameters: kind=array|list|tuple   prop=C04|C05|C09|C10|C12
**             maxlen=N (length bound; operations that would exceed it are not enabled)
**             nvals=N  (element values 0..N-1, default 3)
**             elem=int|probe|picky|str|plain|plain12 (probe: element type with constructor/destructor ledger;
**                               picky: the same, but its assign REFUSES one poison value with
**                               ValueError before it touches the target - failing pushes/sets
**                               of the poison must leave contents, len and ledger unchanged;
**                               Array and List only - a Tuple does not own its elements;
**                               plain / plain12: user structs of 16 / 12 bytes WITHOUT any instance (no New, Assign,
**                               Cmp: the library's default memcpy assign, memcmp cmp); the normal alphabet over such
**                               elements plus operations that hand the container an object of ANOTHER plain type -
**                               see "foreign plain types" below; Array and List only)
**             prop=C11: same state graph; the point is the iteration oracles that run in every state of every
**                       mode anyway (forward count == len, backward = reverse of forward then Terminal)
**                       plus: the i-th iterated item is the object get(i) returns
**             oracle=full|light  light: per-state oracle = len + forward/backward iteration + white-box only;
**                       get(i)/mem(v) become explicit operations (see the comment at `light`)
**             mode=sortladder (array|tuple) sort_n=N: enumerated inputs up to length N under sort() and sort_by(gt)
**             alias=<bits>  aliasing calls whose argument is an element of the receiver itself
**                          bit 1 (default): push(x,get(x,k)), append, push_at(x,get(x,k),i),
**                          set(x,i,get(x,k)) wherever the pinned library handles them;
**                          opt-in, each a defect of the pinned library with its own proposal:
**                          bit 2: Array push/append/push_at of an own element when the store must grow
**                          bit 4: concat(x,x)      bit 8: assign(x,x)
**             poisonconcat=0|1  (picky, opt-in) concat with a source holding [ok, poison]
**             two=0|1 bkind=array|list|tuple  (second container B: copy/assign/swap/del)
**             same=0|1  (Tuple only: pushes use ONE shared object per value, so a tuple
**                        can hold the same object twice - known defect D16, opt-in)
**             mode=bfs|ladder|cmpgrid|box   depth=N (0 = fixpoint)
**
** White-box (cflags -DVF_WB): the library's own Array.c and List.c are compiled into
** this translation unit, so that (nitems,nslots) of an Array is part of the canonical
** state (every growth/shrink boundary of the backing store is a distinct state) and
** the links of a List can be audited.  Without the flag the harness is black-box
** (state = element sequence as shown by len/get).  Verdicts rest on the API.
**
** Conventions the property does NOT fix and on which the three kinds disagree
** (measured on the pinned tree; see DESIGN.md section 6):
**   push_at(v, len)        Array appends;            List raises (unless len==0); Tuple raises
**   push_at(v, -k)         Array: v ends at index -k of the NEW sequence (k <= len+1)
**                          List/Tuple: v is inserted before the element at old index len-k (k <= len)
**   resize(n > len)        Array reserves (len unchanged); List zero-extends to n; Tuple raises FormatError
**   Tuple resize(n >= len) raises FormatError (only truncation is implemented)
** Those arguments are explored as transitions; the oracle only demands "no corruption":
** either an exception with the contents unchanged, or (push_at) exactly one v inserted
** somewhere with the order of the old elements preserved, or (resize) len in {old, n}
** with the old prefix preserved.  The reference model then ADOPTS what the container
** shows, i.e. it follows the implementation per kind.
*/

#ifdef VF_WB
#include "Array.c"
#include "List.c"
#define WB 1
#else
#define WB 0
#endif

#include "vf_bfs.h"
#include "vf_probe.h"

/* ---- Picky: Probe's twin (same layout, same ledger) whose assign refuses one value ------------- */

#define PICKY_POISON 77
struct Picky { int64_t val; uint64_t token; char* block; };
extern var Picky;

static int64_t Picky_Value_Of(var obj) {
  if (obj == NULL) return 0;
  int64_t v = (type_of(obj) is Picky or type_of(obj) is Probe) ? ((struct Probe*)obj)->val : c_int(obj);
  /* refuse BEFORE anything is constructed or changed: a well-behaved element type */
  if (v == PICKY_POISON) throw(ValueError, "Picky refuses the value %i", $I(v));
  return v;
}
static void Picky_New(var self, var args) {
  int64_t v = len(args) >= 1 ? Picky_Value_Of(get(args, $I(0))) : 0;
  Probe_Ensure(self, "construct"); ((struct Probe*)self)->val = v;
}
static void Picky_Assign(var self, var obj) {
  int64_t v = Picky_Value_Of(obj);
  Probe_Ensure(self, "assign"); ((struct Probe*)self)->val = v;
}
var Picky = Cello(Picky,
  Instance(New,    Picky_New, Probe_Del),
  Instance(Assign, Picky_Assign),
  Instance(Cmp,    Probe_Cmp),
  Instance(Hash,   Probe_Hash),
  Instance(C_Int,  Probe_C_Int),
  Instance(Show,   Probe_Show, NULL));

/* ---- plain user structs: no instance at all (default assign = memcpy between equal types, else TypeError) ----
** Element types PlainP (16 bytes) and PlainP12 (12 bytes: an Array rounds its slot to 16, a List does not).  FOREIGN
** types, none of which may ever become an element of a container of P: PlainQ (16 bytes: same size, same Array slot
** layout as PlainP), PlainQ12 (12 bytes: same as PlainP12; same rounded slot as PlainP), PlainR24 (another slot size),
** the other P type, and Int.  Refused operations (self-loops, judged like every failed operation: an exception from
** the accept set - TypeError is what the pinned tree raises, ValueError accepted - and contents, len, heap-block
** balance and exception depth unchanged; silent success is never accepted):
**     push / append / set(i) / push_at(i) of one foreign object
**     concat from an Array / List / Tuple holding 1..2 foreign objects (the FIRST source element is refused, so
**     nothing can have been appended; "concat is not atomic" is a different, known finding)
** Not refused: assign(A, container of Q) CONVERTS A to element type Q like every cross-type assign; it is applied to
** a copy of A (side object): iter_type, len, every element's type and bytes must be the source's, A itself unchanged.
** In every state of every element kind: iter_type(A) is the element type and every element handed out by iteration
** and by get() carries that type (check_seq). */
struct PlainP   { int64_t val; int64_t pad; };
struct PlainQ   { double lo, hi; };
struct PlainP12 { int32_t val; int32_t a, b; };
struct PlainQ12 { float x, y, z; };
struct PlainR24 { int64_t a, b, c; };
var PlainP = Cello(PlainP); var PlainQ = Cello(PlainQ); var PlainP12 = Cello(PlainP12); var PlainQ12 = Cello(PlainQ12); var PlainR24 = Cello(PlainR24);
#define PLAIN_PAD 0x5A5A5A5A
enum { FT_Q, FT_Q12, FT_R24, FT_OTHERP, FT_INT, FT_N };
static const char* FTN[] = { "PlainQ", "PlainQ12", "PlainR24", "other-P", "Int" };

enum { K_ARRAY = 0, K_LIST = 1, K_TUPLE = 2 };
static const char* KN[] = { "array", "list", "tuple" };

#define MAXL   12             /* hard cap on maxlen */
#define MAXN   (MAXL + 4)
#define LADMAX 1024

struct seq { int exists, kind, managed, n; int v[MAXN]; };

static var* R;                /* stack-resident root slots (scanned by the collector) */
#define CA (R[0])
#define CB (R[1])
static struct seq MA, MB;

static int kindA, kindB, maxlen, nvals, two, same, probe, picky, alias = 15, poisonconcat;
static int plain;              /* elem=plain: 1 (PlainP, 16 bytes) / elem=plain12: 2 (PlainP12, 12 bytes) */
static var foreignobj[FT_N][2];   /* two distinct objects of every foreign type */
static var foreigntype[FT_N];
static var poisonobj;         /* an Int carrying the value Picky refuses */
static var valobj_int0;       /* an Int 0 (source element for the poison concat) */
static int propC05, propC10, propC11, propC12;
/* oracle=light.  GENERAL RULE: anything the oracle calls between two operations of a history can hide a
   history-dependent defect - an indexed get() walks the container and overwrites any cursor, cache or
   "last position" the implementation keeps, so a stale one never survives to the next operation.  The full
   oracle (len, iteration, get(+-i), mem after EVERY operation) is the strongest view of each state; the light
   oracle looks only through len, forward/backward iteration and the white-box structs, so that the indexed
   operations of the alphabet (set, get, push_at, pop_at as explicit operations) hit the library back to back.
   Both are needed.  In light mode get(i) and mem(v) are explicit self-loop operations whose result is compared
   with the model, and the canonical state carries one feature of the history the container cannot show: the
   kind and index of the last indexed access (states that differ only in it are distinct, so "get(i) ; rem ;
   get(i)" is a path of the graph; the kind matters because operations may treat a cursor differently), together
   with the present position of the element that access touched (the model tracks it through insertions and
   removals), so that a state reached WITH a stale remembered position is not merged with the same contents
   reached without one. */
static int viewassign = 3;     /* assign from an iterable that has no len/get (a Filter view): bit 1 Array (handled by the pinned
                                  library), bit 2 Tuple (appended instead of replacing until fix b438e9d) */
static int strel;               /* elem=str: String elements (own a heap buffer; assign releases/reuses the old one) */
/* Hidden state of an Array that neither len/get nor (nitems,nslots) show: spare slots that were OCCUPIED
   before and still hold the bytes of a removed element (a destructed one after pop/resize-down, a bitwise
   copy of the current last element after pop_at/rem).  The bytes themselves cannot be read deterministically
   (a grown store is uninitialised), so the model tracks the fact: vac_hw = high-water mark of nitems within
   the current store, capped by nslots; vacated = vac_hw - nitems; vac_kind = what the last removal left.
   Part of the canonical state for element types that own resources (Probe, Picky, String), so that a state
   reached WITH vacated slots is not merged with the same contents reached through a growing history. */
static int vac_hw; static char vac_kind = '-';
static int lastrem_pos;          /* model position of the element the last removal took out */
static int light;
static int lastidx = -1;
static int lastpos = -1;       /* where the element touched by that access is NOW (-1: gone / unknown): differs from lastidx once
                                 something in front of it was removed or inserted - exactly when a remembered position is stale */
static char lastkind = '-';   /* which operation made the last indexed access: g get, s set, i push_at, p pop_at, a aliasing call */
static var ET;                /* element type of Array/List: Int or Probe */
static var valobj[8];         /* value carriers 0..nvals (index nvals: a value that is never stored) */
static var wrongobj;          /* an object of the wrong element type (String) */

/* element types for cross-type assignment (the target is built and filled with ANOTHER element type) */
struct Blob20 { char b[20]; };
var Blob20 = Cello(Blob20);
enum { OT_INT, OT_PROBE, OT_BLOB20, OT_STRING, OT_N };
static const char* OTN[] = { "Int", "Probe", "Blob20", "String" };
static var ot_type(int t) { return t == OT_INT ? Int : t == OT_PROBE ? Probe : t == OT_BLOB20 ? Blob20 : String; }
static var ot_int[3], ot_probe[3];     /* carriers */
static int64_t led_base;
static char lastop[96] = "init";
static int corrupt;           /* the last violation left a container in a state that is not safe to delete */

/* ---- optional allocation balance (cflags -DVF_WRAP -Wl,--wrap=malloc,...) ---------- */
static volatile long vf_blocks;
#ifdef VF_WRAP
void* __real_malloc(size_t); void* __real_calloc(size_t, size_t); void* __real_realloc(void*, size_t); void __real_free(void*);
void* __wrap_malloc(size_t n) { void* p = __real_malloc(n); if (p) vf_blocks++; return p; }
void* __wrap_calloc(size_t a, size_t b) { void* p = __real_calloc(a, b); if (p) vf_blocks++; return p; }
void* __wrap_realloc(void* q, size_t n) { void* p = __real_realloc(q, n); if (!q && p) vf_blocks++; if (q && !p && n == 0) vf_blocks--; return p; }
void  __wrap_free(void* p) { if (p) vf_blocks--; __real_free(p); }
#define HAVE_WRAP 1
#else
#define HAVE_WRAP 0
#endif

/* ---- labels ------------------------------------------------------------------------ */

static char labelbuf[200];
static const char* LK(int kind, const char* oracle) {
  snprintf(labelbuf, sizeof labelbuf, "%s/%s/%s/%s", KN[kind], (probe && kind != K_TUPLE) ? (picky ? "picky" : "probe") : (strel && kind != K_TUPLE) ? "str" : (plain && kind != K_TUPLE) ? (plain == 2 ? "plain12" : "plain") : "int", lastop, oracle);
  return labelbuf;
}
static const char* L(const char* oracle) { return LK(kindA, oracle); }
static void setop(const char* fmt, ...) {
  va_list ap; va_start(ap, fmt); vsnprintf(lastop, sizeof lastop, fmt, ap); va_end(ap);
}

/* ---- harness-owned objects ---------------------------------------------------------- */

static var* fresh_list; static size_t nfresh, capfresh;
static var fresh_distinct(int v) {
  var o = new_raw(Int, $I(v));
  if (nfresh == capfresh) { capfresh = capfresh ? capfresh * 2 : 64; fresh_list = realloc(fresh_list, capfresh * sizeof(var)); }
  fresh_list[nfresh++] = o;
  return o;
}
/* an element for a Tuple: a distinct long-lived object per use, unless same=1 */
static var fresh(int v) { return same ? valobj[v] : fresh_distinct(v); }
/* the argument object to store value v into a container of this kind */
static var elem(int kind, int v) { return kind == K_TUPLE ? fresh(v) : valobj[v]; }

struct tmp { var obj; int managed; };
static struct tmp temps[1024]; static int ntemps;
static void keep_temp(var o, int managed) {
  if (ntemps >= 1024) { fprintf(stderr, "h_seq: too many temporaries\n"); _exit(2); }
  temps[ntemps].obj = o; temps[ntemps].managed = managed; ntemps++;
}

static var mk(int kind) {
  return kind == K_ARRAY ? (var)new_raw(Array, ET) : kind == K_LIST ? (var)new_raw(List, ET) : (var)new_raw(Tuple);
}
static void del_c(var x, int managed) { if (managed) del(x); else del_raw(x); }

/* a fresh raw container of the given kind holding v[0..n); Tuple elements are always distinct objects */
static var build(int kind, const int* v, int n) {
  var x = mk(kind);
  for (int i = 0; i < n; i++) push(x, kind == K_TUPLE ? fresh_distinct(v[i]) : valobj[v[i]]);
  return x;
}

/* the sequences of length <= 2 over the value universe (13 for 3 values), shortest first */
static int srcseq[64][2], srclen[64], nsrc;
static void make_sources(void) {
  nsrc = 0;
  srclen[nsrc++] = 0;
  for (int a = 0; a < nvals; a++) { srclen[nsrc] = 1; srcseq[nsrc][0] = a; nsrc++; }
  for (int a = 0; a < nvals; a++) for (int b = 0; b < nvals; b++) { srclen[nsrc] = 2; srcseq[nsrc][0] = a; srcseq[nsrc][1] = b; nsrc++; }
}

/* ---- reading the real container ----------------------------------------------------- */

static volatile int64_t g_i64; static volatile var g_var; static volatile size_t g_sz;
static volatile bool g_b; static volatile int g_int;

static int64_t elemval(var e) {
  if (type_of(e) is Ref) e = deref(e);
  if (type_of(e) is String) return atoi(c_str(e));      /* elem=str: the values are the strings "0".."3" */
  if (type_of(e) is PlainP) return ((struct PlainP*)e)->val;
  if (type_of(e) is PlainP12) return ((struct PlainP12*)e)->val;
  return c_int(e);
}

/* forward iteration with a horizon; returns the number of items seen (== cap: did not terminate) */
static var fwdptr[LADMAX + 16];     /* the objects the last forward walk yielded */
static int walk(var x, int64_t* out, int cap) {
  int c = 0;
  var it = iter_init(x);
  while (it isnt Terminal and c < cap) { if (c < LADMAX + 16) fwdptr[c] = it; out[c++] = elemval(it); it = iter_next(x, it); }
  return c;
}

/* backward iteration against the forward walk just recorded in fwdptr[0..n): iter_last / iter_prev must
   yield exactly the same objects in reverse and then Terminal.  The walk stops at the first item that
   is not the expected one, and such an item is never dereferenced or handed back to the library (it
   may be a stale pointer).  Returns -1 ok, -2 ended early (*got = items seen), otherwise the position
   (from the back) of the first wrong item; position n = an item where Terminal was due. */
static int walk_back(var x, int n, int* got) {
  int c = 0;
  var it = iter_last(x);
  while (c < n) {
    if (it is Terminal) { *got = c; return -2; }
    if (it isnt fwdptr[n - 1 - c]) { *got = c; return c; }
    c++;
    it = iter_prev(x, it);
  }
  *got = c;
  return it is Terminal ? -1 : n;
}

/* len + get(i): the API-visible contents; -1 if they cannot be read */
static int snap(var x, int64_t* out, int cap) {
  if (light) {   /* no indexed access: read through iteration */
    var e2 = VF_CATCH(g_int = walk(x, out, cap));
    if (e2 or g_int >= cap) return -1;
    return g_int;
  }
  var e = VF_CATCH(g_sz = len(x));
  if (e) return -1;
  int n = (int)g_sz;
  if (n > cap) return -1;
  for (int i = 0; i < n; i++) {
    e = VF_CATCH({ g_var = get(x, $I(i)); g_i64 = elemval(g_var); });
    if (e) return -1;
    out[i] = g_i64;
  }
  return n;
}

static void seqstr(const int64_t* v, int n, char* buf, size_t cap) {
  size_t o = 0; buf[0] = 0;
  o += snprintf(buf + o, cap - o, "[");
  for (int i = 0; i < n && o + 24 < cap; i++) o += snprintf(buf + o, cap - o, "%s%" PRId64, i ? "," : "", v[i]);
  snprintf(buf + o, cap - o, "]");
}
static void mstr(const struct seq* m, char* buf, size_t cap) {
  int64_t t[MAXN]; for (int i = 0; i < m->n; i++) t[i] = m->v[i];
  seqstr(t, m->n, buf, cap);
}

static int tuple_has_dup_object(var x) {
  struct Tuple* t = x;
  for (int i = 0; t->items[i] isnt Terminal; i++)
    for (int j = 0; j < i; j++) if (t->items[i] is t->items[j]) return 1;
  return 0;
}

/* ---- white-box audits (additional oracles; the verdict rests on the API checks) ------ */

static int audit(var x, int kind, const char* who) {
#if WB
  if (kind == K_ARRAY) {
    struct Array* a = x;
    if (a->nitems > a->nslots) { vf_violation(LK(kind, "audit-nitems>nslots"), NULL, "%s: nitems=%zu exceeds nslots=%zu", who, a->nitems, a->nslots); return 1; }
    if (a->nslots > 0 && a->data is NULL) { vf_violation(LK(kind, "audit-data-null"), NULL, "%s: nslots=%zu but no backing store", who, a->nslots); return 1; }
    if (a->type isnt ET) { vf_violation(LK(kind, "audit-type"), NULL, "%s: element type changed", who); return 1; }
    if (a->tsize != Array_Size_Round(size(a->type))) { vf_violation(LK(kind, "audit-tsize"), NULL, "%s: tsize does not match the element type", who); return 1; }
    for (size_t i = 0; i < a->nitems; i++) {
      struct Header* h = (struct Header*)((char*)Array_Item(a, i) - sizeof(struct Header));
      if (h->type isnt a->type) { vf_violation(LK(kind, "audit-header"), NULL, "%s: element %zu does not carry the element type in its header", who, i); return 1; }
    }
  }
  if (kind == K_LIST) {
    struct List* l = x;
    size_t c = 0; var prev = NULL; var item = l->head;
    while (item and c <= l->nitems + 2) {
      if (*List_Prev(l, item) isnt prev) { vf_violation(LK(kind, "audit-prev-link"), NULL, "%s: node %zu has a wrong prev link", who, c); return 1; }
      prev = item; item = *List_Next(l, item); c++;
    }
    if (c != l->nitems) { vf_violation(LK(kind, "audit-chain-length"), NULL, "%s: %zu nodes reachable from head, nitems=%zu", who, c, l->nitems); return 1; }
    if (l->tail isnt prev) { vf_violation(LK(kind, "audit-tail"), NULL, "%s: tail is not the last node reachable from head", who); return 1; }
  }
#endif
  return 0;
}

/* ---- the sequence oracle: len, iteration, get(+i), get(-i), mem ----------------------- */

static int64_t itbuf[LADMAX + 16];

static int check_seq(var x, int kind, const int* v, int n, const char* who, int do_mem) {
  var e = VF_CATCH(g_sz = len(x));
  if (e) { vf_violation(LK(kind, "len-raises"), NULL, "%s: len raised %s", who, vf_exc_name(e)); return 1; }
  if (g_sz != (size_t)n) { vf_violation(LK(kind, "len"), NULL, "%s: len=%zu, reference sequence has %d elements", who, (size_t)g_sz, n); return 1; }

  /* forward iteration, horizon n+8 (first: a tuple holding one object twice must not be asked mem()) */
  int horizon = n + 8;
  e = VF_CATCH(g_int = walk(x, itbuf, horizon));
  if (e) { vf_violation(LK(kind, "iter-raises"), NULL, "%s: forward iteration raised %s", who, vf_exc_name(e)); return 1; }
  int c = g_int;
  if (kind == K_TUPLE && same && tuple_has_dup_object(x)) {
    int okv = (c == n);
    for (int i = 0; okv && i < n; i++) if (itbuf[i] != v[i]) okv = 0;
    if (!okv) {
      vf_violation(c >= horizon ? "tuple/same-object-twice/iteration-does-not-terminate" : "tuple/same-object-twice/iteration-wrong", NULL,
        "%s: a Tuple of %d items that holds the same object twice: forward iteration %s (known defect D16)", who, n,
        c >= horizon ? "did not reach Terminal within len+8 steps" : "yields the wrong items");
      return 1;
    }
  }
  if (c >= horizon) { vf_violation(LK(kind, "iter-does-not-terminate"), NULL, "%s: forward iteration did not reach Terminal within len+8 steps", who); return 1; }
  if (c != n) { vf_violation(LK(kind, "iter-count"), NULL, "%s: forward iteration yielded %d items, len is %d", who, c, n); return 1; }
  for (int i = 0; i < n; i++) {
    if (itbuf[i] != v[i]) { vf_violation(LK(kind, "iter-value"), NULL, "%s: item %d of the iteration is %" PRId64 ", reference has %d", who, i, itbuf[i], v[i]); return 1; }
  }
  /* every element of an Array / List carries the container's element type: iter_type(x) is that type and every object
     the iteration hands out says so in its header (a Tuple declares no element type) */
  if (kind != K_TUPLE) {
    e = VF_CATCH(g_var = iter_type(x));
    if (e) { vf_violation(LK(kind, "iter_type-raises"), NULL, "%s: iter_type raised %s", who, vf_exc_name(e)); return 1; }
    if (g_var isnt ET) { vf_violation(LK(kind, "iter_type"), NULL, "%s: iter_type is %s, the container was built with element type %s", who, c_str(g_var), c_str(ET)); return 1; }
    for (int i = 0; i < n && i < LADMAX + 16; i++) {
      if (type_of(fwdptr[i]) isnt ET) { corrupt = 1; vf_violation(LK(kind, "iter-item-type"), NULL, "%s: item %d of the iteration has type %s, iter_type is %s", who, i, c_str(type_of(fwdptr[i])), c_str(ET)); return 1; }
    }
  }

  /* backward iteration = exact reverse of the forward walk, then Terminal (off for the same-object Tuple
     dimension: Tuple cursors are found by pointer identity, D16) */
  if (!same && n < LADMAX + 16 && implements_method(x, Iter, iter_last) && implements_method(x, Iter, iter_prev)) {
    volatile int got = 0;
    e = VF_CATCH({ int g_ = 0; g_int = walk_back(x, n, &g_); got = g_; });
    if (e) { vf_violation(LK(kind, "iter-backward-raises"), NULL, "%s: backward iteration raised %s", who, vf_exc_name(e)); return 1; }
    if (g_int == -2) { vf_violation(LK(kind, "iter-backward-count"), NULL, "%s: backward iteration reached Terminal after %d items, len is %d", who, got, n); return 1; }
    if (g_int == n) { vf_violation(LK(kind, "iter-backward-does-not-end"), NULL, "%s: backward iteration yields another item after the %d items of the container instead of Terminal", who, n); return 1; }
    if (g_int >= 0) { vf_violation(LK(kind, "iter-backward-not-reverse"), NULL, "%s: item %d of the backward iteration is not item %d of the forward iteration", who, g_int, n - 1 - g_int); return 1; }
  }
  if (light) { vf.evaluations++; if (audit(x, kind, who)) { corrupt = 1; return 1; } return 0; }

  /* C11: the i-th item of the iteration is the object get(i) returns */
  if (propC11) {
    for (int i = 0; i < n && i < LADMAX + 16; i++) {
      e = VF_CATCH(g_var = get(x, $I(i)));
      if (e) { vf_violation(LK(kind, "get-raises"), NULL, "%s: get(%d) raised %s, len is %d", who, i, vf_exc_name(e), n); return 1; }
      if (g_var isnt fwdptr[i]) { vf_violation(LK(kind, "iter-item-is-not-get"), NULL, "%s: item %d of the forward iteration is not the object get(%d) returns", who, i, i); return 1; }
    }
  }

  /* get with every valid positive and negative index */
  for (int i = 0; i < n; i++) {
    e = VF_CATCH({ g_var = get(x, $I(i)); g_i64 = elemval(g_var); });
    if (e) { vf_violation(LK(kind, "get-raises"), NULL, "%s: get(%d) raised %s, len is %d", who, i, vf_exc_name(e), n); return 1; }
    if (g_i64 != v[i]) { vf_violation(LK(kind, "get-value"), NULL, "%s: get(%d)=%" PRId64 ", reference has %d", who, i, (int64_t)g_i64, v[i]); return 1; }
    if (kind != K_TUPLE && type_of(g_var) isnt ET) { corrupt = 1; vf_violation(LK(kind, "get-type"), NULL, "%s: get(%d) has type %s, iter_type is %s", who, i, c_str(type_of(g_var)), c_str(ET)); return 1; }
    e = VF_CATCH({ g_var = get(x, $I(-(int64_t)(i + 1))); g_i64 = elemval(g_var); });
    if (e) { vf_violation(LK(kind, "get-negative-raises"), NULL, "%s: get(%d) raised %s, len is %d", who, -(i + 1), vf_exc_name(e), n); return 1; }
    if (g_i64 != v[n - 1 - i]) { vf_violation(LK(kind, "get-negative-value"), NULL, "%s: get(%d)=%" PRId64 ", reference has %d", who, -(i + 1), (int64_t)g_i64, v[n - 1 - i]); return 1; }
  }

  /* membership of every value of the universe plus one value that is never stored */
  if (do_mem) {
    for (int q = 0; q <= nvals; q++) {
      int want = 0;
      for (int i = 0; i < n; i++) if (v[i] == q) want = 1;
      e = VF_CATCH(g_b = mem(x, valobj[q]));
      if (e) { vf_violation(LK(kind, "mem-raises"), NULL, "%s: mem(%d) raised %s", who, q, vf_exc_name(e)); return 1; }
      if ((int)g_b != want) { vf_violation(LK(kind, "mem"), NULL, "%s: mem(%d)=%d, reference says %d", who, q, (int)g_b, want); return 1; }
    }
  }
  vf.evaluations++;
  if (audit(x, kind, who)) { corrupt = 1; return 1; }
  return 0;
}

/* ---- C05: ledger ---------------------------------------------------------------------- */

static int check_ledger(void) {
  if (vf_led_err[0]) { vf_violation(L("ledger"), NULL, "%s", vf_led_err); vf_led_err[0] = 0; return 1; }
  int64_t expect = 0;
  if (MA.exists && MA.kind != K_TUPLE) expect += MA.n;
  if (MB.exists && MB.kind != K_TUPLE) expect += MB.n;
  if (vf_led_live - led_base != expect) {
    vf_violation(L(vf_led_live - led_base > expect ? "ledger-live-too-many" : "ledger-live-too-few"), NULL,
      "%" PRId64 " Probe elements are live, the containers hold %" PRId64, vf_led_live - led_base, expect);
    return 1;
  }
  for (int w = 0; w < 2; w++) {
    struct seq* m = w ? &MB : &MA; var x = w ? CB : CA;
    if (!m->exists || m->kind == K_TUPLE) continue;
    for (int i = 0; i < m->n; i++) {
      var e = VF_CATCH(g_var = get(x, $I(i)));
      if (e || !vf_probe_intact(g_var)) { vf_violation(L("ledger-stored-element-dead"), NULL, "element %d of %s is finalised or corrupted while still contained", i, w ? "B" : "A"); return 1; }
    }
  }
  return 0;
}

/* ---- C10: hash is a function of the element sequence; copy/assign/rebuild are eq ------- */

static struct vf_set hashgroups; static uint64_t* grouphash; static size_t ngroups, capgroups;

static int eqhash_pair(var y, var x, uint64_t h, const char* what, const char* ak) {
  char lb[64];
  volatile uint64_t hy = 0; volatile int c1 = 7, c2 = 7; volatile bool e1 = false, e2 = false, ne = true;
  var e = VF_CATCH({ hy = hash(y); e1 = eq(y, x); e2 = eq(x, y); ne = neq(y, x); c1 = cmp(y, x); c2 = cmp(x, y); });
  if (e) { snprintf(lb, sizeof lb, "%s-raises", what); vf_violation(L(lb), NULL, "%s of %s: hash/eq/cmp raised %s", what, ak, vf_exc_name(e)); return 1; }
  if (!e1 || !e2 || ne || c1 != 0 || c2 != 0) { snprintf(lb, sizeof lb, "%s-not-eq", what); vf_violation(L(lb), NULL, "%s of %s is not eq to it (eq=%d/%d neq=%d cmp=%d/%d)", what, ak, (int)e1, (int)e2, (int)ne, c1, c2); return 1; }
  if (hy != h) { snprintf(lb, sizeof lb, "%s-hash", what); vf_violation(L(lb), NULL, "%s of %s hashes differently (%" PRIx64 " vs %" PRIx64 ")", what, ak, (uint64_t)hy, h); return 1; }
  return 0;
}

static int check_eqhash(var x, struct seq* m) {
  char ak[128]; mstr(m, ak, sizeof ak);
  volatile uint64_t hv = 0;
  var e = VF_CATCH(hv = hash(x));
  if (e) { vf_violation(L("hash-raises"), NULL, "hash raised %s", vf_exc_name(e)); return 1; }
  uint64_t h = hv;
  /* hash is a function of the abstract value alone, across construction histories */
  if (!hashgroups.cap) { vf_set_init(&hashgroups, 1024); capgroups = 1024; grouphash = malloc(capgroups * sizeof *grouphash); }
  long gi = vf_set_put(&hashgroups, ak, (uint32_t)ngroups);
  if (gi < 0) {
    if (ngroups == capgroups) { capgroups *= 2; grouphash = realloc(grouphash, capgroups * sizeof *grouphash); }
    grouphash[ngroups++] = h;
  } else if (grouphash[gi] != h) {
    vf_violation(L("hash-depends-on-history"), NULL, "two containers holding %s hash differently (%" PRIx64 " vs %" PRIx64 ")", ak, h, grouphash[gi]);
    return 1;
  }
  vf.evaluations++;
  int bad = 0;
  /* copy */
  e = VF_CATCH(R[2] = copy(x));
  if (e) { vf_violation(L("copy-raises"), NULL, "copy raised %s", vf_exc_name(e)); return 1; }
  bad = eqhash_pair(R[2], x, h, "copy", ak);
  if (!bad && len(R[2]) != (size_t)m->n) { vf_violation(L("copy-len"), NULL, "len(copy(x)) != len(x)"); bad = 1; }
  del(R[2]); R[2] = NULL;
  if (bad) return 1;
  /* assign into a fresh and into a non-empty container of the same kind */
  for (int full = 0; full < 2 && !bad; full++) {
    int pre[2] = { nvals - 1, 0 };
    R[2] = build(m->kind, pre, full ? 2 : 0);
    e = VF_CATCH(assign(R[2], x));
    if (e) { vf_violation(L(full ? "assign-nonempty-raises" : "assign-fresh-raises"), NULL, "assign raised %s", vf_exc_name(e)); bad = 1; }
    else bad = eqhash_pair(R[2], x, h, full ? "assign-into-nonempty" : "assign-into-fresh", ak);
    del_raw(R[2]); R[2] = NULL;
  }
  if (bad) return 1;
  /* containers of every kind rebuilt from the reference sequence compare equal element-wise => eq and equal hash */
  for (int k = 0; k < 3 && !bad; k++) {
    if (probe && k == K_TUPLE) continue;
    static const char* nm[] = { "rebuilt-array", "rebuilt-list", "rebuilt-tuple" };
    R[2] = build(k, m->v, m->n);
    bad = eqhash_pair(R[2], x, h, nm[k], ak);
    del_raw(R[2]); R[2] = NULL;
  }
  if (bad) return 1;
  /* cross-kind assignment.  Not explored: Array/List := Tuple gives an Array/List of Ref (Tuple has no
     iter_type), whose elements have no comparison - outside what the property promises. */
  for (int k = 0; k < 3 && !bad; k++) {
    if (k == m->kind) continue;
    if (m->kind == K_TUPLE && k != K_TUPLE) continue;
    if (probe && k == K_TUPLE) continue;
    static const char* nm[] = { "array:=x", "list:=x", "tuple:=x" };
    R[2] = mk(k);
    e = VF_CATCH(assign(R[2], x));
    if (e) { vf_violation(L("cross-assign-raises"), NULL, "assign(%s, x) raised %s", KN[k], vf_exc_name(e)); bad = 1; }
    else bad = eqhash_pair(R[2], x, h, nm[k], ak);
    del_raw(R[2]); R[2] = NULL;
  }
  return bad;
}

/* ---- state oracle, canonical form -------------------------------------------------------- */

static int check(void) {
  if (check_seq(CA, MA.kind, MA.v, MA.n, "A", 1)) return 1;
  if (MB.exists && check_seq(CB, MB.kind, MB.v, MB.n, "B (must be independent of A)", 1)) return 1;
  if (probe && check_ledger()) return 1;
  if (propC10) {
    if (check_eqhash(CA, &MA)) return 1;
    if (MB.exists && check_eqhash(CB, &MB)) return 1;
  }
  return 0;
}

static size_t canon_one(var x, struct seq* m, char* buf, size_t cap) {
  size_t o = 0;
  if (!m->exists) return snprintf(buf, cap, "-");
  o += snprintf(buf + o, cap - o, "%c", KN[m->kind][0]);
#if WB
  if (m->kind == K_ARRAY) {
    struct Array* a = x; o += snprintf(buf + o, cap - o, "n%zu/s%zu", a->nitems, a->nslots);
    if (m == &MA && ET isnt Int && !plain) { int vac = vac_hw - (int)a->nitems; o += snprintf(buf + o, cap - o, "/vacated%d%c", vac > 0 ? vac : 0, vac > 0 ? vac_kind : '-'); }
  }
#endif
  int64_t t[MAXN + 8];
  int n = snap(x, t, MAXN + 8);
  if (n < 0) { o += snprintf(buf + o, cap - o, "?"); return o; }
  seqstr(t, n, buf + o, cap - o);
  return o + strlen(buf + o);
}

static size_t canon(char* buf, size_t cap) {
  size_t o = canon_one(CA, &MA, buf, cap);
  if (two) { o += snprintf(buf + o, cap - o, " B:"); o += canon_one(CB, &MB, buf + o, cap - o); }
  if (light) o += snprintf(buf + o, cap - o, " last-indexed:%c%d@%d", lastkind, lastidx, lastpos);
  return o;
}

/* non-trivial: the sequence holds a duplicate value, or (Array, white-box) the backing store has spare capacity */
static int nontrivial(void) {
  for (int i = 0; i < MA.n; i++) for (int j = 0; j < i; j++) if (MA.v[i] == MA.v[j]) return 1;
#if WB
  if (MA.kind == K_ARRAY) { struct Array* a = CA; if (a->nslots != a->nitems) return 1; }
#endif
  return 0;
}

static uint64_t viol_at_reset;
#define GRAVEMAX (1 << 15)
static var* GRAVE; static int ngrave;   /* stack-resident (main's frame): abandoned managed containers */
static void reset(void) {
  vf_led_err[0] = 0;
  viol_at_reset = vf.viol_total;
  memset(&MA, 0, sizeof MA); memset(&MB, 0, sizeof MB);
  CA = mk(kindA); MA.exists = 1; MA.kind = kindA; MA.managed = 0;
  CB = NULL; MB.kind = kindB;
  lastidx = -1; lastpos = -1; lastkind = '-';
  vac_hw = 0; vac_kind = '-';
  setop("init");
}

static void cleanup(void) {
  var e;
  /* after a violation the containers may be corrupted (e.g. an element slot that was never
     constructed): they are abandoned, not deleted, so that a consequence is not reported as a crash */
  int poisoned = vf.viol_total != viol_at_reset;
  if (corrupt) {
    /* a collector-managed container must stay reachable, or the collector finalises its elements later */
    if (CA && MA.managed) { if (ngrave < GRAVEMAX) GRAVE[ngrave++] = CA; else { e = VF_CATCH(del(CA)); (void)e; } }
    if (CB && MB.managed) { if (ngrave < GRAVEMAX) GRAVE[ngrave++] = CB; else { e = VF_CATCH(del(CB)); (void)e; } }
    CA = NULL; CB = NULL; corrupt = 0;
  }
  if (CA) { e = VF_CATCH(del_c(CA, MA.managed)); (void)e; CA = NULL; }
  if (CB) { e = VF_CATCH(del_c(CB, MB.managed)); (void)e; CB = NULL; }
  for (int i = 0; i < ntemps; i++) { e = VF_CATCH(del_c(temps[i].obj, temps[i].managed)); (void)e; }
  ntemps = 0;
  for (size_t i = 0; i < nfresh; i++) del_raw(fresh_list[i]);
  nfresh = 0;
  if (probe && !poisoned && vf_led_err[0]) { vf_violation(L("ledger-at-delete"), NULL, "while deleting the containers: %s", vf_led_err); }
  else if (probe && !poisoned && vf_led_live != led_base) {
    vf_violation(L("leak-after-delete"), NULL, "after deleting every container %" PRId64 " Probe elements are still live (expected 0)", vf_led_live - led_base);
  }
  led_base = vf_led_live;   /* resynchronise: one leak must not be reported for every later execution */
  vf_led_err[0] = 0;
  /* the ledger has a fixed number of tokens: start a new epoch when it runs low.  Only the value
     carriers are live at this point - unless an earlier violation leaked or abandoned elements,
     whose tokens a new epoch would invalidate: then the instance stops here (exhaustive:false). */
  if (vf_led_next > VF_LED_MAX - (1u << 18)) {
    if (probe && vf.viol_total != 0) {
      vf.exhaustive = 0;
      vf_note("Probe ledger exhausted after earlier violations: exploration of this instance stopped early");
      vf_finish();
    }
    if (probe) for (int v = 0; v <= nvals; v++) del_raw(valobj[v]);
    for (int v = 0; v < 3; v++) del_raw(ot_probe[v]);
    vf_led_reset();
    if (probe) for (int v = 0; v <= nvals; v++) valobj[v] = new_raw(ET, $I(v));
    for (int v = 0; v < 3; v++) ot_probe[v] = new_raw(Probe, $I(v));
    led_base = vf_led_live;
  }
}

/* ---- alphabet ------------------------------------------------------------------------------ */

enum { T_PUSH, T_POP, T_APPEND, T_SET, T_PUSHAT, T_POPAT, T_REM, T_RESIZE, T_SORT, T_COPY, T_CONCAT, T_ASSIGN,
       T_B_COPY, T_B_ASSIGN_FROM_A, T_A_ASSIGN_FROM_B, T_B_DEL, T_B_PUSH, T_B_POP, T_SWAP,
       T_AL_PUSH, T_AL_APPEND, T_AL_SET, T_AL_PUSHAT, T_AL_CONCAT_SELF, T_AL_ASSIGN_SELF, T_AL_REM, T_AL_MEM,
       T_ASSIGN_OTHER, T_B_ASSIGN_OTHER, T_DUPTUPLE,
       T_P_POISON, T_P_CONCAT, T_GET, T_MEM, T_ASSIGN_VIEW,
       T_Q_ELEM, T_Q_CONCAT, T_Q_ASSIGN,
       T_F_IDX, T_F_REM_ABSENT, T_F_WRONG, T_F_NULL, T_F_NULLIDX, T_F_CONCAT_NULL, T_F_ASSIGN_NULL, T_F_BADSRC, T_F_STACK };
enum { FO_GET, FO_SET, FO_POPAT, FO_PUSHAT, FO_PUSH, FO_APPEND };
static const char* FON[] = { "get", "set", "pop_at", "push_at", "push", "append" };
enum { IC_PAST, IC_NEGPAST, IC_PLUSM, IC_MINUSM, IC_MAX, IC_MIN, IC_N };
static const char* ICN[] = { "one-past-end", "one-before-start", "+1000000", "-1000000", "INT64_MAX", "INT64_MIN" };
enum { SO_PUSH, SO_POP, SO_PUSHAT, SO_POPAT0, SO_POPATLAST, SO_CONCAT, SO_RESIZE, SO_ASSIGN, SO_N };
static const char* SON[] = { "push", "pop", "push_at(v,0)", "pop_at(0)", "pop_at(-1)", "concat", "resize(len-1)", "assign" };

enum { BS_ASSIGN_INT, BS_ASSIGN_STR, BS_ASSIGN_FLOAT, BS_CONCAT_INT, BS_CONCAT_STR, BS_CONCAT_FLOAT, BS_ASSIGN_FILTER, BS_N };
static const char* BSN[] = { "assign(A,$I(5))", "assign(A,$S(\"xy\"))", "assign(A,$F(1.0))", "concat(A,$I(5))", "concat(A,$S(\"xy\"))", "concat(A,$F(1.0))", "assign(A,filter(A,f))" };
static const char* BSL[] = { "assign/Int-source", "assign/String-source", "assign/Float-source", "concat/Int-source", "concat/String-source", "concat/Float-source", "assign/Filter-view-source" };
static var bs_accept_all(var x) { return x; }

struct opd { int t, a, b; int64_t i; char name[48]; };
static struct opd ops[1024]; static int nops;

static void addop(int t, int a, int b, int64_t i, const char* fmt, ...) {
  if (nops >= 1024) { fprintf(stderr, "h_seq: alphabet too large\n"); _exit(2); }
  struct opd* o = &ops[nops++];
  o->t = t; o->a = a; o->b = b; o->i = i;
  va_list ap; va_start(ap, fmt); vsnprintf(o->name, sizeof o->name, fmt, ap); va_end(ap);
}

static void srcname(int s, char* buf, size_t cap) {
  if (srclen[s] == 0) snprintf(buf, cap, "[]");
  else if (srclen[s] == 1) snprintf(buf, cap, "[%d]", srcseq[s][0]);
  else snprintf(buf, cap, "[%d,%d]", srcseq[s][0], srcseq[s][1]);
}

static void make_alphabet(void) {
  char sn[24];
  int nk = (probe || strel || plain) ? 2 : 3;          /* source kinds: a Tuple cannot own Probe elements (and holds Int objects, which a String or plain element refuses) */
  for (int v = 0; v < nvals; v++) addop(T_PUSH, v, 0, 0, "push(%d)", v);
  addop(T_POP, 0, 0, 0, "pop");
  for (int v = 0; v < nvals; v++) addop(T_APPEND, v, 0, 0, "append(%d)", v);
  for (int i = 0; i < maxlen; i++) for (int sgn = 0; sgn < 2; sgn++) for (int v = 0; v < nvals; v++) {
    int64_t ix = sgn ? -(int64_t)(i + 1) : i;
    addop(T_SET, v, 0, ix, "set(%" PRId64 ",%d)", ix, v);
  }
  for (int i = 0; i <= maxlen; i++) for (int sgn = 0; sgn < 2; sgn++) for (int v = 0; v < nvals; v++) {
    int64_t ix = sgn ? -(int64_t)(i + 1) : i;
    addop(T_PUSHAT, v, 0, ix, "push_at(%d,%" PRId64 ")", v, ix);
  }
  for (int i = 0; i < maxlen; i++) for (int sgn = 0; sgn < 2; sgn++) {
    int64_t ix = sgn ? -(int64_t)(i + 1) : i;
    addop(T_POPAT, 0, 0, ix, "pop_at(%" PRId64 ")", ix);
  }
  for (int v = 0; v < nvals; v++) addop(T_REM, v, 0, 0, "rem(%d)", v);
  for (int n = 0; n <= maxlen + 2; n++) addop(T_RESIZE, n, 0, 0, "resize(%d)", n);
  addop(T_SORT, 0, 0, 0, "sort");
  addop(T_COPY, 0, 0, 0, "A=copy(A)");
  for (int s = 0; s < nsrc; s++) for (int k = 0; k < nk; k++) { srcname(s, sn, sizeof sn); addop(T_CONCAT, k, s, 0, "concat(%s%s)", KN[k], sn); }
  for (int s = 0; s < nsrc; s++) for (int k = 0; k < nk; k++) { srcname(s, sn, sizeof sn); addop(T_ASSIGN, k, s, 0, "assign(A,%s%s)", KN[k], sn); }
  if ((kindA == K_ARRAY && (viewassign & 1) && !probe) || (kindA == K_TUPLE && (viewassign & 2))) {
    char sn2[24];
    for (int sq = 0; sq < nsrc; sq++) { srcname(sq, sn2, sizeof sn2); addop(T_ASSIGN_VIEW, 0, sq, 0, "assign(A,filter(array%s,all))", sn2); }
  }
  if (light) {
    for (int i = 0; i < maxlen; i++) for (int sgn = 0; sgn < 2; sgn++) {
      int64_t ix = sgn ? -(int64_t)(i + 1) : i;
      addop(T_GET, 0, 0, ix, "get(%" PRId64 ")", ix);
    }
    for (int v = 0; v <= nvals; v++) addop(T_MEM, v, 0, 0, "mem(%d)", v);
  }
  if ((alias & 1) && kindA != K_TUPLE) {
    /* aliasing: the argument is an element of the receiver itself (a Tuple would then hold one object twice: D16) */
    for (int k = 0; k < maxlen; k++) addop(T_AL_PUSH, k, 0, 0, "push(A,get(A,%d))", k);
    for (int k = 0; k < maxlen; k++) addop(T_AL_APPEND, k, 0, 0, "append(A,get(A,%d))", k);
    for (int i = 0; i < maxlen; i++) for (int k = 0; k < maxlen; k++) addop(T_AL_SET, k, 0, i, "set(A,%d,get(A,%d))", i, k);
    for (int i = 0; i < maxlen; i++) for (int k = 0; k < maxlen; k++) addop(T_AL_PUSHAT, k, 0, i, "push_at(A,get(A,%d),%d)", k, i);
    if (alias & 4) addop(T_AL_CONCAT_SELF, 0, 0, 0, "concat(A,A)");
    if (alias & 8) addop(T_AL_ASSIGN_SELF, 0, 0, 0, "assign(A,A)");
  }
  if (alias & 1) {
    /* search-by-value calls whose argument is an own element: the FIRST equal element goes, whichever one was passed */
    for (int k = 0; k < maxlen; k++) addop(T_AL_REM, k, 0, 0, "rem(A,get(A,%d))", k);
    for (int k = 0; k < maxlen; k++) addop(T_AL_MEM, k, 0, 0, "mem(A,get(A,%d))", k);
  }
  if (kindA != K_TUPLE && !picky) {
    /* cross-type assignment: A = assign(container of ANOTHER element type holding f elements, A) */
    for (int t = 0; t < OT_N; t++) {
      if (ot_type(t) is ET) continue;
      for (int f = 0; f <= 3; f++) addop(T_ASSIGN_OTHER, t, f, 0, "A=assign(%s-of-%s[%d items],A)", KN[kindA], OTN[t], f);
    }
    if (two && kindB != K_TUPLE) for (int t = 0; t < OT_N; t++) if (ot_type(t) isnt ET) addop(T_B_ASSIGN_OTHER, t, 2, 0, "B=assign(%s-of-%s[2 items],A)", KN[kindB], OTN[t]);
    /* sources that are Tuples holding ONE OBJECT TWICE (iterating such a Tuple is the known defect D16, but len/get work,
       and assign / new copy through len+get): a a, a a b, a b a.  Run in a forked child under a 3 s limit, in the empty
       state only (the calls do not depend on A) */
    if (!probe && !plain) for (int w = 0; w < 3; w++) for (int pat = 0; pat < 4; pat++) {
      static const char* wn[] = { "assign(fresh,T)", "assign(non-empty,T)", "new(kind,Int,T...)" };
      static const char* pn[] = { "(a,a)", "(a,a,b)", "(a,b,a)", "(a,b,a,c)" };
      addop(T_DUPTUPLE, w, pat, 0, "%s T=%s same object twice", wn[w], pn[pat]);
    }
  }
  if (kindA == K_TUPLE && !picky && !probe) {
    /* the same sources into a Tuple: assign onto a fresh / a non-empty heap Tuple and copy(); the result must hold the
       very same objects at every position (judged through len and get; iterating such a Tuple is D16) */
    for (int w = 0; w < 3; w++) for (int pat = 0; pat < 4; pat++) {
      static const char* wn[] = { "assign(fresh-tuple,T)", "assign(non-empty-tuple,T)", "copy(T)" };
      static const char* pn[] = { "(a,a)", "(a,a,b)", "(a,b,a)", "(a,b,a,c)" };
      addop(T_DUPTUPLE, w, pat, 0, "%s T=%s same object twice", wn[w], pn[pat]);
    }
  }
  if (picky) {
    static const int fo[] = { FO_PUSH, FO_APPEND, FO_SET, FO_PUSHAT };
    for (int j = 0; j < 4; j++) addop(T_P_POISON, fo[j], 0, 0, "%s(refused value)", FON[fo[j]]);
    for (int i = 1; i < maxlen; i++) addop(T_P_POISON, FO_PUSHAT, 0, i, "push_at(refused value,%d)", i);
    for (int i = 1; i < maxlen; i++) addop(T_P_POISON, FO_SET, 0, i, "set(%d,refused value)", i);
    if (poisonconcat) for (int k = 0; k < 3; k++) addop(T_P_CONCAT, k, 0, 0, "concat(%s[0,refused value])", KN[k]);
  }
  if (plain) {
    /* objects of a foreign plain type (or an Int): refused as an element, refused as the elements of a concat source;
       assign from a container of a foreign type converts (side object) */
    static const int fo[] = { FO_PUSH, FO_APPEND, FO_SET, FO_PUSHAT };
    for (int ft = 0; ft < FT_N; ft++) {
      for (int j = 0; j < 4; j++) addop(T_Q_ELEM, fo[j], ft, 0, "%s(%s object)", FON[fo[j]], FTN[ft]);
      for (int i = 1; i < maxlen; i++) addop(T_Q_ELEM, FO_SET, ft, i, "set(%d,%s object)", i, FTN[ft]);
      for (int i = 1; i < maxlen; i++) addop(T_Q_ELEM, FO_PUSHAT, ft, i, "push_at(%s object,%d)", FTN[ft], i);
      for (int k = 0; k < 3; k++) for (int sl = 1; sl <= 2; sl++) addop(T_Q_CONCAT, k, ft, sl, "concat(%s of %d %s)", KN[k], sl, FTN[ft]);
      for (int k = 0; k < 2; k++) for (int sl = 0; sl <= 2; sl++) addop(T_Q_ASSIGN, k, ft, sl, "copy-of-A := %s of %d %s", KN[k], sl, FTN[ft]);
    }
  }
  if (two) {
    addop(T_B_COPY, 0, 0, 0, "B=copy(A)");
    addop(T_B_ASSIGN_FROM_A, 0, 0, 0, "assign(B,A)");
    addop(T_A_ASSIGN_FROM_B, 0, 0, 0, "assign(A,B)");
    addop(T_B_DEL, 0, 0, 0, "del(B)");
    for (int v = 0; v < nvals; v++) addop(T_B_PUSH, v, 0, 0, "push(B,%d)", v);
    addop(T_B_POP, 0, 0, 0, "pop(B)");
    if (propC10) addop(T_SWAP, 0, 0, 0, "swap(A,B)");
  }
  if (propC12) {
    for (int f = FO_GET; f <= FO_PUSHAT; f++) for (int c = 0; c < IC_N; c++) addop(T_F_IDX, f, c, 0, "%s(%s)", FON[f], ICN[c]);
    addop(T_F_REM_ABSENT, 0, 0, 0, "rem(value never stored)");
    for (int f = FO_GET; f <= FO_PUSHAT; f++) addop(T_F_NULLIDX, f, 0, 0, "%s(NULL index)", FON[f]);
    addop(T_F_CONCAT_NULL, 0, 0, 0, "concat(NULL)");
    addop(T_F_ASSIGN_NULL, 0, 0, 0, "assign(A,NULL)");
    /* sources that can be neither indexed nor iterated (Int, String - it has Len but no get -, Float),
       and for List (which copies through len + get) a Filter view, which has neither */
    for (int w = 0; w < BS_N; w++) if (w != BS_ASSIGN_FILTER || kindA == K_LIST) addop(T_F_BADSRC, w, 0, 0, "%s", BSN[w]);
    if (kindA != K_TUPLE && !probe) {
      /* a Tuple is an untyped list of references: no element type to violate, and storing a NULL
         reference is not clearly illegal - not treated as must-fail.  Probe accepts any argument. */
      static const int fo[] = { FO_PUSH, FO_APPEND, FO_SET, FO_PUSHAT };
      for (int j = 0; j < 4; j++) addop(T_F_WRONG, fo[j], 0, 0, "%s(wrong-type element)", FON[fo[j]]);
      for (int j = 0; j < 4; j++) addop(T_F_NULL, fo[j], 0, 0, "%s(NULL element)", FON[fo[j]]);
    }
    if (kindA == K_TUPLE) for (int s = 0; s < SO_N; s++) addop(T_F_STACK, s, 0, 0, "stack-tuple %s", SON[s]);
  }
}

static void opname(int op, char* buf, size_t cap) { snprintf(buf, cap, "%s", ops[op].name); }

/* ---- reference model helpers ---------------------------------------------------------------- */

static void m_ins(struct seq* m, int pos, int v) {
  for (int i = m->n; i > pos; i--) m->v[i] = m->v[i - 1];
  m->v[pos] = v; m->n++;
  if (m == &MA && lastpos >= pos) lastpos++;
}
static void m_del(struct seq* m, int pos) {
  for (int i = pos; i + 1 < m->n; i++) m->v[i] = m->v[i + 1];
  m->n--;
  if (m == &MA) { lastrem_pos = pos; if (lastpos == pos) lastpos = -1; else if (lastpos > pos) lastpos--; }
}
static int  m_find(struct seq* m, int v) { for (int i = 0; i < m->n; i++) if (m->v[i] == v) return i; return -1; }

static int raised(var e, const char* what) {
  vf_violation(L("raises"), NULL, "%s raised %s on in-range arguments", what, vf_exc_name(e));
  return VF_BAD;
}

/* the model adopts what the container shows (unspecified conventions only) */
static void m_adopt(struct seq* m, const int64_t* t, int n) { m->n = n; for (int i = 0; i < n; i++) m->v[i] = (int)t[i]; if (m == &MA) lastpos = -1; }

static int same_as_model(struct seq* m, const int64_t* t, int n) {
  if (n != m->n) return 0;
  for (int i = 0; i < n; i++) if (t[i] != m->v[i]) return 0;
  return 1;
}

/* ---- failed operations (C12): exception from the accept set, nothing changed ---------------- */

static struct { int n; int64_t v[MAXN + 8]; int64_t live; long blocks; size_t depth; int store; } FB;

/* white-box: does the Array own a backing store block?  (a refused push may legitimately have reserved capacity) */
static int array_has_store(var x) {
#if WB
  if (kindA == K_ARRAY) return ((struct Array*)x)->data isnt NULL;
#endif
  return 0;
}

static void fail_begin(void) {
  FB.n = snap(CA, FB.v, MAXN + 8);
  FB.depth = len(current(Exception));
  vf_led_err[0] = 0;
  FB.live = vf_led_live;
  FB.blocks = vf_blocks;
  FB.store = array_has_store(CA);
}

static int fail_end(var e, var a1, var a2, var a3, const char* what) {
  long blocks = vf_blocks - (array_has_store(CA) - FB.store); int64_t live = vf_led_live;
  char b1[160], b2[160];
  if (e is NULL) {
    int64_t t[MAXN + 8]; int n = snap(CA, t, MAXN + 8);
    seqstr(FB.v, FB.n, b1, sizeof b1); if (n >= 0) seqstr(t, n, b2, sizeof b2); else snprintf(b2, sizeof b2, "(unreadable)");
    /* which elements are not of the element type now? (a foreign object taken over as it is) */
    char b3[120] = ""; 
    if (kindA != K_TUPLE) {
      var x = VF_CATCH({ size_t nn = len(CA); for (size_t i = 0; i < nn && i < MAXN; i++) { var it = get(CA, $I(i)); if (type_of(it) isnt ET) { snprintf(b3, sizeof b3, "; element %zu of %zu now has type %s, iter_type is %s", i, nn, c_str(type_of(it)), c_str(iter_type(CA))); break; } } });
      (void)x;
      if (b3[0]) corrupt = 1;
    }
    vf_violation(L("no-exception"), NULL, "%s did not raise; contents %s -> %s%s", what, b1, b2, b3); return VF_BAD;
  }
  if (e isnt a1 and e isnt a2 and e isnt a3) { vf_violation(L("wrong-exception"), NULL, "%s raised %s", what, vf_exc_name(e)); return VF_BAD; }
  var x = VF_CATCH(g_sz = len(CA));
  if (x or g_sz != (size_t)FB.n) {
    corrupt = 1;
    vf_violation(L("len-changed"), NULL, "%s raised %s but len changed from %d to %zu", what, vf_exc_name(e), FB.n, x ? (size_t)0 : (size_t)g_sz); return VF_BAD;
  }
  int64_t t[MAXN + 8]; int n = snap(CA, t, MAXN + 8);
  int sameq = (n == FB.n);
  for (int i = 0; sameq && i < n; i++) if (t[i] != FB.v[i]) sameq = 0;
  if (!sameq) {
    seqstr(FB.v, FB.n, b1, sizeof b1); if (n >= 0) seqstr(t, n, b2, sizeof b2); else snprintf(b2, sizeof b2, "(unreadable)");
    corrupt = 1;
    vf_violation(L("contents-changed"), NULL, "%s raised %s but changed the contents: %s -> %s", what, vf_exc_name(e), b1, b2); return VF_BAD;
  }
  if (vf_led_err[0]) { vf_violation(L("ledger"), NULL, "%s: %s", what, vf_led_err); vf_led_err[0] = 0; return VF_BAD; }
  if (probe && live != FB.live) {
    vf_violation(L(live > FB.live ? "element-leaked" : "element-finalised"), NULL, "%s raised %s; live Probe elements %" PRId64 " -> %" PRId64 " although the contents are unchanged", what, vf_exc_name(e), FB.live, live);
    return VF_BAD;
  }
  if (HAVE_WRAP && blocks != FB.blocks) {
    vf_violation(L(blocks > FB.blocks ? "memory-block-leaked" : "memory-block-freed"), NULL, "%s raised %s; live heap blocks %ld -> %ld although the contents are unchanged", what, vf_exc_name(e), FB.blocks, blocks);
    return VF_BAD;
  }
  if (len(current(Exception)) != FB.depth) { vf_violation(L("exception-depth"), NULL, "%s: exception depth not restored", what); return VF_BAD; }
  return VF_OK;
}

/* ---- transitions ------------------------------------------------------------------------------ */

static int64_t idx_of_class(int f, int c, int n) {
  switch (c) {
  case IC_PAST:    return f == FO_PUSHAT ? n + 1 : n;
  case IC_NEGPAST: return f == FO_PUSHAT ? -(int64_t)(n + 2) : -(int64_t)(n + 1);
  case IC_PLUSM:   return 1000000;
  case IC_MINUSM:  return -1000000;
  case IC_MAX:     return INT64_MAX;
  default:         return INT64_MIN;
  }
}

/* release a source container: at once, unless a Tuple is involved (a Tuple keeps pointers to the
   source's elements; an Array/List assigned from a Tuple keeps Refs to the tuple's objects) */
static void release_src(var src, int srckind, int dstkind) {
  if (srckind == K_TUPLE || dstkind == K_TUPLE) keep_temp(src, 0); else del_raw(src);
}

/* push_at with an index on which the kinds disagree (index == len, negative index) */
static int apply_pushat_unspecified(var el, int v, int64_t ix) {
  int64_t t[MAXN + 8];
  setop("push_at/%s", ix < 0 ? "negative-index" : "index==len");
  var e = VF_CATCH(push_at(CA, el, $I(ix)));
  int n = snap(CA, t, MAXN + 8);
  if (n < 0) { corrupt = 1; vf_violation(L("unreadable"), NULL, "after push_at(%d,%" PRId64 ") the contents cannot be read", v, ix); return VF_BAD; }
  if (e) {
    if (!same_as_model(&MA, t, n)) { corrupt = 1; vf_violation(L("raised-but-changed"), NULL, "push_at(%d,%" PRId64 ") raised %s and changed the contents", v, ix, vf_exc_name(e)); return VF_BAD; }
    if (e isnt IndexOutOfBoundsError and e isnt ValueError) { vf_violation(L("wrong-exception"), NULL, "push_at(%d,%" PRId64 ") raised %s", v, ix, vf_exc_name(e)); return VF_BAD; }
    if (propC12) {   /* a refused push_at must not leak either; fail_begin() was called by apply() */
      return fail_end(e, IndexOutOfBoundsError, IndexOutOfBoundsError, IndexOutOfBoundsError, "push_at with a refused index");
    }
    return VF_OK;
  }
  /* accepted: exactly one v inserted somewhere, order of the old elements preserved */
  int ok = 0;
  if (n == MA.n + 1) {
    for (int p = 0; p <= MA.n && !ok; p++) {
      if (t[p] != v) continue;
      int good = 1;
      for (int i = 0; i < MA.n && good; i++) if (t[i < p ? i : i + 1] != MA.v[i]) good = 0;
      ok = good;
    }
  }
  if (!ok) {
    char b1[160], b2[160]; mstr(&MA, b1, sizeof b1); seqstr(t, n, b2, sizeof b2);
    vf_violation(L("corrupted"), NULL, "push_at(%d,%" PRId64 ") turned %s into %s: not the old sequence with one %d inserted", v, ix, b1, b2, v);
    return VF_BAD;
  }
  m_adopt(&MA, t, n);
  return VF_OK;
}

/* resize(n > len) for every kind and any resize of a Tuple: the kinds disagree */
static int apply_resize_unspecified(int m) {
  int64_t t[MAXN + 8];
  setop("resize/%s", m > MA.n ? "n>len" : m == MA.n ? "tuple-n==len" : "tuple-n<len");
  var e = VF_CATCH(resize(CA, (size_t)m));
  int n = snap(CA, t, MAXN + 8);
  if (n < 0) { corrupt = 1; vf_violation(L("unreadable"), NULL, "after resize(%d) the contents cannot be read", m); return VF_BAD; }
  if (e) {
    if (e isnt FormatError and e isnt ResourceError and e isnt ValueError and e isnt IndexOutOfBoundsError) { vf_violation(L("wrong-exception"), NULL, "resize(%d) raised %s", m, vf_exc_name(e)); return VF_BAD; }
    if (!same_as_model(&MA, t, n)) { corrupt = 1; vf_violation(L("raised-but-changed"), NULL, "resize(%d) raised %s and changed the contents", m, vf_exc_name(e)); return VF_BAD; }
    return VF_OK;
  }
  int keep = MA.n < m ? MA.n : m;
  int ok = (n == MA.n || n == m);
  for (int i = 0; ok && i < keep && i < n; i++) if (t[i] != MA.v[i]) ok = 0;
  if (!ok) {
    char b1[160], b2[160]; mstr(&MA, b1, sizeof b1); seqstr(t, n, b2, sizeof b2);
    vf_violation(L("corrupted"), NULL, "resize(%d) turned %s into %s (len must be the old one or %d, the old prefix must be preserved)", m, b1, b2, m);
    return VF_BAD;
  }
  m_adopt(&MA, t, n);
  return VF_OK;
}

/* Array/List := Tuple yields a container of Ref (Tuple declares no iter_type): checked on a side
   object (len and the referenced values), the explored state itself stays unchanged */
static int apply_assign_from_tuple_side(int s) {
  setop("assign/from-tuple");
  var src = build(K_TUPLE, srcseq[s], srclen[s]);
  keep_temp(src, 0);
  var y = build(kindA, MA.v, MA.n);
  keep_temp(y, 0);
  var e = VF_CATCH(assign(y, src));
  if (e) return raised(e, "assign(array-or-list, tuple)");
  int64_t t[MAXN + 8];
  int n = snap(y, t, MAXN + 8);
  int ok = (n == srclen[s]);
  for (int i = 0; ok && i < n; i++) if (t[i] != srcseq[s][i]) ok = 0;
  if (ok) { e = VF_CATCH(g_int = walk(y, itbuf, n + 8)); if (e || g_int != n) ok = 0; }
  if (!ok) { vf_violation(L("wrong-contents"), NULL, "assign(%s, tuple of %d items) does not hold the tuple's items", KN[kindA], srclen[s]); return VF_BAD; }
  return VF_OK;
}

static int apply_stack_tuple(int so) {
  /* a stack Tuple with A's items; every reallocating operation must refuse and leave the items alone (D20) */
  int n = MA.n;
  if (n == 0 && so != SO_PUSH && so != SO_CONCAT && so != SO_ASSIGN) return VF_SKIP;
  var items[MAXN + 4], saved[MAXN + 4];
  struct Tuple* ta = CA;
  for (int i = 0; i < n; i++) items[i] = ta->items[i];
  items[n] = Terminal; items[n + 1] = Terminal; items[n + 2] = Terminal;
  memcpy(saved, items, sizeof items);
  var st = $(Tuple, items);
  int one[1] = { 0 };
  var src = build(K_TUPLE, one, 1); keep_temp(src, 0);
  setop("stack-tuple/%s", SON[so]);
  size_t depth = len(current(Exception));
  var e = NULL;
  switch (so) {
  case SO_PUSH:       e = VF_CATCH(push(st, fresh_distinct(0))); break;
  case SO_POP:        e = VF_CATCH(pop(st)); break;
  case SO_PUSHAT:     e = VF_CATCH(push_at(st, fresh_distinct(0), $I(0))); break;
  case SO_POPAT0:     e = VF_CATCH(pop_at(st, $I(0))); break;
  case SO_POPATLAST:  e = VF_CATCH(pop_at(st, $I(-1))); break;
  case SO_CONCAT:     e = VF_CATCH(concat(st, src)); break;
  case SO_RESIZE:     e = VF_CATCH(resize(st, (size_t)(n - 1))); break;
  case SO_ASSIGN:     e = VF_CATCH(assign(st, src)); break;
  }
  if (e is NULL) { vf_violation(L("no-exception"), NULL, "%s on a stack Tuple of %d items did not raise", SON[so], n); return VF_BAD; }
  if (e isnt ValueError and e isnt ResourceError) { vf_violation(L("wrong-exception"), NULL, "%s on a stack Tuple raised %s", SON[so], vf_exc_name(e)); return VF_BAD; }
  if (((struct Tuple*)st)->items != items || memcmp(saved, items, sizeof items) != 0) {
    int k = 0; while (k < n + 3 && items[k] is saved[k]) k++;
    vf_violation(L("items-changed"), NULL, "%s on a stack Tuple of %d items raised %s after modifying the items (first difference at position %d)", SON[so], n, vf_exc_name(e), k);
    return VF_BAD;
  }
  if (len(current(Exception)) != depth) { vf_violation(L("exception-depth"), NULL, "exception depth not restored"); return VF_BAD; }
  return VF_OK;
}

/* a fresh raw container of this kind whose element type is `t`, holding f elements */
static var build_other(int kind, int t, int f) {
  var x = kind == K_ARRAY ? (var)new_raw(Array, ot_type(t)) : (var)new_raw(List, ot_type(t));
  for (int i = 0; i < f; i++) {
    switch (t) {
    case OT_INT:    push(x, ot_int[i % 3]); break;
    case OT_PROBE:  push(x, ot_probe[i % 3]); break;
    case OT_BLOB20: push(x, $(Blob20, { "0123456789abcdefghi" })); break;
    default:        push(x, $S("a String element that owns a heap buffer")); break;
    }
  }
  return x;
}

/* assign(target of another element type, A): contents and element type must be A's afterwards, the
   target's old elements finalised exactly once (ledger), nothing else changed.  Returns the new container or NULL. */
static var assign_into_other(int kind, int t, int f) {
  int64_t tt[MAXN + 8];
  int64_t live0 = vf_led_live;
  vf_led_err[0] = 0;
  var y = build_other(kind, t, f);
  if (t == OT_PROBE && vf_led_live != live0 + f) { vf_violation(L("setup"), NULL, "harness: Probe fill did not construct %d elements", f); return NULL; }
  var e = VF_CATCH(assign(y, CA));
  if (e) { corrupt = 1; vf_violation(L("raises"), NULL, "assign(%s of %s holding %d items, A) raised %s", KN[kind], OTN[t], f, vf_exc_name(e)); return NULL; }
  if (vf_led_err[0]) { corrupt = 1; vf_violation(L("ledger"), NULL, "%s", vf_led_err); vf_led_err[0] = 0; return NULL; }
  int64_t want = live0 + (probe ? MA.n : 0);
  if (vf_led_live != want) {
    corrupt = 1;
    vf_violation(L(vf_led_live > want ? "old-elements-not-finalised" : "too-many-finalised"), NULL, "after assign into a %s of %s that held %d items: %" PRId64 " Probe elements live, expected %" PRId64, KN[kind], OTN[t], f, vf_led_live - live0, want - live0);
    return NULL;
  }
  if (iter_type(y) isnt ET) { vf_violation(L("element-type"), NULL, "iter_type of the target is not the source's element type"); del_raw(y); return NULL; }
  int saved = light; light = 0;
  int k = snap(y, tt, MAXN + 8);
  light = saved;
  if (!same_as_model(&MA, tt, k)) { vf_violation(L("wrong-contents"), NULL, "the target does not hold the source's %d elements", MA.n); del_raw(y); return NULL; }
  return y;
}

/* child: sources that hold one object twice */
static struct { int w, pat; } dupargs;
static void duptuple_child(void* arg) {
  (void)arg;
  var a = new_raw(Int, $I(0)), b = new_raw(Int, $I(1)), c2 = new_raw(Int, $I(2));
  static const int pv[4][5] = { {0,0,-1,-1,2}, {0,0,1,-1,3}, {0,1,0,-1,3}, {0,1,0,2,4} };
  const int* p = pv[dupargs.pat]; int n = p[4];
  var it[4]; for (int i = 0; i < n; i++) it[i] = p[i] == 2 ? c2 : p[i] ? b : a;
  var y;
  if (kindA == K_TUPLE) {
    /* Tuple target: assign onto a fresh / a non-empty heap Tuple, or copy(); judged through len and get only */
    var t = n == 2 ? new_raw(Tuple, it[0], it[1]) : n == 3 ? new_raw(Tuple, it[0], it[1], it[2]) : new_raw(Tuple, it[0], it[1], it[2], it[3]);
    if (dupargs.w == 2) y = copy(t);
    else {
      y = new_raw(Tuple);
      if (dupargs.w == 1) { push(y, c2); push(y, b); push(y, b); push(y, a); push(y, c2); }
      assign(y, t);
    }
    if (len(y) != (size_t)n) _exit(3);
    for (int i = 0; i < n; i++) if (get(y, $I(i)) != it[i]) _exit(4);
    for (int i = 0; i < n; i++) if (get(y, $I(-(int64_t)(n - i))) != it[i]) _exit(4);
    _exit(0);
  }
  if (dupargs.w == 2) {
    y = n == 2 ? (kindA == K_ARRAY ? (var)new_raw(Array, Int, it[0], it[1]) : (var)new_raw(List, Int, it[0], it[1]))
      : n == 3 ? (kindA == K_ARRAY ? (var)new_raw(Array, Int, it[0], it[1], it[2]) : (var)new_raw(List, Int, it[0], it[1], it[2]))
               : (kindA == K_ARRAY ? (var)new_raw(Array, Int, it[0], it[1], it[2], it[3]) : (var)new_raw(List, Int, it[0], it[1], it[2], it[3]));
  } else {
    var t = n == 2 ? new_raw(Tuple, it[0], it[1]) : n == 3 ? new_raw(Tuple, it[0], it[1], it[2]) : new_raw(Tuple, it[0], it[1], it[2], it[3]);
    y = kindA == K_ARRAY ? (var)new_raw(Array, Int) : (var)new_raw(List, Int);
    if (dupargs.w == 1) { push(y, $I(2)); push(y, $I(2)); push(y, $I(1)); push(y, $I(0)); push(y, $I(1)); }
    assign(y, t);
  }
  if (len(y) != (size_t)n) _exit(3);
  for (int i = 0; i < n; i++) if (elemval(get(y, $I(i))) != p[i]) _exit(4);
  for (int i = 0; i < n; i++) if (elemval(get(y, $I(-(int64_t)(n - i)))) != p[i]) _exit(4);
  int64_t out[8]; if (walk(y, out, 8) != n) _exit(5);
  for (int i = 0; i < n; i++) if (out[i] != p[i]) _exit(5);
  _exit(0);
}

/* number of items a forward iteration yields, -1 if one of them is not of type T */
static int count_items_of_type(var y, var T) {
  int c = 0;
  foreach (it in y) { if (type_of(it) isnt T) return -1; if (++c > MAXN + 8) break; }
  return c;
}

static int apply_op(int op);
static int apply(int op) {
  int n0 = MA.n, t = ops[op].t;
  int r = apply_op(op);
#if WB
  if (r == VF_OK && CA && MA.kind == K_ARRAY) {
    struct Array* a = CA;
    if (MA.n < n0) {      /* a removal: what is left in the slot behind the last item? */
      int shifted = (t == T_POPAT || t == T_REM || t == T_AL_REM) && lastrem_pos < MA.n;
      vac_kind = shifted ? 'c' : 'd';
    }
    if ((int)a->nitems > vac_hw) vac_hw = (int)a->nitems;
    if ((int)a->nslots < vac_hw) vac_hw = (int)a->nslots;
    if (t == T_COPY || t == T_ASSIGN || t == T_ASSIGN_OTHER || t == T_ASSIGN_VIEW || t == T_A_ASSIGN_FROM_B || t == T_SWAP) vac_hw = (int)a->nitems;   /* a new store */
  }
#endif
  return r;
}

static int apply_op(int op) {
  struct opd* o = &ops[op];
  int n = MA.n;
  var e; var el;
  int64_t t[MAXN + 8];
  switch (o->t) {

  case T_PUSH: case T_APPEND:
    if (n >= maxlen) return VF_SKIP;
    setop(o->t == T_PUSH ? "push" : "append");
    el = elem(kindA, o->a);
    if (o->t == T_PUSH) e = VF_CATCH(push(CA, el)); else e = VF_CATCH(append(CA, el));
    if (e) return raised(e, lastop);
    MA.v[MA.n++] = o->a;
    return VF_OK;

  case T_POP:
    if (n == 0) {
      if (!propC12) return VF_SKIP;
      setop("pop/empty");
      fail_begin();
      e = VF_CATCH(pop(CA));
      return fail_end(e, IndexOutOfBoundsError, IndexOutOfBoundsError, IndexOutOfBoundsError, "pop of an empty container");
    }
    setop("pop");
    e = VF_CATCH(pop(CA));
    if (e) return raised(e, "pop");
    MA.n--;
    if (lastpos >= MA.n) lastpos = -1;
    return VF_OK;

  case T_SET: {
    if (o->i >= n || o->i < -(int64_t)n) return VF_SKIP;
    int p = (int)(o->i < 0 ? n + o->i : o->i);
    setop(o->i < 0 ? "set/negative-index" : "set");
    e = VF_CATCH(set(CA, $I(o->i), elem(kindA, o->a)));
    if (e) return raised(e, "set");
    MA.v[p] = o->a; lastidx = p; lastpos = p; lastkind = 's';
    return VF_OK; }

  case T_GET: {     /* light oracle only: an explicit query, a self-loop whose result must match the model */
    if (o->i >= n || o->i < -(int64_t)n) return VF_SKIP;
    int p = (int)(o->i < 0 ? n + o->i : o->i);
    setop(o->i < 0 ? "get/negative-index" : "get");
    e = VF_CATCH({ g_var = get(CA, $I(o->i)); g_i64 = elemval(g_var); });
    if (e) return raised(e, "get");
    lastidx = p; lastpos = p; lastkind = 'g';
    if (g_i64 != MA.v[p]) { vf_violation(L("value"), NULL, "get(%" PRId64 ")=%" PRId64 ", reference has %d at that position", o->i, (int64_t)g_i64, MA.v[p]); return VF_BAD; }
    if (kindA != K_TUPLE && type_of(g_var) isnt ET) { vf_violation(L("type"), NULL, "get(%" PRId64 ") is not of the element type", o->i); return VF_BAD; }
    return VF_OK; }

  case T_MEM: {
    setop("mem");
    int want = m_find(&MA, o->a) >= 0;
    e = VF_CATCH(g_b = mem(CA, valobj[o->a]));
    if (e) return raised(e, "mem");
    if ((int)g_b != want) { vf_violation(L("value"), NULL, "mem(%d)=%d, reference says %d", o->a, (int)g_b, want); return VF_BAD; }
    return VF_OK; }

  case T_PUSHAT:
    if (n >= maxlen) return VF_SKIP;
    if (o->i >= 0 && o->i < n) {
      setop("push_at");
      e = VF_CATCH(push_at(CA, elem(kindA, o->a), $I(o->i)));
      if (e) return raised(e, "push_at");
      m_ins(&MA, (int)o->i, o->a); lastidx = (int)o->i; lastpos = lastidx; lastkind = 'i';
      return VF_OK;
    }
    if (o->i == n || (o->i < 0 && o->i >= -(int64_t)(n + 1))) {
      el = elem(kindA, o->a);
      if (propC12) fail_begin();
      lastidx = (int)(o->i < 0 ? n + 1 + o->i : o->i); lastkind = 'i';
      return apply_pushat_unspecified(el, o->a, o->i);
    }
    return VF_SKIP;

  case T_POPAT: {
    if (o->i >= n || o->i < -(int64_t)n) return VF_SKIP;
    int p = (int)(o->i < 0 ? n + o->i : o->i);
    setop(o->i < 0 ? "pop_at/negative-index" : "pop_at");
    e = VF_CATCH(pop_at(CA, $I(o->i)));
    if (e) return raised(e, "pop_at");
    m_del(&MA, p); lastidx = p; lastpos = -1; lastkind = 'p';
    return VF_OK; }

  case T_REM: {
    int p = m_find(&MA, o->a);
    if (p < 0) {
      if (!propC12) return VF_SKIP;
      setop("rem/absent");
      fail_begin();
      e = VF_CATCH(rem(CA, valobj[o->a]));
      return fail_end(e, ValueError, KeyError, KeyError, "rem of an absent element");
    }
    setop("rem");
    e = VF_CATCH(rem(CA, valobj[o->a]));
    if (e) return raised(e, "rem of a present element");
    m_del(&MA, p);     /* the FIRST equal element goes */
    return VF_OK; }

  case T_RESIZE: {
    int m = o->a;
    if (m > n + 2) return VF_SKIP;
    if (m > maxlen && kindA != K_ARRAY) return VF_SKIP;
    /* List zero-extends with elements that were never constructed: outside the ledger's model */
    if ((probe || strel || plain) && kindA == K_LIST && m > n) return VF_SKIP;   /* (plain: a zero-filled struct is not one of the value carriers, whose padding field is non-zero) */
    if (kindA == K_TUPLE || m > n) return apply_resize_unspecified(m);
    setop(m == 0 ? "resize/0" : m == n ? "resize/len" : "resize/truncate");
    e = VF_CATCH(resize(CA, (size_t)m));
    if (e) return raised(e, "resize(n <= len)");
    MA.n = m;
    if (lastpos >= m) lastpos = -1;
    return VF_OK; }

  case T_SORT: {
    if (kindA == K_LIST) return VF_SKIP;      /* List does not implement Sort */
    setop("sort");
    e = VF_CATCH(sort(CA));
    if (e) return raised(e, "sort");
    int k = snap(CA, t, MAXN + 8);
    if (k != n) { vf_violation(L("len-changed"), NULL, "sort changed len from %d to %d", n, k); return VF_BAD; }
    for (int i = 0; i + 1 < k; i++) if (t[i] > t[i + 1]) {
      char b[160]; seqstr(t, k, b, sizeof b);
      vf_violation(L("not-sorted"), NULL, "after sort the contents are %s", b); return VF_BAD;
    }
    int cnt[16] = {0};
    for (int i = 0; i < n; i++) cnt[MA.v[i] & 15]++;
    for (int i = 0; i < k; i++) cnt[t[i] & 15]--;
    for (int i = 0; i < 16; i++) if (cnt[i]) {
      char b1[160], b2[160]; mstr(&MA, b1, sizeof b1); seqstr(t, k, b2, sizeof b2);
      vf_violation(L("not-a-permutation"), NULL, "sort turned %s into %s", b1, b2); return VF_BAD;
    }
    m_adopt(&MA, t, k);
    return VF_OK; }

  case T_COPY:
    setop("copy");
    e = VF_CATCH(R[2] = copy(CA));
    if (e) return raised(e, "copy");
    del_c(CA, MA.managed); CA = R[2]; R[2] = NULL; MA.managed = 1;
    lastidx = -1; lastpos = -1; lastkind = '-';
    return VF_OK;

  case T_CONCAT: {
    int s = o->b, k = o->a;
    if (n + srclen[s] > maxlen) return VF_SKIP;
    setop("concat/%s", KN[k]);
    var src = build(k, srcseq[s], srclen[s]);
    e = VF_CATCH(concat(CA, src));
    release_src(src, k, kindA);
    if (e) return raised(e, "concat");
    for (int i = 0; i < srclen[s]; i++) MA.v[MA.n++] = srcseq[s][i];
    return VF_OK; }

  case T_ASSIGN: {
    int s = o->b, k = o->a;
    if (srclen[s] > maxlen) return VF_SKIP;
    if (k == K_TUPLE && kindA != K_TUPLE) return apply_assign_from_tuple_side(s);
    setop("assign/from-%s", KN[k]);
    var src = build(k, srcseq[s], srclen[s]);
    e = VF_CATCH(assign(CA, src));
    release_src(src, k, kindA);
    if (e) return raised(e, "assign");
    MA.n = srclen[s];
    for (int i = 0; i < srclen[s]; i++) MA.v[i] = srcseq[s][i];
    lastpos = -1;
    return VF_OK; }

  case T_ASSIGN_VIEW: {
    /* the source is a Filter view (iterable, but neither len nor get) over an Array: the result must be the view's items */
    int sq = o->b;
    setop("assign/from-filter-view");
    var src = build(K_ARRAY, srcseq[sq], srclen[sq]);
    keep_temp(src, 0);
    e = VF_CATCH(assign(CA, filter(src, $(Function, bs_accept_all))));
    if (e) return raised(e, "assign from a Filter view");
    MA.n = srclen[sq];
    for (int i = 0; i < srclen[sq]; i++) MA.v[i] = srcseq[sq][i];
    lastpos = -1;
    return VF_OK; }

  /* ---- aliasing: the argument is an element of the receiver ---- */
  case T_AL_PUSH: case T_AL_APPEND: case T_AL_PUSHAT: case T_AL_SET: {
    int k = o->a, i = (int)o->i, isset = o->t == T_AL_SET, isat = o->t == T_AL_PUSHAT;
    if (k >= n) return VF_SKIP;
    if ((isset || isat) && i >= n) return VF_SKIP;
    if (!isset) {
      if (n >= maxlen) return VF_SKIP;
      if (kindA == K_ARRAY && !(alias & 2)) {
        /* when the backing store must grow, the pinned library reallocates before it reads the
           argument, which then points into the freed block (proposed/seq-alias-array-push-own-element.md);
           explored only with alias bit 2.  Spare capacity is visible white-box only. */
#if WB
        if (((struct Array*)CA)->nslots <= ((struct Array*)CA)->nitems) return VF_SKIP;
#else
        return VF_SKIP;
#endif
      }
    }
    setop("%s/own-element", isset ? "set" : isat ? "push_at" : o->t == T_AL_PUSH ? "push" : "append");
    e = VF_CATCH(g_var = get(CA, $I(k)));
    if (e) return raised(e, "get");
    el = g_var;
    if (isset) e = VF_CATCH(set(CA, $I(i), el));
    else if (isat) e = VF_CATCH(push_at(CA, el, $I(i)));
    else if (o->t == T_AL_PUSH) e = VF_CATCH(push(CA, el));
    else e = VF_CATCH(append(CA, el));
    if (e) return raised(e, lastop);
    int v = MA.v[k];
    if (isset) MA.v[i] = v; else if (isat) m_ins(&MA, i, v); else MA.v[MA.n++] = v;
    lastidx = (isset || isat) ? i : k; lastpos = (isset || isat) ? i : (lastpos == k ? k : -1); lastkind = 'a';
    return VF_OK; }
  case T_AL_REM: {
    int k = o->a;
    if (k >= n) return VF_SKIP;
    setop("rem/own-element");
    e = VF_CATCH(g_var = get(CA, $I(k)));
    if (e) return raised(e, "get");
    el = g_var;
    int first = m_find(&MA, MA.v[k]);
    lastidx = k; lastpos = k; lastkind = 'a';
    e = VF_CATCH(rem(CA, el));
    if (e) return raised(e, "rem of an own element");
    m_del(&MA, first);       /* the FIRST element equal to the argument goes, not necessarily the one passed */
    return VF_OK; }
  case T_AL_MEM: {
    int k = o->a;
    if (k >= n) return VF_SKIP;
    setop("mem/own-element");
    e = VF_CATCH({ g_var = get(CA, $I(k)); g_b = mem(CA, g_var); });
    if (e) return raised(e, "mem of an own element");
    lastidx = k; lastpos = k; lastkind = 'a';
    if (!g_b) { vf_violation(L("value"), NULL, "mem(A, get(A,%d)) is false", k); return VF_BAD; }
    return VF_OK; }

  case T_ASSIGN_OTHER: {
    setop("assign-into-nonempty-other-type/%s-%d-items", OTN[o->a], o->b);
    var y = assign_into_other(kindA, o->a, o->b);
    if (!y) return VF_BAD;
    del_c(CA, MA.managed); CA = y; MA.managed = 0;
    lastidx = -1; lastpos = -1; lastkind = '-';
    return VF_OK; }
  case T_B_ASSIGN_OTHER: {
    if (CB) { del_c(CB, MB.managed); CB = NULL; MB.exists = 0; }
    setop("B=assign-into-nonempty-other-type/%s-%d-items", OTN[o->a], o->b);
    var y = assign_into_other(kindB, o->a, o->b);
    if (!y) return VF_BAD;
    CB = y; MB = MA; MB.kind = kindB; MB.managed = 0; MB.exists = 1;
    return VF_OK; }

  case T_DUPTUPLE: {
    if (n != 0 || MB.exists) return VF_SKIP;
    static const char* wl_[] = { "assign-into-fresh", "assign-into-nonempty", "new" }, * wlt[] = { "assign-into-fresh", "assign-into-nonempty", "copy" };
    const char** wl = kindA == K_TUPLE ? wlt : wl_;
    setop("%s/from-tuple-with-repeated-object", wl[o->a]);
    dupargs.w = o->a; dupargs.pat = o->b;
    struct vf_child c = vf_fork_run(duptuple_child, NULL, 3);
    vf_watchdog(60);     /* the child inherited and consumed nothing of ours; re-arm */
    if (c.timed_out) { vf_violation(L("does-not-terminate"), NULL, "%s did not return within 3 s (len and get of such a Tuple work; only iterating it is the known defect D16)", o->name); return VF_BAD; }
    if (c.signaled) { vf_violation(L("crash"), NULL, "%s died with signal %d", o->name, c.sig); return VF_BAD; }
    if (c.status != 0) { vf_violation(L(c.status == 3 ? "len" : c.status == 4 ? "get-value" : c.status == 5 ? "iter-value" : "raises"), NULL, "%s: the result does not hold the tuple's items (child status %d)", o->name, c.status); return VF_BAD; }
    return VF_OK; }

  case T_AL_CONCAT_SELF:
    if (2 * n > maxlen) return VF_SKIP;
    setop("concat/self");
    e = VF_CATCH(concat(CA, CA));
    if (e) return raised(e, "concat(A,A)");
    for (int i = 0; i < n; i++) MA.v[n + i] = MA.v[i];
    MA.n = 2 * n;
    return VF_OK;
  case T_AL_ASSIGN_SELF:
    setop("assign/self");
    e = VF_CATCH(assign(CA, CA));
    if (e) return raised(e, "assign(A,A)");
    return VF_OK;

  /* ---- an element value the element type refuses (elem=picky): must raise, nothing may change ---- */
  case T_P_POISON: {
    int i = (int)o->i;
    if ((o->a == FO_SET || o->a == FO_PUSHAT) && i >= n) return VF_SKIP;
    setop("%s/refused-element", FON[o->a]);
    fail_begin();
    switch (o->a) {
    case FO_PUSH:   e = VF_CATCH(push(CA, poisonobj)); break;
    case FO_APPEND: e = VF_CATCH(append(CA, poisonobj)); break;
    case FO_SET:    e = VF_CATCH(set(CA, $I(i), poisonobj)); break;
    default:        e = VF_CATCH(push_at(CA, poisonobj, $I(i))); break;
    }
    return fail_end(e, ValueError, ValueError, ValueError, o->name); }
  case T_P_CONCAT: {
    /* opt-in: the source holds an accepted value followed by the refused one */
    if (n + 2 > maxlen) return VF_SKIP;
    setop("concat/refused-element-in-source");
    var src = o->a == K_ARRAY ? (var)new_raw(Array, Int) : o->a == K_LIST ? (var)new_raw(List, Int) : (var)new_raw(Tuple);
    push(src, valobj_int0); push(src, poisonobj);
    keep_temp(src, 0);
    fail_begin();
    e = VF_CATCH(concat(CA, src));
    {
      /* two ways of not being "left exactly as it was", told apart by label:
         - the accepted prefix of the source stays appended (concat is not atomic);
         - len also counts a slot for the refused element that was never constructed */
      var x = VF_CATCH(g_sz = len(CA));
      if (e and x is NULL and g_sz != (size_t)n) {
        int k = snap(CA, t, MAXN + 8);
        int prefix_kept = (k == n + 1 && t[n] == 0 && vf_led_live == FB.live + 1);
        for (int i = 0; prefix_kept && i < n; i++) if (t[i] != MA.v[i]) prefix_kept = 0;
        if (!prefix_kept) corrupt = 1;
        vf_violation(L(prefix_kept ? "partially-appended" : "unconstructed-element-counted"), NULL,
          "%s raised %s; len %d -> %zu, %" PRId64 " more live elements", o->name, vf_exc_name(e), n, (size_t)g_sz, vf_led_live - FB.live);
        return VF_BAD;
      }
    }
    return fail_end(e, ValueError, ValueError, ValueError, o->name); }

  /* ---- objects of a foreign plain type (elem=plain|plain12): refused as elements, nothing may change ---- */
  case T_Q_ELEM: {
    int i = (int)o->i;
    if ((o->a == FO_SET || o->a == FO_PUSHAT) && i >= n) return VF_SKIP;
    setop("%s/foreign-type-element-%s", FON[o->a], FTN[o->b]);
    var q = foreignobj[o->b][0];
    fail_begin();
    switch (o->a) {
    case FO_PUSH:   e = VF_CATCH(push(CA, q)); break;
    case FO_APPEND: e = VF_CATCH(append(CA, q)); break;
    case FO_SET:    e = VF_CATCH(set(CA, $I(i), q)); break;
    default:        e = VF_CATCH(push_at(CA, q, $I(i))); break;
    }
    return fail_end(e, TypeError, ValueError, ValueError, o->name); }
  case T_Q_CONCAT: {
    int sl = (int)o->i;
    if (n + sl > maxlen) return VF_SKIP;
    setop("concat/foreign-type-source-%s-of-%s", KN[o->a], FTN[o->b]);
    var src = o->a == K_TUPLE ? (var)new_raw(Tuple) : new_raw_with(o->a == K_ARRAY ? Array : List, tuple(foreigntype[o->b]));
    for (int k = 0; k < sl; k++) push(src, foreignobj[o->b][k]);
    keep_temp(src, 0);
    fail_begin();
    e = VF_CATCH(concat(CA, src));
    return fail_end(e, TypeError, ValueError, ValueError, o->name); }
  case T_Q_ASSIGN: {
    /* assign from a container of a foreign type CONVERTS: applied to a copy of A, which must become exactly the source */
    int sl = (int)o->i;
    setop("assign/converts-to-%s-from-%s", FTN[o->b], KN[o->a]);
    var FT = foreigntype[o->b];
    var src = new_raw_with(o->a == K_ARRAY ? Array : List, tuple(FT));
    for (int k = 0; k < sl; k++) push(src, foreignobj[o->b][k]);
    keep_temp(src, 0);
    var y = build(kindA, MA.v, MA.n);
    keep_temp(y, 0);
    e = VF_CATCH(assign(y, src));
    if (e) return raised(e, "assign(copy of A, container of another plain type)");
    e = VF_CATCH({ g_var = iter_type(y); g_sz = len(y); });
    if (e) return raised(e, "iter_type/len after a converting assign");
    if (g_var isnt FT) { vf_violation(L("element-type"), NULL, "after assign from a %s of %s iter_type is %s", KN[o->a], c_str(FT), c_str(g_var)); return VF_BAD; }
    if (g_sz != (size_t)sl) { vf_violation(L("len"), NULL, "after assign from a %s of %d %s len is %zu", KN[o->a], sl, c_str(FT), (size_t)g_sz); return VF_BAD; }
    for (int k = 0; k < sl; k++) {
      e = VF_CATCH(g_var = get(y, $I(k)));
      if (e) return raised(e, "get after a converting assign");
      if (type_of(g_var) isnt FT) { vf_violation(L("get-type"), NULL, "element %d has type %s after assign from a %s of %s", k, c_str(type_of(g_var)), KN[o->a], c_str(FT)); return VF_BAD; }
      if (memcmp(g_var, foreignobj[o->b][k], size(FT)) != 0) { vf_violation(L("wrong-contents"), NULL, "element %d does not hold the bytes of the source's element", k); return VF_BAD; }
    }
    { e = VF_CATCH(g_int = count_items_of_type(y, FT));
      if (e) return raised(e, "iteration after a converting assign");
      if (g_int != sl) { vf_violation(L("iter-item-type"), NULL, "iteration after assign from a %s of %d %s: %s", KN[o->a], sl, c_str(FT), g_int < 0 ? "an item of another type" : "wrong item count"); return VF_BAD; } }
    return VF_OK; }

  /* ---- second container ---- */
  case T_B_COPY:
    if (CB) { del_c(CB, MB.managed); CB = NULL; MB.exists = 0; }
    if (kindB == kindA) {
      setop("B=copy(A)");
      e = VF_CATCH(CB = copy(CA));
      if (e) return raised(e, "copy");
      MB = MA; MB.managed = 1; MB.exists = 1;
    } else {
      /* B of another kind: B = assign(new(kindB), A) */
      setop("B=assign(new-%s,A)", KN[kindB]);
      CB = mk(kindB);
      MB = MA; MB.kind = kindB; MB.managed = 0; MB.exists = 1;
      e = VF_CATCH(assign(CB, CA));
      if (e) return raised(e, "assign");
    }
    return VF_OK;
  case T_B_ASSIGN_FROM_A:
    if (!MB.exists) return VF_SKIP;
    setop("assign(B,A)");
    e = VF_CATCH(assign(CB, CA));
    if (e) return raised(e, "assign");
    MB.n = MA.n; memcpy(MB.v, MA.v, sizeof MA.v);
    return VF_OK;
  case T_A_ASSIGN_FROM_B:
    if (!MB.exists) return VF_SKIP;
    setop("assign(A,B)");
    e = VF_CATCH(assign(CA, CB));
    if (e) return raised(e, "assign");
    MA.n = MB.n; memcpy(MA.v, MB.v, sizeof MA.v);
    return VF_OK;
  case T_B_DEL:
    if (!MB.exists) return VF_SKIP;
    setop("del(B)");
    e = VF_CATCH(del_c(CB, MB.managed));
    CB = NULL; MB.exists = 0; MB.n = 0;
    if (e) return raised(e, "del");
    return VF_OK;
  case T_B_PUSH:
    if (!MB.exists || MB.n >= maxlen) return VF_SKIP;
    setop("push(B)");
    e = VF_CATCH(push(CB, elem(MB.kind, o->a)));
    if (e) return raised(e, "push");
    MB.v[MB.n++] = o->a;
    return VF_OK;
  case T_B_POP:
    if (!MB.exists || MB.n == 0) return VF_SKIP;
    setop("pop(B)");
    e = VF_CATCH(pop(CB));
    if (e) return raised(e, "pop");
    MB.n--;
    return VF_OK;
  case T_SWAP: {
    /* swap exchanges the bytes of two objects of the same type */
    if (!MB.exists || MB.kind != MA.kind) return VF_SKIP;
    setop("swap(A,B)");
    e = VF_CATCH(swap(CA, CB));
    if (e) return raised(e, "swap");
    struct seq tm = MA; MA = MB; MB = tm;
    int mg = MA.managed; MA.managed = MB.managed; MB.managed = mg;   /* the allocation class stays with the object */
    return VF_OK; }

  /* ---- operations that must fail (C12) ---- */
  case T_F_IDX: {
    int64_t ix = idx_of_class(o->a, o->b, n);
    setop("%s/index-%s", FON[o->a], ICN[o->b]);
    el = elem(kindA, 0);
    fail_begin();
    switch (o->a) {
    case FO_GET:    e = VF_CATCH(get(CA, $I(ix))); break;
    case FO_SET:    e = VF_CATCH(set(CA, $I(ix), el)); break;
    case FO_POPAT:  e = VF_CATCH(pop_at(CA, $I(ix))); break;
    default:        e = VF_CATCH(push_at(CA, el, $I(ix))); break;
    }
    return fail_end(e, IndexOutOfBoundsError, IndexOutOfBoundsError, IndexOutOfBoundsError, o->name); }
  case T_F_REM_ABSENT:
    setop("rem/absent");
    fail_begin();
    e = VF_CATCH(rem(CA, valobj[nvals]));
    return fail_end(e, ValueError, KeyError, KeyError, "rem of an element that was never stored");
  case T_F_NULLIDX:
    setop("%s/NULL-index", FON[o->a]);
    el = elem(kindA, 0);
    fail_begin();
    switch (o->a) {
    case FO_GET:    e = VF_CATCH(get(CA, NULL)); break;
    case FO_SET:    e = VF_CATCH(set(CA, NULL, el)); break;
    case FO_POPAT:  e = VF_CATCH(pop_at(CA, NULL)); break;
    default:        e = VF_CATCH(push_at(CA, el, NULL)); break;
    }
    return fail_end(e, ValueError, ValueError, ValueError, o->name);
  case T_F_CONCAT_NULL:
    setop("concat/NULL");
    fail_begin();
    e = VF_CATCH(concat(CA, NULL));
    return fail_end(e, ValueError, ValueError, ValueError, "concat(NULL)");
  case T_F_ASSIGN_NULL:
    setop("assign/NULL");
    fail_begin();
    e = VF_CATCH(assign(CA, NULL));
    return fail_end(e, ValueError, ValueError, ValueError, "assign(A, NULL)");
  case T_F_BADSRC: {
    setop("%s", BSL[o->a]);
    /* white-box view before: an assign that is refused must not have touched the container at all */
    struct { var type; size_t tsize, nitems, aux; var p0, p1; } w0, w1;
    memset(&w0, 0, sizeof w0); memset(&w1, 0, sizeof w1);
#if WB
    if (kindA == K_ARRAY) { struct Array* a = CA; w0.type = a->type; w0.tsize = a->tsize; w0.nitems = a->nitems; w0.aux = a->nslots; w0.p0 = a->data; }
    if (kindA == K_LIST)  { struct List* l = CA;  w0.type = l->type; w0.tsize = l->tsize; w0.nitems = l->nitems; w0.p0 = l->head; w0.p1 = l->tail; }
#endif
    if (kindA == K_TUPLE) w0.p0 = ((struct Tuple*)CA)->items;
    fail_begin();
    switch (o->a) {
    case BS_ASSIGN_INT:    e = VF_CATCH(assign(CA, $I(5))); break;
    case BS_ASSIGN_STR:    e = VF_CATCH(assign(CA, $S("xy"))); break;
    case BS_ASSIGN_FLOAT:  e = VF_CATCH(assign(CA, $F(1.0))); break;
    case BS_CONCAT_INT:    e = VF_CATCH(concat(CA, $I(5))); break;
    case BS_CONCAT_STR:    e = VF_CATCH(concat(CA, $S("xy"))); break;
    case BS_CONCAT_FLOAT:  e = VF_CATCH(concat(CA, $F(1.0))); break;
    default:               e = VF_CATCH(assign(CA, filter(CA, $(Function, bs_accept_all)))); break;
    }
    int r = fail_end(e, ClassError, TypeError, ValueError, o->name);
    if (r != VF_OK) return r;
    if (o->a <= BS_ASSIGN_FLOAT || o->a == BS_ASSIGN_FILTER) {
#if WB
      if (kindA == K_ARRAY) { struct Array* a = CA; w1.type = a->type; w1.tsize = a->tsize; w1.nitems = a->nitems; w1.aux = a->nslots; w1.p0 = a->data; }
      if (kindA == K_LIST)  { struct List* l = CA;  w1.type = l->type; w1.tsize = l->tsize; w1.nitems = l->nitems; w1.p0 = l->head; w1.p1 = l->tail; }
#endif
      if (kindA == K_TUPLE) w1.p0 = ((struct Tuple*)CA)->items;
      if (memcmp(&w0, &w1, sizeof w0) != 0) {
        vf_violation(L("white-box-view-changed"), NULL, "%s raised %s and the API-visible contents are unchanged, but the container's own fields (element type, size, store/links) are not what they were", o->name, vf_exc_name(e));
        return VF_BAD;
      }
    }
    return VF_OK; }
  case T_F_WRONG: case T_F_NULL: {
    int isnull = o->t == T_F_NULL;
    if ((o->a == FO_SET || o->a == FO_PUSHAT) && n == 0) return VF_SKIP;   /* index 0 must be valid: only the element is bad */
    setop("%s/%s", FON[o->a], isnull ? "NULL-element" : "wrong-type-element");
    var bad = isnull ? NULL : wrongobj;
    fail_begin();
    switch (o->a) {
    case FO_PUSH:   e = VF_CATCH(push(CA, bad)); break;
    case FO_APPEND: e = VF_CATCH(append(CA, bad)); break;
    case FO_SET:    e = VF_CATCH(set(CA, $I(0), bad)); break;
    default:        e = VF_CATCH(push_at(CA, bad, $I(0))); break;
    }
    /* wrong type: the element type's own assign refuses the argument; with Int elements that is
       c_int(String) -> ClassError (String has no C_Int), accepted besides ValueError/TypeError */
    if (isnull) return fail_end(e, ValueError, ValueError, ValueError, o->name);
    return fail_end(e, ValueError, TypeError, ClassError, o->name); }
  case T_F_STACK:
    return apply_stack_tuple(o->a);
  }
  return VF_SKIP;
}

/* ---- ladder: capacity arithmetic of the backing store far beyond the BFS bound ------------------ */

static int ladref[LADMAX];

static int ladder_step(var x, int n, const char* phase, int step, struct vf_set* seen) {
  static char who[96];
  snprintf(who, sizeof who, "ladder %s step %d", phase, step);
  vf.transitions++;
  /* full comparison after every step (mem only every 16th step: it is linear and independent of capacity) */
  if (check_seq(x, kindA, ladref, n, who, (step & 15) == 0)) return 1;
#if WB
  if (kindA == K_ARRAY) {
    struct Array* a = x; char key[48];
    snprintf(key, sizeof key, "%zu/%zu", a->nitems, a->nslots);
    if (vf_set_put(seen, key, 0) < 0) { vf.states++; if (a->nslots != a->nitems) vf.nontrivial++; }
    return 0;
  }
#endif
  { char key[24]; snprintf(key, sizeof key, "%d", n); if (vf_set_put(seen, key, 0) < 0) { vf.states++; vf.nontrivial++; } }
  return 0;
}

static void ladder(void) {
  vf.phase = "seq-ladder";
  int N = (int)vf_param_i("ladder_n", 300);
  if (N > LADMAX - 8) N = LADMAX - 8;
  struct vf_set seen; vf_set_init(&seen, 4096);
  vf_watchdog(600);
  vf_set_cur("ladder kind=%s n=%d", KN[kindA], N);
  var x = mk(kindA);
  int n = 0, bad = 0;
  var e = NULL;
  #define LSTEP(phase, i, stmt, modelupd) do { \
      setop("ladder/%s", phase); \
      e = VF_CATCH(stmt); \
      if (e) { vf_violation(L("raises"), NULL, "ladder %s step %d raised %s", phase, i, vf_exc_name(e)); bad = 1; break; } \
      modelupd; \
      if (ladder_step(x, n, phase, i, &seen)) { bad = 1; break; } \
    } while (0)
  /* 1: push to N, 2: pop to 0 */
  for (int i = 0; i < N && !bad; i++) LSTEP("push", i, push(x, elem(kindA, i % 3)), (ladref[n++] = i % 3));
  for (int i = 0; i < N && !bad; i++) LSTEP("pop", i, pop(x), n--);
  /* 3: push_at front to N, 4: pop_at front to 0 */
  if (!bad && kindA == K_TUPLE) LSTEP("push", 0, push(x, elem(kindA, 2)), (ladref[n++] = 2));   /* Tuple refuses push_at on an empty tuple */
  for (int i = n; i < N && !bad; i++) {
    int v = (i * 7) % 3;
    if (n == 0) LSTEP("push_at-front", i, push_at(x, elem(kindA, v), $I(0)), (ladref[n++] = v));
    else LSTEP("push_at-front", i, push_at(x, elem(kindA, v), $I(0)), (memmove(ladref + 1, ladref, n * sizeof(int)), ladref[0] = v, n++));
  }
  for (int i = 0; i < N && !bad && n > 0; i++) LSTEP("pop_at-front", i, pop_at(x, $I(0)), (memmove(ladref, ladref + 1, (n - 1) * sizeof(int)), n--));
  /* 5: push_at / pop_at in the middle */
  if (!bad) LSTEP("push", 0, push(x, elem(kindA, 1)), (ladref[n++] = 1));
  if (!bad) LSTEP("push", 1, push(x, elem(kindA, 2)), (ladref[n++] = 2));
  for (int i = n; i < N && !bad; i++) {
    int v = (i * 5) % 3, p = n / 2;
    LSTEP("push_at-middle", i, push_at(x, elem(kindA, v), $I(p)), (memmove(ladref + p + 1, ladref + p, (n - p) * sizeof(int)), ladref[p] = v, n++));
  }
  for (int i = 0; i < N && !bad && n > 0; i++) {
    int p = n / 2;
    LSTEP("pop_at-middle", i, pop_at(x, $I(p)), (memmove(ladref + p, ladref + p + 1, (n - 1 - p) * sizeof(int)), n--));
  }
  /* 6: concat in chunks of 2, then truncate by resize in steps of 7 (Tuple: n < len only) */
  for (int i = 0; i + 2 <= N && !bad; i += 2) {
    int two_[2] = { i % 3, (i + 1) % 3 };
    var src = build((i / 2) % 3, two_, 2); keep_temp(src, 0);
    LSTEP("concat", i, concat(x, src), (ladref[n] = two_[0], ladref[n + 1] = two_[1], n += 2));
  }
  for (int m = n - 7; m > 0 && !bad; m -= 7) LSTEP("resize-truncate", m, resize(x, (size_t)m), n = m);
  if (!bad) { setop("ladder/sort"); e = VF_CATCH(sort(x)); if (kindA != K_LIST) { if (e) { vf_violation(L("raises"), NULL, "sort raised %s", vf_exc_name(e)); } else {
      for (int i = 0; i < n; i++) for (int j = i + 1; j < n; j++) if (ladref[j] < ladref[i]) { int tt = ladref[i]; ladref[i] = ladref[j]; ladref[j] = tt; }
      ladder_step(x, n, "sort", 0, &seen); } } }
  #undef LSTEP
  vf.executions = 1;
  vf_sample("ladder kind=%s: push x%d, pop x%d, push_at(front) x%d, pop_at(front), push_at/pop_at(middle), concat x%d, resize down by 7, sort; full comparison after each of %" PRIu64 " steps", KN[kindA], N, N, N, N / 2, vf.transitions);
  del_raw(x);
  for (int i = 0; i < ntemps; i++) del_raw(temps[i].obj);
  ntemps = 0;
  vf_watchdog(0);
}


/* ---- sort ladder: enumerated inputs far beyond the BFS length bound, Array and Tuple ---------------
** n <= 8: every permutation of 0..n-1.  Larger n: sorted, reversed, every rotation of both, organ-pipe
** and its inverse, interleavings of 2..5 sorted runs, two sorted runs (even/odd values) in both orders,
** sorted and reversed with every single transposition (i,j), all-equal, every 0/1 pattern (n <= 12),
** few-distinct-values patterns with period 2..5.  Each under sort() and sort_by(gt): the result must be
** ordered by the comparison, a permutation (Tuple: of the same OBJECTS; Array: of the value multiset),
** and len unchanged.
*/

#define SLMAX 128
static int sl_in[SLMAX], sl_n, sl_cmp;           /* current input, comparator 0 = sort() / lt, 1 = sort_by(gt) */
static const char* sl_family; static long sl_idx;
static var sl_obj[SLMAX];                         /* Tuple: the objects handed in, by input position */
static int sl_only_n = -1;

/* comparator 2: gt, but every call first sorts another small Array the other way round (a comparison function is free to
** use the library: rows compared by their largest member, a scoreboard kept sorted, ...) */
static uint64_t nest_bad;
static bool nest_gt(var a, var b) {
  var s3 = new_raw(Array, Int, $I(2), $I(0), $I(1));
  sort(s3);
  if (c_int(get(s3, $I(0))) != 0 || c_int(get(s3, $I(1))) != 1 || c_int(get(s3, $I(2))) != 2) nest_bad++;
  del_raw(s3);
  return gt(a, b);
}

static int ptrcmp(const void* a, const void* b) { uintptr_t x = (uintptr_t)*(var*)a, y = (uintptr_t)*(var*)b; return x < y ? -1 : x > y; }

static void sl_run_one(void) {
  int n = sl_n;
  char lb[160];
  #define SLL(sym) (snprintf(lb, sizeof lb, "%s/int/sortladder/%s/%s/%s/%s", KN[kindA], sl_cmp == 2 ? "sort_by-gt-that-sorts" : sl_cmp ? "sort_by-gt" : "sort", sl_family, n >= 10 ? "n>=10" : "n<10", sym), lb)
  vf_set_cur("sortladder kind=%s n=%d family=%s index=%ld cmp=%s", KN[kindA], n, sl_family, sl_idx, sl_cmp == 2 ? "gt-that-sorts" : sl_cmp ? "gt" : "lt");
  var x = mk(kindA);
  for (int i = 0; i < n; i++) {
    if (kindA == K_TUPLE) { sl_obj[i] = fresh_distinct(sl_in[i]); push(x, sl_obj[i]); }
    else push(x, $I(sl_in[i]));
  }
  var e;
  nest_bad = 0;
  if (sl_cmp == 2) e = VF_CATCH(sort_by(x, nest_gt)); else if (sl_cmp) e = VF_CATCH(sort_by(x, gt)); else e = VF_CATCH(sort(x));
  vf.executions++; vf.transitions++;
  int sorted_already = 1;
  for (int i = 0; i + 1 < n; i++) if (sl_cmp ? sl_in[i] < sl_in[i + 1] : sl_in[i] > sl_in[i + 1]) sorted_already = 0;
  if (!sorted_already) vf.nontrivial++;
  int bad = 0;
  if (e) { vf_violation(SLL("raises"), NULL, "sort raised %s", vf_exc_name(e)); bad = 1; }
  if (!bad && nest_bad) { vf_violation(SLL("inner-sort-wrong"), NULL, "the Array sorted inside the comparison function came out unsorted %" PRIu64 " times", nest_bad); bad = 1; }
  if (!bad && len(x) != (size_t)n) { vf_violation(SLL("len-changed"), NULL, "len %d -> %zu", n, len(x)); bad = 1; }
  static int64_t out[SLMAX]; static var outp[SLMAX], inp[SLMAX];
  if (!bad) {
    for (int i = 0; i < n; i++) { var it = get(x, $I(i)); outp[i] = it; out[i] = c_int(it); }
    for (int i = 0; i + 1 < n && !bad; i++) {
      if (sl_cmp ? out[i] < out[i + 1] : out[i] > out[i + 1]) {
        char b1[600], b2[600]; int64_t t[SLMAX]; for (int k = 0; k < n; k++) t[k] = sl_in[k];
        seqstr(t, n, b1, sizeof b1); seqstr(out, n, b2, sizeof b2);
        vf_violation(SLL("not-sorted"), NULL, "%s of %s gives %s: items %d and %d are out of order", sl_cmp ? "sort_by(gt)" : "sort", b1, b2, i, i + 1); bad = 1;
      }
    }
  }
  if (!bad) {
    if (kindA == K_TUPLE) {   /* the same objects */
      memcpy(inp, sl_obj, n * sizeof(var));
      qsort(inp, n, sizeof(var), ptrcmp); qsort(outp, n, sizeof(var), ptrcmp);
      if (memcmp(inp, outp, n * sizeof(var)) != 0) { vf_violation(SLL("not-a-permutation"), NULL, "the sorted Tuple does not hold exactly the objects it held before"); bad = 1; }
    } else {                  /* the same multiset of values */
      int cnt[SLMAX] = {0};
      for (int i = 0; i < n; i++) cnt[sl_in[i]]++;
      for (int i = 0; i < n && !bad; i++) { if (out[i] < 0 || out[i] >= SLMAX || --cnt[out[i]] < 0) { vf_violation(SLL("not-a-permutation"), NULL, "the sorted Array does not hold the values it held before"); bad = 1; } }
    }
  }
  vf.evaluations++;
  if (vf_want_sample()) { char b1[600]; int64_t t[SLMAX]; for (int k = 0; k < n; k++) t[k] = sl_in[k]; seqstr(t, n, b1, sizeof b1); vf_sample("%s %s %s", KN[kindA], sl_cmp ? "sort_by(gt)" : "sort()", b1); }
  del_raw(x);
  for (size_t i = 0; i < nfresh; i++) del_raw(fresh_list[i]);
  nfresh = 0;
  #undef SLL
}

static void sl_emit(const char* family) {
  sl_family = family;
  vf.states++;                              /* distinct inputs */
  for (sl_cmp = 0; sl_cmp < 3; sl_cmp++) { if (sl_cmp == 2 && sl_n > 24) continue; sl_run_one(); }
  sl_idx++;
}

static void sl_perms(int k) {               /* all permutations of sl_in[0..n) by swapping */
  if (k == sl_n) { sl_emit("permutation"); return; }
  for (int i = k; i < sl_n; i++) {
    int t = sl_in[k]; sl_in[k] = sl_in[i]; sl_in[i] = t;
    sl_perms(k + 1);
    t = sl_in[k]; sl_in[k] = sl_in[i]; sl_in[i] = t;
  }
}

static void sortladder(void) {
  vf.phase = "seq-sort-ladder";
  int N = (int)vf_param_i("sort_n", 64); if (N > SLMAX - 1) N = SLMAX - 1;
  int permmax = (int)vf_param_i("perm_n", 8);
  int bitsmax = (int)vf_param_i("bits_n", 12);
  if (kindA == K_LIST) { vf_note("List does not implement Sort"); return; }
  vf_watchdog(3000);
  for (int n = 0; n <= N; n++) {
    sl_n = n; sl_idx = 0;
    if (n <= permmax) { for (int i = 0; i < n; i++) sl_in[i] = i; sl_perms(0); }
    if (n <= bitsmax) for (long m = 0; m < (1L << n); m++) { for (int i = 0; i < n; i++) sl_in[i] = (int)((m >> i) & 1); sl_emit("zero-one-pattern"); }
    if (n <= permmax) continue;
    /* rotations of sorted and reversed (rotation 0 = sorted / reversed themselves) */
    for (int r = 0; r < n; r++) { for (int i = 0; i < n; i++) sl_in[i] = (i + r) % n; sl_emit(r ? "rotated-sorted" : "sorted"); }
    for (int r = 0; r < n; r++) { for (int i = 0; i < n; i++) sl_in[i] = n - 1 - (i + r) % n; sl_emit(r ? "rotated-reversed" : "reversed"); }
    /* organ pipe and its inverse */
    for (int i = 0; i < n; i++) sl_in[i] = i < n / 2 ? 2 * i : 2 * (n - 1 - i) + 1; sl_emit("organ-pipe");
    for (int i = 0; i < n; i++) sl_in[i] = n - (i < n / 2 ? 2 * i : 2 * (n - 1 - i) + 1); sl_emit("organ-pipe-inverse");
    /* s sorted runs interleaved, and s sorted runs one after the other */
    for (int sr = 2; sr <= 5; sr++) {
      int per = (n + sr - 1) / sr;
      for (int i = 0; i < n; i++) sl_in[i] = (i % sr) * per + i / sr; sl_emit("interleaved-runs");
      for (int i = 0; i < n; i++) sl_in[i] = sr * (i % per) + i / per; sl_emit("consecutive-runs");
    }
    /* sorted / reversed with every single transposition */
    for (int a = 0; a < n; a++) for (int b = a + 1; b < n; b++) {
      for (int i = 0; i < n; i++) sl_in[i] = i; sl_in[a] = b; sl_in[b] = a; sl_emit("sorted-one-transposition");
      for (int i = 0; i < n; i++) sl_in[i] = n - 1 - i; { int t = sl_in[a]; sl_in[a] = sl_in[b]; sl_in[b] = t; } sl_emit("reversed-one-transposition");
    }
    /* few distinct values */
    for (int i = 0; i < n; i++) sl_in[i] = 3; sl_emit("all-equal");
    for (int pd = 2; pd <= 5; pd++) for (int mul = 1; mul < pd; mul++) {
      for (int i = 0; i < n; i++) sl_in[i] = (i * mul) % pd; sl_emit("periodic");
      for (int i = 0; i < n; i++) sl_in[i] = pd - 1 - (i * mul) % pd; sl_emit("periodic-descending");
      for (int i = 0; i < n; i++) sl_in[i] = (i / pd) % 2 ? (i % pd) : pd - 1 - (i % pd); sl_emit("periodic-zigzag");
    }
  }
  vf_note("sort ladder %s: lengths 0..%d, all permutations up to length %d, all 0/1 patterns up to length %d, %" PRIu64 " inputs, each under sort() and sort_by(gt)", KN[kindA], N, permmax, bitsmax, vf.states);
  vf_watchdog(0);
}

/* ---- C09: cmp on all pairs / triples of sequences, all kind x kind pairs ------------------------ */

static int lexcmp(const int* a, int na, const int* b, int nb) {
  for (int i = 0; i < na && i < nb; i++) { if (a[i] < b[i]) return -1; if (a[i] > b[i]) return 1; }
  return na < nb ? -1 : na > nb ? 1 : 0;      /* shorter is smaller */
}
static int sgn(int c) { return c < 0 ? -1 : c > 0 ? 1 : 0; }

static void cmpgrid(void) {
  vf.phase = "seq-cmp-grid";
  int L_ = maxlen > 5 ? 5 : maxlen;
  /* all sequences of length <= L_ over the universe, shortest first */
  int ns = 0, tot = 1, pw = 1;
  for (int l = 1; l <= L_; l++) { pw *= nvals; tot += pw; }
  int (*sq)[6] = calloc(tot, sizeof *sq); int* sl = calloc(tot, sizeof *sl);
  for (int l = 0; l <= L_; l++) {
    int cnt = 1; for (int i = 0; i < l; i++) cnt *= nvals;
    for (int c = 0; c < cnt; c++) { int x = c; for (int i = l - 1; i >= 0; i--) { sq[ns][i] = x % nvals; x /= nvals; } sl[ns] = l; ns++; }
  }
  int no = 3 * ns;
  var* obj = calloc(no, sizeof(var));
  for (int k = 0; k < 3; k++) for (int s = 0; s < ns; s++) obj[k * ns + s] = build(k, sq[s], sl[s]);
  signed char* S = malloc((size_t)no * no);
  static const char* REL[] = { "equal", "prefix", "differ" };
  vf_watchdog(1200);
  for (int a = 0; a < no; a++) for (int b = 0; b < no; b++) {
    int ka = a / ns, sa = a % ns, kb = b / ns, sb = b % ns;
    int ref = lexcmp(sq[sa], sl[sa], sq[sb], sl[sb]);
    int common = 0; while (common < sl[sa] && common < sl[sb] && sq[sa][common] == sq[sb][common]) common++;
    int rel = ref == 0 ? 0 : (common == sl[sa] || common == sl[sb]) ? 1 : 2;
    char ca[64], cb[64]; int64_t t[8];
    for (int i = 0; i < sl[sa]; i++) t[i] = sq[sa][i]; seqstr(t, sl[sa], ca, sizeof ca);
    for (int i = 0; i < sl[sb]; i++) t[i] = sq[sb][i]; seqstr(t, sl[sb], cb, sizeof cb);
    vf_set_cur("cmp a=%s%s b=%s%s", KN[ka], ca, KN[kb], cb);
    setop("cmp");
    char lb[128];
    #define CL(sym) (snprintf(lb, sizeof lb, "cmp/%s-%s/%s/%s", KN[ka], KN[kb], REL[rel], sym), lb)
    volatile int c = 0; volatile bool p_eq = 0, p_neq = 0, p_lt = 0, p_gt = 0, p_le = 0, p_ge = 0;
    var e = VF_CATCH({ c = cmp(obj[a], obj[b]); p_eq = eq(obj[a], obj[b]); p_neq = neq(obj[a], obj[b]); p_lt = lt(obj[a], obj[b]);
                       p_gt = gt(obj[a], obj[b]); p_le = le(obj[a], obj[b]); p_ge = ge(obj[a], obj[b]); });
    vf.evaluations++; vf.executions++;
    if (common > 0 || sl[sa] != sl[sb]) vf.nontrivial++;
    if (vf_want_sample()) vf_sample("%s  => cmp %d (reference %d)", vf_cur, c, ref);
    S[(size_t)a * no + b] = (signed char)sgn(c);
    if (e) { vf_violation(CL("raises"), NULL, "cmp or a predicate raised %s", vf_exc_name(e)); continue; }
    if (sgn(c) != ref) { vf_violation(CL(ref == 0 ? "nonzero-for-equal" : sgn(c) == 0 ? "zero-for-unequal" : "wrong-sign"), NULL, "cmp=%d, the lexicographic order (shorter is smaller) gives %d", c, ref); continue; }
    if (p_eq != (c == 0) || p_neq != (c != 0) || p_lt != (c < 0) || p_gt != (c > 0) || p_le != (c <= 0) || p_ge != (c >= 0)) {
      vf_violation(CL("predicate-inconsistent"), NULL, "cmp=%d but eq=%d neq=%d lt=%d gt=%d le=%d ge=%d", c, (int)p_eq, (int)p_neq, (int)p_lt, (int)p_gt, (int)p_le, (int)p_ge); continue;
    }
  }
  /* antisymmetry, reflexivity, transitivity on the observed sign matrix */
  for (int a = 0; a < no; a++) {
    int ka = a / ns, kb, rel = 0; char lb[128];
    kb = ka;
    if (S[(size_t)a * no + a] != 0) { vf_set_cur("cmp a=b=object %d", a); vf_violation(CL("not-reflexive"), NULL, "cmp(a,a) != 0"); }
    for (int b = 0; b < no; b++) {
      kb = b / ns; rel = 2;
      vf.evaluations++;
      if (S[(size_t)a * no + b] != -S[(size_t)b * no + a]) { vf_set_cur("cmp objects %d,%d", a, b); vf_violation(CL("not-antisymmetric"), NULL, "sign(cmp(a,b)) != -sign(cmp(b,a))"); }
    }
  }
  uint64_t triples = 0;
  for (int a = 0; a < no; a++) for (int b = 0; b < no; b++) {
    int ab = S[(size_t)a * no + b];
    if (ab > 0) continue;
    for (int c = 0; c < no; c++) {
      int bc = S[(size_t)b * no + c];
      if (bc > 0) continue;
      triples++;
      int ac = S[(size_t)a * no + c];
      int want = (ab < 0 || bc < 0) ? -1 : 0;     /* a<=b<=c with a strict step => a<c; a==b==c => a==c */
      if (ac != want) {
        int ka = a / ns, kb = c / ns, rel = 2; char lb[128];
        vf_set_cur("cmp triple objects %d,%d,%d (kind*%d+sequence index)", a, b, c, ns);
        vf_violation(CL("not-transitive"), NULL, "a<=b and b<=c but cmp(a,c) has sign %d, expected %d", ac, want);
      }
    }
  }
  #undef CL
  vf.evaluations += triples;
  vf_extra("cmp_objects", "%d", no);
  vf_extra("cmp_triples_checked", "%" PRIu64, triples);
  vf_note("cmp grid: %d sequences of length <= %d over %d values x 3 kinds = %d objects, %d ordered pairs executed, %" PRIu64 " ordered triples checked on the sign matrix", ns, L_, nvals, no, no * no, triples);
  vf_watchdog(0);
}

/* ---- C05: ownership through Box ------------------------------------------------------------------
** A Box X owning a Probe, and a container C (Array or List) of Box elements each owning a Probe.
** Probes are made with new() (Box_Del releases its pointee with del()); every probe pointer is also
** kept in a stack-resident registry so that the conservative collector never reclaims one on its
** own - finalisation can then only come from the owner.
** Unspecified and accepted either way: ref()/assign() on a Box and set() on a Box element re-point the
** Box; whether the previous pointee is finalised is not promised (the pinned tree does not, the harness
** then releases it itself).  Not explored: copying a Box or a container of Box (two owners of one object).
*/

#define BXMAX 3
struct bxp { var p; uint64_t tok; int val; };
static struct bxp* BXR;          /* registry, lives in main's frame: [0] = X's pointee, [1..] = C's pointees in order */
static var* BXroots;             /* [0] = X, [1] = C */
static int bx_nC, bx_hasX, bx_maxC;
static int bx_noted;

static struct bxp bx_newprobe(int v) {
  struct bxp r; r.p = new(Probe, $I(v)); r.tok = ((struct Probe*)r.p)->token; r.val = v; return r;
}
static int bx_live(uint64_t tok) { return tok && tok < vf_led_next && vf_led[tok] == 1; }

/* after a re-pointing operation: the previous pointee is either finalised by the Box or handed back */
static void bx_reclaim(struct bxp old) {
  if (bx_live(old.tok)) {
    if (!bx_noted) { bx_noted = 1; vf_note("box: ref/assign/set on a Box re-points it without finalising the previous pointee (accepted: not promised either way); the harness releases it"); }
    del(old.p);
  }
}

static void bx_reset(void) {
  vf_led_err[0] = 0;
  BXroots[0] = NULL; bx_hasX = 0;
  BXroots[1] = kindA == K_LIST ? (var)new_raw(List, Box) : (var)new_raw(Array, Box);
  bx_nC = 0;
  memset(BXR, 0, sizeof(struct bxp) * (BXMAX + 2));
  setop("init");
}

static void bx_cleanup(void) {
  var e;
  if (BXroots[0]) { e = VF_CATCH(del(BXroots[0])); (void)e; BXroots[0] = NULL; }
  if (BXroots[1]) { e = VF_CATCH(del_raw(BXroots[1])); (void)e; BXroots[1] = NULL; }
  if (vf_led_err[0]) { vf_violation(L("ledger-at-delete"), NULL, "%s", vf_led_err); vf_led_err[0] = 0; }
  else if (vf_led_live != led_base) vf_violation(L("leak-after-delete"), NULL, "after deleting the Box and the container %" PRId64 " owned objects are still live", vf_led_live - led_base);
  led_base = vf_led_live;
  memset(BXR, 0, sizeof(struct bxp) * (BXMAX + 2));
}

static size_t bx_canon(char* buf, size_t cap) {
  size_t o = 0;
  if (bx_hasX) o += snprintf(buf + o, cap - o, "X:%d", BXR[0].val); else o += snprintf(buf + o, cap - o, "X:-");
  o += snprintf(buf + o, cap - o, " C:[");
  for (int i = 0; i < bx_nC; i++) o += snprintf(buf + o, cap - o, "%s%d", i ? "," : "", BXR[1 + i].val);
  o += snprintf(buf + o, cap - o, "]");
  return o;
}

static int bx_check(void) {
  if (vf_led_err[0]) { vf_violation(L("ledger"), NULL, "%s", vf_led_err); vf_led_err[0] = 0; return 1; }
  int64_t expect = bx_hasX + bx_nC;
  if (vf_led_live - led_base != expect) {
    vf_violation(L(vf_led_live - led_base > expect ? "ledger-live-too-many" : "ledger-live-too-few"), NULL, "%" PRId64 " owned objects are live, the Box and the container own %" PRId64, vf_led_live - led_base, expect);
    return 1;
  }
  if (bx_hasX) {
    var p = deref(BXroots[0]);
    if (p isnt BXR[0].p || !vf_probe_intact(p) || c_int(p) != BXR[0].val) { vf_violation(L("box-pointee"), NULL, "the Box does not point to its live, intact object"); return 1; }
  }
  if (len(BXroots[1]) != (size_t)bx_nC) { vf_violation(L("len"), NULL, "len(C)=%zu, reference %d", len(BXroots[1]), bx_nC); return 1; }
  for (int i = 0; i < bx_nC; i++) {
    var b = get(BXroots[1], $I(i));
    var p = deref(b);
    if (p isnt BXR[1 + i].p || !vf_probe_intact(p) || c_int(p) != BXR[1 + i].val) { vf_violation(L("element-pointee"), NULL, "Box element %d does not point to its live, intact object", i); return 1; }
  }
  vf.evaluations++;
  return 0;
}

enum { BX_NEWX, BX_DELX, BX_REFX, BX_ASSIGNX, BX_PUSH, BX_POP, BX_POPAT0, BX_SET0, BX_PUSHAT0, BX_RESIZE0, BX_RESIZE1, BX_DELC,
       /* store-back: the Box is given the very object it already owns - nothing may be finalised, the Box still owns it */
       BX_ASSIGN_SELF, BX_ASSIGN_OWN, BX_REF_OWN, BX_SET0_SELF, BX_SETLAST_SELF, BX_N };
static const char* BXN[] = { "X=new(Box,P%d)", "del(X)", "ref(X,P%d)", "assign(X,P%d)", "push(C,P%d)", "pop(C)", "pop_at(C,0)", "set(C,0,P%d)", "push_at(C,P%d,0)", "resize(C,0)", "resize(C,1)", "del(C);C=new",
  "assign(X,X)%.0d", "assign(X,deref(X))%.0d", "ref(X,deref(X))%.0d", "set(C,0,get(C,0))%.0d", "set(C,-1,get(C,-1))%.0d" };
static int bx_hasv(int t) { return t == BX_NEWX || t == BX_REFX || t == BX_ASSIGNX || t == BX_PUSH || t == BX_SET0 || t == BX_PUSHAT0; }

static void bx_opname(int op, char* buf, size_t cap) { snprintf(buf, cap, BXN[op / 2], op % 2); }

static int bx_must_be_final(struct bxp q, const char* what) {
  if (bx_live(q.tok)) { vf_violation(L("owned-object-not-finalised"), NULL, "%s: the owned object is still live", what); return VF_BAD; }
  return VF_OK;
}

static int bx_apply(int op) {
  int t = op / 2, v = op % 2;
  if (!bx_hasv(t) && v) return VF_SKIP;
  var e; struct bxp q, old;
  switch (t) {
  case BX_NEWX:
    if (bx_hasX) return VF_SKIP;
    setop("box/new");
    q = bx_newprobe(v); BXR[0] = q;
    e = VF_CATCH(BXroots[0] = new(Box, q.p));
    if (e) return raised(e, "new(Box, p)");
    bx_hasX = 1; return VF_OK;
  case BX_DELX:
    if (!bx_hasX) return VF_SKIP;
    setop("box/del");
    old = BXR[0];
    e = VF_CATCH(del(BXroots[0]));
    BXroots[0] = NULL; bx_hasX = 0; memset(&BXR[0], 0, sizeof BXR[0]);
    if (e) return raised(e, "del(box)");
    return bx_must_be_final(old, "del(box)");
  case BX_REFX: case BX_ASSIGNX:
    if (!bx_hasX) return VF_SKIP;
    setop(t == BX_REFX ? "box/ref" : "box/assign");
    old = BXR[0]; q = bx_newprobe(v);
    if (t == BX_REFX) e = VF_CATCH(ref(BXroots[0], q.p)); else e = VF_CATCH(assign(BXroots[0], q.p));
    if (e) return raised(e, lastop);
    BXR[0] = q; bx_reclaim(old);
    return VF_OK;
  case BX_PUSH: case BX_PUSHAT0:
    if (bx_nC >= bx_maxC) return VF_SKIP;
    if (t == BX_PUSHAT0 && bx_nC == 0) return VF_SKIP;
    setop(t == BX_PUSH ? "box-element/push" : "box-element/push_at");
    q = bx_newprobe(v);
    if (t == BX_PUSH) { e = VF_CATCH(push(BXroots[1], q.p)); BXR[1 + bx_nC] = q; }
    else { e = VF_CATCH(push_at(BXroots[1], q.p, $I(0))); memmove(&BXR[2], &BXR[1], sizeof(struct bxp) * bx_nC); BXR[1] = q; }
    bx_nC++;
    if (e) return raised(e, lastop);
    return VF_OK;
  case BX_POP:
    if (bx_nC == 0) return VF_SKIP;
    setop("box-element/pop");
    old = BXR[bx_nC];
    e = VF_CATCH(pop(BXroots[1]));
    memset(&BXR[bx_nC], 0, sizeof BXR[0]); bx_nC--;
    if (e) return raised(e, "pop");
    return bx_must_be_final(old, "pop of a Box element");
  case BX_POPAT0:
    if (bx_nC == 0) return VF_SKIP;
    setop("box-element/pop_at");
    old = BXR[1];
    e = VF_CATCH(pop_at(BXroots[1], $I(0)));
    memmove(&BXR[1], &BXR[2], sizeof(struct bxp) * (bx_nC - 1)); memset(&BXR[bx_nC], 0, sizeof BXR[0]); bx_nC--;
    if (e) return raised(e, "pop_at");
    return bx_must_be_final(old, "pop_at of a Box element");
  case BX_SET0:
    if (bx_nC == 0) return VF_SKIP;
    setop("box-element/set");
    old = BXR[1]; q = bx_newprobe(v);
    e = VF_CATCH(set(BXroots[1], $I(0), q.p));
    if (e) return raised(e, "set");
    BXR[1] = q; bx_reclaim(old);
    return VF_OK;
  case BX_ASSIGN_SELF: case BX_ASSIGN_OWN: case BX_REF_OWN:
    if (!bx_hasX) return VF_SKIP;
    setop(t == BX_ASSIGN_SELF ? "box/assign-itself" : t == BX_ASSIGN_OWN ? "box/assign-own-object" : "box/ref-own-object");
    if (t == BX_ASSIGN_SELF) e = VF_CATCH(assign(BXroots[0], BXroots[0]));
    else if (t == BX_ASSIGN_OWN) e = VF_CATCH(assign(BXroots[0], deref(BXroots[0])));
    else e = VF_CATCH(ref(BXroots[0], deref(BXroots[0])));
    if (e) return raised(e, lastop);
    if (!bx_live(BXR[0].tok)) { vf_violation(L("owned-object-finalised-while-owned"), NULL, "%s: the object the Box owns was finalised although the Box still owns it", lastop); return VF_BAD; }
    return VF_OK;
  case BX_SET0_SELF: case BX_SETLAST_SELF: {
    if (bx_nC == 0) return VF_SKIP;
    int idx = t == BX_SET0_SELF ? 0 : bx_nC - 1;
    setop("box-element/set-own-element");
    e = VF_CATCH(set(BXroots[1], $I(t == BX_SET0_SELF ? 0 : -1), get(BXroots[1], $I(t == BX_SET0_SELF ? 0 : -1))));
    if (e) return raised(e, "set(C,i,get(C,i))");
    if (!bx_live(BXR[1 + idx].tok)) { vf_violation(L("owned-object-finalised-while-contained"), NULL, "set(C,i,get(C,i)): the object Box element %d owns was finalised although the element still holds it", idx); return VF_BAD; }
    return VF_OK; }
  case BX_RESIZE0: case BX_RESIZE1: case BX_DELC: {
    int keep = t == BX_RESIZE1 ? 1 : 0;
    if (t == BX_RESIZE1 && bx_nC < 1) return VF_SKIP;
    setop(t == BX_DELC ? "box-element/del-container" : "box-element/resize");
    struct bxp olds[BXMAX + 1]; int no = 0;
    for (int i = keep; i < bx_nC; i++) olds[no++] = BXR[1 + i];
    if (t == BX_DELC) { e = VF_CATCH(del_raw(BXroots[1])); BXroots[1] = kindA == K_LIST ? (var)new_raw(List, Box) : (var)new_raw(Array, Box); }
    else e = VF_CATCH(resize(BXroots[1], (size_t)keep));
    for (int i = keep; i < bx_nC; i++) memset(&BXR[1 + i], 0, sizeof BXR[0]);
    bx_nC = keep;
    if (e) return raised(e, lastop);
    for (int i = 0; i < no; i++) if (bx_must_be_final(olds[i], "resize/del of a container of Box") != VF_OK) return VF_BAD;
    return VF_OK; }
  }
  return VF_SKIP;
}

static int bx_nontrivial(void) { return bx_hasX && bx_nC > 0; }

/* ---- main ---------------------------------------------------------------------------------------- */

static int kind_of(const char* s) { return strcmp(s, "list") == 0 ? K_LIST : strcmp(s, "tuple") == 0 ? K_TUPLE : K_ARRAY; }

int main(int argc, char** argv) {
  vf_init(argc, argv);
  var roots[8] = { NULL, NULL, NULL, NULL, NULL, NULL, NULL, NULL };
  R = roots;
  var grave[GRAVEMAX];
  GRAVE = grave;
  var bxroots[2] = { NULL, NULL };
  struct bxp bxreg[BXMAX + 2];
  memset(bxreg, 0, sizeof bxreg);
  BXroots = bxroots; BXR = bxreg;

  kindA = kind_of(vf_param("kind", "array"));
  kindB = kind_of(vf_param("bkind", vf_param("kind", "array")));
  const char* prop = vf_param("prop", "C04");
  propC05 = strcmp(prop, "C05") == 0;
  propC10 = strcmp(prop, "C10") == 0;
  propC12 = strcmp(prop, "C12") == 0;
  propC11 = strcmp(prop, "C11") == 0;
  light = vf_param_is("oracle", "light", "full");
  viewassign = (int)vf_param_i("viewassign", 3);
  maxlen = (int)vf_param_i("maxlen", 4); if (maxlen > MAXL) maxlen = MAXL; if (maxlen < 2) maxlen = 2;
  nvals = (int)vf_param_i("nvals", 3); if (nvals > 6) nvals = 6; if (nvals < 1) nvals = 1;
  two = (int)vf_param_i("two", 0);
  same = (int)vf_param_i("same", 0);
  picky = vf_param_is("elem", "picky", "int");
  strel = vf_param_is("elem", "str", "int");
  plain = vf_param_is("elem", "plain", "int") ? 1 : vf_param_is("elem", "plain12", "int") ? 2 : 0;
  probe = picky || vf_param_is("elem", "probe", propC05 ? "probe" : "int");
  alias = (int)vf_param_i("alias", 15);   /* all aliasing calls: the three defects they exposed are repaired in /repo (4a13eaf, 67f5339, 88e396b) */
  poisonconcat = (int)vf_param_i("poisonconcat", 0);
  const char* mode = vf_param("mode", "bfs");
  if (plain && (kindA == K_TUPLE || two)) { fprintf(stderr, "h_seq: elem=plain|plain12 is for one array or list\n"); _exit(2); }
  if (probe && (kindA == K_TUPLE || (two && kindB == K_TUPLE))) { fprintf(stderr, "h_seq: a Tuple does not own its elements; elem=probe is for array and list\n"); _exit(2); }
  if (two && (kindA == K_TUPLE) != (kindB == K_TUPLE)) { fprintf(stderr, "h_seq: two=1 pairs array/list with array/list, or tuple with tuple (a Tuple assigned from an Array references the Array's storage)\n"); _exit(2); }
  if (same && kindA != K_TUPLE) same = 0;
  vf_led_reset();
  ET = picky ? Picky : probe ? Probe : strel ? String : plain == 1 ? PlainP : plain == 2 ? PlainP12 : Int;
  poisonobj = new_raw(Int, $I(PICKY_POISON));
  valobj_int0 = new_raw(Int, $I(0));

  for (int v = 0; v <= nvals; v++) {
    char d[4]; snprintf(d, sizeof d, "%d", v);
    if (plain == 1) { struct PlainP* p = alloc_raw(PlainP); p->val = v; p->pad = PLAIN_PAD; valobj[v] = p; }
    else if (plain == 2) { struct PlainP12* p = alloc_raw(PlainP12); p->val = v; p->a = PLAIN_PAD; p->b = -v; valobj[v] = p; }
    else valobj[v] = strel ? (var)new_raw(String, $S(d)) : (var)new_raw(ET, $I(v));
  }
  if (plain) {
    foreigntype[FT_Q] = PlainQ; foreigntype[FT_Q12] = PlainQ12; foreigntype[FT_R24] = PlainR24; foreigntype[FT_OTHERP] = plain == 1 ? PlainP12 : PlainP; foreigntype[FT_INT] = Int;
    for (int k = 0; k < 2; k++) {
      struct PlainQ* q = alloc_raw(PlainQ); q->lo = 0.5 + k; q->hi = 1.5; foreignobj[FT_Q][k] = q;
      struct PlainQ12* q2 = alloc_raw(PlainQ12); q2->x = 1.0f + k; q2->y = 2.0f; q2->z = 3.0f; foreignobj[FT_Q12][k] = q2;
      struct PlainR24* r = alloc_raw(PlainR24); r->a = k; r->b = 1; r->c = 2; foreignobj[FT_R24][k] = r;
      if (plain == 1) { struct PlainP12* p = alloc_raw(PlainP12); p->val = k; p->a = PLAIN_PAD; p->b = 0; foreignobj[FT_OTHERP][k] = p; }
      else { struct PlainP* p = alloc_raw(PlainP); p->val = k; p->pad = PLAIN_PAD; foreignobj[FT_OTHERP][k] = p; }
      foreignobj[FT_INT][k] = new_raw(Int, $I(k));
    }
  }
  if (probe && kindA == K_TUPLE) for (int v = 0; v <= nvals; v++) valobj[v] = new_raw(Int, $I(v));
  wrongobj = new_raw(String, $S("zz"));
  for (int v = 0; v < 3; v++) { ot_int[v] = new_raw(Int, $I(v)); ot_probe[v] = new_raw(Probe, $I(v)); }
  make_sources();
  /* warm up the per-thread exception object (its message buffer is allocated on first use) */
  { var e = VF_CATCH(throw(ValueError, "warm-up %s %s %s", $S("................................"), $S("................................"), $S("................................"))); (void)e; }
  led_base = vf_led_live;

  static char dname[96];
  if (strcmp(mode, "ladder") == 0) { ladder(); vf_finish(); }
  if (strcmp(mode, "sortladder") == 0) { sortladder(); vf_finish(); }
  if (strcmp(mode, "cmpgrid") == 0) { cmpgrid(); vf_finish(); }
  if (strcmp(mode, "box") == 0) {
    bx_maxC = (int)vf_param_i("maxlen", 2); if (bx_maxC > BXMAX) bx_maxC = BXMAX;
    probe = 1;
    snprintf(dname, sizeof dname, "box[%s-of-Box,len<=%d]", KN[kindA], bx_maxC);
    struct vf_domain d = { dname, BX_N * 2, bx_reset, bx_cleanup, bx_apply, bx_check, bx_canon, bx_opname, bx_nontrivial,
                           (size_t)vf_param_i("depth", 0), (size_t)vf_param_i("max_states", 0) };
    if (vf.replay) vf_bfs_replay_case(&d, vf.replay); else vf_bfs_run(&d);
    vf_finish();
  }

  make_alphabet();
  snprintf(dname, sizeof dname, "seq[%s%s,%s,len<=%d,%dvals%s%s%s,%s]", KN[kindA], WB ? "" : "(black-box)", picky ? "picky" : probe ? "probe" : strel ? "str" : plain == 2 ? "plain12" : plain ? "plain" : "int", maxlen, nvals,
           two ? ",B=" : "", two ? KN[kindB] : "", same ? ",same-object" : light ? ",light-oracle" : "", prop);
  struct vf_domain d = { dname, nops, reset, cleanup, apply, check, canon, opname, nontrivial,
                         (size_t)vf_param_i("depth", 0), (size_t)vf_param_i("max_states", 0) };
  if (vf.replay) vf_bfs_replay_case(&d, vf.replay);
  else vf_bfs_run(&d);
  vf_extra("alphabet_size", "%d", nops);
  vf_extra("whitebox", "%s", WB ? "true" : "false");
  vf_finish();
  return 0;
}
