#include "Cello.h"
#include <stdio.h>
/* garbage: Box b -> Int x (owned), and a Logger whose destructor allocates a ROOT Int and keeps it.
** If x is finalised before the Logger and b after it, the kept root may land on x's address and be deleted by Box_Del. */
static var kept[100000]; static int nkept = 0;
struct Logger { int id; };
static void Logger_Del(var self) { if (nkept < 100000) kept[nkept++] = new_root(Int, $I(4242)); }
static var Logger;
static void __attribute__((noinline)) garbage(int n) {
  for (int i = 0; i < n; i++) { var b = new(Box, new(Int, $I(i))); var l = new(Logger); (void)b; (void)l; }
}
static void __attribute__((noinline)) wipe(void) { volatile char pad[8192]; for (size_t i = 0; i < sizeof pad; i++) pad[i] = 0; }
int main(int argc, char** argv) {
  static struct New inst_mem; struct New* ni = alloc_raw(New); ni->construct_with = NULL; ni->destruct = Logger_Del; Logger = new_root(Type, $S("Logger"), $I(sizeof(struct Logger)), ni);
  int bad = 0;
  for (int round = 0; round < 200; round++) {
    garbage(20); wipe();
    for (int i = 0; i < 50; i++) { var g = new(Int, $I(i)); (void)g; }
    for (int k = 0; k < nkept; k++) {
      try { if (type_of(kept[k]) isnt Int or c_int(kept[k]) != 4242) { bad++; } }
      catch (e) { bad++; }
    }
    if (bad) { printf("round %d: %d kept roots damaged of %d\n", round, bad, nkept); return 1; }
  }
  printf("ok, %d roots kept\n", nkept);
  return 0;
}
