/*
** vf_sched.h - preemption-bounded exhaustive scheduler for real pthreads (stateless model
** checking of the implementation, CHESS style).
**
** One execution = one forked child process running the scenario with real threads that are
** serialised by a token: exactly one thread runs between two scheduling points.  Scheduling
** points: the wrapped pthread operations (create, join, mutex lock / trylock / unlock; link
** with -Wl,--wrap=...), thread start and exit, the library's CELLO_VERIF_POINT sites whose tag
** the scenario enabled, and explicit sch_point() calls in scenario code.  At a point the
** enabled threads are listed in canonical order (the running thread first if still enabled,
** then ascending ids); threads blocked on a held mutex or an unfinished join are disabled;
** "no enabled thread" while some thread is unfinished is a deadlock.
**
** The explorer (parent process) enumerates choice sequences depth-first: an execution replays
** a prefix of choices and then takes choice 0 (keep running) at every later point; for every
** later point and every alternative it recurses if the number of preemptions (switching away
** from a still-enabled thread) stays within the bound.  A divergence while replaying a prefix
** (a choice out of range) is a hard error.  Every failing schedule is re-run twice and must
** reproduce the same observation before it is reported.
**
** Memory model: sequential consistency only.  Unsynchronised accesses are made visible by a
** separate free-running ThreadSanitizer pass of the same bodies (the cooperative hand-offs
** would blind a detector inside this scheduler).
*/

#ifndef VF_SCHED_H
#define VF_SCHED_H

#include "vf.h"
#include <pthread.h>
#include <semaphore.h>

#define SCH_MAXT 8
#define SCH_MAXM 16
#define SCH_MAXP 4096

enum { SCH_RUNNABLE = 1, SCH_BLOCKED_MUTEX, SCH_BLOCKED_JOIN, SCH_FINISHED };
enum { SCH_SITE_CREATE = 100, SCH_SITE_JOIN, SCH_SITE_LOCK, SCH_SITE_TRYLOCK, SCH_SITE_UNLOCK, SCH_SITE_START, SCH_SITE_EXIT, SCH_SITE_USER };

struct sch_point_rec { uint8_t n; uint8_t me_enabled; uint8_t choice; uint8_t tid; uint8_t site; uint8_t next; };

/* shared between explorer and child (MAP_SHARED) */
struct sch_shared {
  /* in */
  int prefix_len; uint8_t prefix[SCH_MAXP];
  uint64_t site_mask;              /* bit s set = CELLO_VERIF site s is a scheduling point */
  /* out */
  int npoints; struct sch_point_rec points[SCH_MAXP];
  int overflow;                    /* more than SCH_MAXP points */
  int diverged;                    /* prefix choice out of range */
  int deadlock;
  int completed;                   /* scenario ran to its end */
  int failed; char label[160]; char detail[512];
  uint64_t digest;                 /* scenario-defined observation */
  char obs[256];                   /* scenario-defined observation text */
};

static struct sch_shared* sch;

struct sch_thread {
  int used, state; pthread_t pt; sem_t sem;
  void* (*fn)(void*); void* arg; void* ret;
  void* wait_mutex; int wait_join;
};
static struct sch_thread sch_t[SCH_MAXT];
static int sch_nt;
static __thread int sch_me = -1;
static int sch_active;            /* scheduler is controlling this process */
static void* sch_mutex[SCH_MAXM]; static int sch_owner[SCH_MAXM]; static int sch_nm;

int __real_pthread_create(pthread_t*, const pthread_attr_t*, void* (*)(void*), void*);
int __real_pthread_join(pthread_t, void**);
int __real_pthread_mutex_lock(pthread_mutex_t*);
int __real_pthread_mutex_trylock(pthread_mutex_t*);
int __real_pthread_mutex_unlock(pthread_mutex_t*);

static void sch_fail(const char* label, const char* fmt, ...) {
  if (sch->failed) return;
  sch->failed = 1;
  snprintf(sch->label, sizeof sch->label, "%s", label);
  va_list ap; va_start(ap, fmt); vsnprintf(sch->detail, sizeof sch->detail, fmt, ap); va_end(ap);
}

static int sch_mutex_index(void* m) {
  for (int i = 0; i < sch_nm; i++) if (sch_mutex[i] == m) return i;
  if (sch_nm == SCH_MAXM) { fprintf(stderr, "vf_sched: too many mutexes\n"); _exit(2); }
  sch_mutex[sch_nm] = m; sch_owner[sch_nm] = -1;
  return sch_nm++;
}

static int sch_enabled(int t) {
  if (!sch_t[t].used) return 0;
  switch (sch_t[t].state) {
  case SCH_RUNNABLE: return 1;
  case SCH_BLOCKED_MUTEX: return sch_owner[sch_mutex_index(sch_t[t].wait_mutex)] == -1;
  case SCH_BLOCKED_JOIN: return sch_t[sch_t[t].wait_join].state == SCH_FINISHED;
  default: return 0;
  }
}

static void sch_end_child(void) {
  fflush(NULL);
  _exit(0);
}

/* the heart: pick who runs next at a scheduling point reached by thread `me` */
static int sch_yielding;          /* the running thread is in a wait loop: it goes last, and leaving it is no preemption */
static void sch_switch(int site) {
  int me = sch_me;
  int list[SCH_MAXT], n = 0;
  int me_en = sch_enabled(me);
  int yielding = sch_yielding; sch_yielding = 0;
  if (me_en && !yielding) list[n++] = me;
  for (int t = 0; t < sch_nt; t++) if (t != me && sch_enabled(t)) list[n++] = t;
  /* fairness: a thread that yields inside a wait loop is not scheduled again while another thread can run
  ** (otherwise "the spinner keeps spinning" would be an execution, and it costs no preemption) */
  if (me_en && yielding) { if (n == 0) list[n++] = me; me_en = 0; }
  if (n == 0) {
    int unfinished = 0;
    for (int t = 0; t < sch_nt; t++) if (sch_t[t].used && sch_t[t].state != SCH_FINISHED) unfinished++;
    if (unfinished) { sch->deadlock = 1; sch_fail("deadlock", "no enabled thread while %d threads are unfinished (thread %d at site %d)", unfinished, me, site); sch_end_child(); }
    return;   /* everything finished (only the exiting last thread gets here) */
  }
  int choice = 0;
  if (n > 1) {
    int k = sch->npoints;
    if (k >= SCH_MAXP) { sch->overflow = 1; }
    else {
      if (k < sch->prefix_len) {
        choice = sch->prefix[k];
        if (choice >= n) { sch->diverged = 1; sch_end_child(); }
      }
      struct sch_point_rec* p = &sch->points[k];
      p->n = (uint8_t)n; p->me_enabled = (uint8_t)me_en; p->choice = (uint8_t)choice; p->tid = (uint8_t)me; p->site = (uint8_t)site; p->next = (uint8_t)list[choice];
      sch->npoints = k + 1;
    }
  }
  int next = list[choice];
  if (next == me) return;
  sem_post(&sch_t[next].sem);
  if (sch_t[me].state == SCH_FINISHED) return;   /* the exiting thread does not wait */
  sem_wait(&sch_t[me].sem);
}

/* explicit scheduling point (scenario code, and enabled CELLO_VERIF sites) */
static void sch_point(int site) {
  if (!sch_active || sch_me < 0) return;
  sch_switch(site);
}

/* scheduling point inside a retry / polling loop: other enabled threads go first */
static void sch_yield(void) {
  if (!sch_active || sch_me < 0) return;
  sch_yielding = 1;
  sch_switch(SCH_SITE_USER);
}

/* optional address filter for hook sites: only accesses to these objects are scheduling points */
static const char* sch_addr_lo[2]; static const char* sch_addr_hi[2];
static void sch_hook(int site, const void* addr) {
  if (!sch_active || sch_me < 0) return;
  if (!(site < 64 && (sch->site_mask >> site & 1))) return;
  if (sch_addr_hi[0]) {
    const char* a = addr;
    if (!((a >= sch_addr_lo[0] && a < sch_addr_hi[0]) || (sch_addr_hi[1] && a >= sch_addr_lo[1] && a < sch_addr_hi[1]))) return;
  }
  sch_switch(site);
}

static void* sch_trampoline(void* a) {
  int t = (int)(intptr_t)a;
  sch_me = t;
  sem_wait(&sch_t[t].sem);        /* do not run before being scheduled */
  sch_t[t].ret = sch_t[t].fn(sch_t[t].arg);
  sch_t[t].state = SCH_FINISHED;
  sch_switch(SCH_SITE_EXIT);
  return sch_t[t].ret;
}

int __wrap_pthread_create(pthread_t* pt, const pthread_attr_t* attr, void* (*fn)(void*), void* arg) {
  if (!sch_active) return __real_pthread_create(pt, attr, fn, arg);
  if (sch_nt == SCH_MAXT) { fprintf(stderr, "vf_sched: too many threads\n"); _exit(2); }
  int t = sch_nt++;
  sch_t[t].used = 1; sch_t[t].state = SCH_RUNNABLE; sch_t[t].fn = fn; sch_t[t].arg = arg;
  sem_init(&sch_t[t].sem, 0, 0);
  int r = __real_pthread_create(&sch_t[t].pt, attr, sch_trampoline, (void*)(intptr_t)t);
  if (r != 0) { sch_t[t].used = 0; sch_nt--; return r; }
  *pt = sch_t[t].pt;
  sch_switch(SCH_SITE_CREATE);
  return 0;
}

int __wrap_pthread_join(pthread_t pt, void** ret) {
  if (!sch_active) return __real_pthread_join(pt, ret);
  int t = -1;
  for (int i = 0; i < sch_nt; i++) if (sch_t[i].used && pthread_equal(sch_t[i].pt, pt)) t = i;
  if (t < 0) return __real_pthread_join(pt, ret);
  sch_switch(SCH_SITE_JOIN);
  while (sch_t[t].state != SCH_FINISHED) {
    sch_t[sch_me].state = SCH_BLOCKED_JOIN; sch_t[sch_me].wait_join = t;
    sch_switch(SCH_SITE_JOIN);
    sch_t[sch_me].state = SCH_RUNNABLE;
  }
  return __real_pthread_join(pt, ret);
}

int __wrap_pthread_mutex_lock(pthread_mutex_t* m) {
  if (!sch_active || sch_me < 0) return __real_pthread_mutex_lock(m);
  int i = sch_mutex_index(m);
  sch_switch(SCH_SITE_LOCK);
  while (sch_owner[i] != -1) {
    if (sch_owner[i] == sch_me) return __real_pthread_mutex_lock(m);   /* relock by owner: let libc answer (deadlock/EDEADLK) */
    sch_t[sch_me].state = SCH_BLOCKED_MUTEX; sch_t[sch_me].wait_mutex = m;
    sch_switch(SCH_SITE_LOCK);
    sch_t[sch_me].state = SCH_RUNNABLE;
  }
  sch_owner[i] = sch_me;
  return __real_pthread_mutex_lock(m);
}

int __wrap_pthread_mutex_trylock(pthread_mutex_t* m) {
  if (!sch_active || sch_me < 0) return __real_pthread_mutex_trylock(m);
  int i = sch_mutex_index(m);
  sch_switch(SCH_SITE_TRYLOCK);
  int r = __real_pthread_mutex_trylock(m);
  if (r == 0) sch_owner[i] = sch_me;
  return r;
}

int __wrap_pthread_mutex_unlock(pthread_mutex_t* m) {
  if (!sch_active || sch_me < 0) return __real_pthread_mutex_unlock(m);
  int i = sch_mutex_index(m);
  int r = __real_pthread_mutex_unlock(m);
  if (r == 0 && sch_owner[i] == sch_me) sch_owner[i] = -1;
  sch_switch(SCH_SITE_UNLOCK);
  return r;
}

#ifdef CELLO_VERIF
/* declared in Cello.h under CELLO_VERIF */
#endif

/* run one schedule in a child; fills *sch */
static struct vf_child sch_run_one(void (*scenario)(void), const uint8_t* prefix, int prefix_len, uint64_t site_mask, int timeout_s) {
  memset(sch, 0, sizeof *sch);
  sch->prefix_len = prefix_len;
  if (prefix_len) memcpy(sch->prefix, prefix, (size_t)prefix_len);
  sch->site_mask = site_mask;
  struct vf_child r; memset(&r, 0, sizeof r);
  fflush(NULL);
  pid_t pid = fork();
  if (pid == 0) {
    signal(SIGSEGV, SIG_DFL); signal(SIGFPE, SIG_DFL); signal(SIGBUS, SIG_DFL);
    signal(SIGABRT, SIG_DFL); signal(SIGILL, SIG_DFL); signal(SIGALRM, SIG_DFL);
    alarm(timeout_s);
    memset(sch_t, 0, sizeof sch_t); sch_nt = 1; sch_nm = 0;
    sch_t[0].used = 1; sch_t[0].state = SCH_RUNNABLE; sem_init(&sch_t[0].sem, 0, 0); sch_t[0].pt = pthread_self();
    sch_me = 0; sch_active = 1;
#ifdef CELLO_VERIF
    cello_verif_point = sch_hook;
#endif
    scenario();
    sch_active = 0;
    sch->completed = 1;
    sch_end_child();
  }
  int st = 0;
  waitpid(pid, &st, 0);
  if (WIFEXITED(st)) { r.exited = 1; r.status = WEXITSTATUS(st); }
  if (WIFSIGNALED(st)) { r.signaled = 1; r.sig = WTERMSIG(st); if (r.sig == SIGALRM) r.timed_out = 1; }
  return r;
}

/* ---- explorer ------------------------------------------------------------------------- */

struct sch_explorer {
  const char* name;
  void (*scenario)(void);
  uint64_t site_mask;
  int bound;                       /* preemption bound */
  uint64_t max_schedules;          /* 0 = unlimited */
  /* results */
  uint64_t schedules, points_total, by_preempt[8];
  int max_points;
  struct vf_set outcomes; uint64_t noutcomes;
  struct vf_set traces; uint64_t ntraces;   /* distinct interleavings: sequences of (thread, site, next thread) at the choice points */
  int capped;
};

static void sch_sched_string(const struct sch_shared* s, char* buf, size_t cap) {
  size_t o = 0; buf[0] = 0;
  for (int i = 0; i < s->npoints && o + 8 < cap; i++) o += snprintf(buf + o, cap - o, "%s%d", i ? "," : "", s->points[i].choice);
}

static void sch_trace_string(const struct sch_shared* s, char* buf, size_t cap) {
  size_t o = 0; buf[0] = 0;
  for (int i = 0; i < s->npoints && o + 24 < cap; i++)
    o += snprintf(buf + o, cap - o, "%sT%d@%d->T%d", i ? " " : "", s->points[i].tid, s->points[i].site, s->points[i].next);
}

/* evaluate one finished execution; returns 1 if a violation was recorded */
static int sch_judge(struct sch_explorer* ex, struct vf_child r, const uint8_t* prefix, int prefix_len) {
  char ss[2048], label[200], tr[3000];
  sch_sched_string(sch, ss, sizeof ss);
  const char* sym = NULL;
  if (sch->diverged) { fprintf(stderr, "vf_sched[%s]: divergence while replaying prefix (nondeterminism)\n", ex->name); _exit(2); }
  if (sch->failed) sym = sch->label;
  else if (r.timed_out) sym = "hang";
  else if (r.signaled) sym = r.sig == SIGSEGV ? "crash-SIGSEGV" : r.sig == SIGABRT ? "crash-SIGABRT" : "crash-signal";
  else if (!sch->completed) sym = "scenario-did-not-complete";
  if (!sym) return 0;
  /* replay twice: the same schedule must fail the same way every time */
  struct sch_shared first = *sch;
  uint8_t full[SCH_MAXP]; int fl = first.npoints;
  for (int i = 0; i < fl; i++) full[i] = first.points[i].choice;
  for (int k = 0; k < 2; k++) {
    struct vf_child r2 = sch_run_one(ex->scenario, full, fl, ex->site_mask, 20);
    int same = (sch->failed == first.failed) && (!first.failed || strcmp(sch->label, first.label) == 0)
            && (r2.signaled == r.signaled) && (r2.timed_out == r.timed_out) && sch->npoints == first.npoints;
    if (!same) {
      fprintf(stderr, "vf_sched[%s]: schedule %s does not reproduce identically (nondeterminism outside the scheduler): first '%s', replay '%s'\n",
        ex->name, ss, first.failed ? first.label : "crash/hang", sch->failed ? sch->label : "none");
      _exit(2);
    }
  }
  *sch = first;
  sch_trace_string(sch, tr, sizeof tr);
  snprintf(label, sizeof label, "%s/%s", ex->name, sym);
  char kase[2300]; snprintf(kase, sizeof kase, "%s:%s | %s", ex->name, ss, tr);
  vf_violation(label, kase, "%s%s%s (schedule of %d choice points, replayed twice identically)", sym, sch->failed ? ": " : "", sch->failed ? sch->detail : "", sch->npoints);
  return 1;
}

static void sch_explore_rec(struct sch_explorer* ex, const uint8_t* prefix, int prefix_len, int preempt_before) {
  if (ex->max_schedules && ex->schedules >= ex->max_schedules) { ex->capped = 1; return; }
  if (vf_deadline_hit()) { ex->capped = 1; return; }
  struct vf_child r = sch_run_one(ex->scenario, prefix, prefix_len, ex->site_mask, 20);
  ex->schedules++; vf.executions++; vf.transitions += (uint64_t)sch->npoints + 1;
  ex->points_total += (uint64_t)sch->npoints;
  if (sch->npoints > ex->max_points) ex->max_points = sch->npoints;
  if (sch->overflow) { vf.exhaustive = 0; vf_note("%s: a schedule had more than %d choice points; the tail was run with default choices", ex->name, SCH_MAXP); }
  /* preemptions in this execution */
  int pre = 0;
  for (int i = 0; i < sch->npoints; i++) if (sch->points[i].me_enabled && sch->points[i].choice > 0) pre++;
  if (pre < 8) ex->by_preempt[pre]++;
  if (pre > 0) vf.nontrivial++;
  /* outcome */
  char ob[300]; snprintf(ob, sizeof ob, "%d|%d|%" PRIx64 "|%s", sch->completed, sch->failed, sch->digest, sch->obs);
  if (vf_set_put(&ex->outcomes, ob, 0) < 0) ex->noutcomes++;
  { char trk[3000]; sch_trace_string(sch, trk, sizeof trk); if (vf_set_put(&ex->traces, trk, 0) < 0) ex->ntraces++; }
  int bad = sch_judge(ex, r, prefix, prefix_len);
  if (vf_want_sample()) { char ss[1024], tr[1500]; sch_sched_string(sch, ss, sizeof ss); sch_trace_string(sch, tr, sizeof tr); vf_sample("%s: schedule [%s] %s => %s", ex->name, ss, tr, bad ? "VIOLATION" : (sch->obs[0] ? sch->obs : "ok")); }
  if (bad) return;   /* a failing execution is not extended */
  /* branch */
  int np = sch->npoints;
  if (np > SCH_MAXP) np = SCH_MAXP;
  struct sch_point_rec* pts = malloc(sizeof(struct sch_point_rec) * (size_t)(np ? np : 1));
  memcpy(pts, sch->points, sizeof(struct sch_point_rec) * (size_t)np);
  uint8_t* choices = malloc((size_t)np + 1);
  for (int i = 0; i < np; i++) choices[i] = pts[i].choice;
  int cost = preempt_before;
  for (int i = 0; i < prefix_len && i < np; i++) { /* cost of the prefix already counted by the caller */ }
  cost = 0;
  for (int i = 0; i < np; i++) {
    if (i >= prefix_len) {
      for (int alt = 1; alt < pts[i].n; alt++) {
        int c = cost + (pts[i].me_enabled ? 1 : 0);
        if (c > ex->bound) continue;
        uint8_t save = choices[i];
        choices[i] = (uint8_t)alt;
        sch_explore_rec(ex, choices, i + 1, c);
        choices[i] = save;
      }
    }
    if (pts[i].me_enabled && pts[i].choice > 0) cost++;
  }
  free(pts); free(choices);
}

static void sch_explore(struct sch_explorer* ex) {
  if (!sch) {
    sch = mmap(NULL, sizeof *sch, PROT_READ | PROT_WRITE, MAP_SHARED | MAP_ANONYMOUS, -1, 0);
    if (sch == MAP_FAILED) { perror("mmap"); _exit(2); }
  }
  vf.phase = ex->name;
  vf_set_init(&ex->outcomes, 256);
  vf_set_init(&ex->traces, 4096);
  vf_set_cur("%s: exploring", ex->name);
  sch_explore_rec(ex, NULL, 0, 0);
  vf.states += ex->ntraces;
  for (size_t i = 0; i < ex->traces.cap; i++) free(ex->traces.keys[i]);
  free(ex->traces.keys); free(ex->traces.vals);
  for (size_t i = 0; i < ex->outcomes.cap; i++) free(ex->outcomes.keys[i]);
  free(ex->outcomes.keys); free(ex->outcomes.vals);
  if (ex->capped) { vf.exhaustive = 0; vf_note("%s: schedule cap/deadline hit after %" PRIu64 " schedules (preemption bound %d not completed)", ex->name, ex->schedules, ex->bound); }
  else vf_note("%s: all schedules with at most %d preemptions explored: %" PRIu64 " schedules (by preemptions: %" PRIu64 "/%" PRIu64 "/%" PRIu64 "/%" PRIu64 "), up to %d choice points each, %" PRIu64 " distinct interleavings, %" PRIu64 " distinct outcomes",
    ex->name, ex->bound, ex->schedules, ex->by_preempt[0], ex->by_preempt[1], ex->by_preempt[2], ex->by_preempt[3], ex->max_points, ex->ntraces, ex->noutcomes);
}

/* replay "name:0,1,0,2" */
static void sch_replay(struct sch_explorer* ex, const char* kase) {
  if (!sch) sch = mmap(NULL, sizeof *sch, PROT_READ | PROT_WRITE, MAP_SHARED | MAP_ANONYMOUS, -1, 0);
  const char* p = strchr(kase, ':'); p = p ? p + 1 : kase;
  uint8_t pre[SCH_MAXP]; int n = 0;
  while (*p && *p != ' ' && *p != '|' && n < SCH_MAXP) { if (*p == ',') { p++; continue; } if (!isdigit((unsigned char)*p)) break; pre[n++] = (uint8_t)strtol(p, (char**)&p, 10); }
  vf.phase = ex->name;
  struct vf_child r = sch_run_one(ex->scenario, pre, n, ex->site_mask, 20);
  char tr[3000]; sch_trace_string(sch, tr, sizeof tr);
  printf("replayed %s with %d choices: completed=%d failed=%d %s %s\n  trace: %s\n", ex->name, n, sch->completed, sch->failed, sch->label, sch->detail, tr);
  vf.executions++;
  sch_judge(ex, r, pre, n);
}

#endif
