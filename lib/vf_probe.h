/*
** vf_probe.h - `Probe`: an element type with its own constructor, assignment and
** destructor that owns a heap block, plus the constructor/destructor ledger.
**
** Token convention (the same one String relies on): containers hand `assign` a
** zero-filled slot, so a Probe whose token is 0 has never been constructed; the first
** assign/construct issues a fresh token and a malloc block.  The destructor retires
** the token and frees the block.  Violations the ledger detects:
**   - destructor on a retired token            (finalised twice)
**   - destructor on an unknown / zero token    (finalising something never built)
**   - assign into a slot carrying a retired token (slot reused without clearing)
**   - live count != what the reference model says is contained
**
** A stack Probe made with VF_P(v) has token 0 and owns nothing; it is only a value
** carrier for arguments (set/push/mem ...).
*/

#ifndef VF_PROBE_H
#define VF_PROBE_H

#include "vf.h"

struct Probe {
  int64_t val;
  uint64_t token;
  char* block;
};

static uint64_t vf_led_cap = (1u << 22);    /* grows on demand */
#define VF_LED_MAX vf_led_cap
#define VF_PROBE_POISON 0xDEAD000000000000ULL

static uint8_t* vf_led;          /* 0 unused, 1 live, 2 retired */
static uint64_t vf_led_next = 1;
static int64_t  vf_led_live = 0;
static uint64_t vf_led_issued = 0, vf_led_retired = 0;
static char vf_led_err[256];     /* first ledger error since last clear */
static int vf_led_owner_tag = 0; /* optional: tag recorded per token (e.g. thread id) */
static uint8_t* vf_led_tag;

static void vf_led_fail(const char* fmt, ...) {
  if (vf_led_err[0]) return;
  va_list ap; va_start(ap, fmt);
  vsnprintf(vf_led_err, sizeof vf_led_err, fmt, ap);
  va_end(ap);
}

static void vf_led_reset(void) {
  if (!vf_led) { vf_led = calloc(VF_LED_MAX, 1); vf_led_tag = calloc(VF_LED_MAX, 1); }
  else { size_t n = vf_led_next < VF_LED_MAX ? vf_led_next : VF_LED_MAX; memset(vf_led, 0, n); memset(vf_led_tag, 0, n); }
  vf_led_next = 1; vf_led_live = 0; vf_led_err[0] = 0;
}

static uint64_t vf_led_issue(void) {
  if (!vf_led) vf_led_reset();
  if (vf_led_next >= vf_led_cap) {
    uint64_t ncap = vf_led_cap * 2;
    vf_led = realloc(vf_led, ncap); vf_led_tag = realloc(vf_led_tag, ncap);
    if (!vf_led || !vf_led_tag) { fprintf(stderr, "vf_probe: ledger out of memory\n"); _exit(2); }
    memset(vf_led + vf_led_cap, 0, ncap - vf_led_cap); memset(vf_led_tag + vf_led_cap, 0, ncap - vf_led_cap);
    vf_led_cap = ncap;
  }
  uint64_t t = vf_led_next++;
  vf_led[t] = 1; vf_led_tag[t] = (uint8_t)vf_led_owner_tag;
  vf_led_live++; vf_led_issued++;
  return t;
}

static void vf_led_retire(uint64_t t, const char* who) {
  if ((t & VF_PROBE_POISON) == VF_PROBE_POISON) {
    vf_led_fail("%s: object finalised twice (token %" PRIu64 ")", who, t & ~VF_PROBE_POISON); return;
  }
  if (t == 0) return;  /* never constructed: nothing to finalise */
  if (t >= vf_led_next || vf_led[t] == 0) { vf_led_fail("%s: finalising an object that was never constructed (token %" PRIu64 ")", who, t); return; }
  if (vf_led[t] == 2) { vf_led_fail("%s: object finalised twice (token %" PRIu64 ")", who, t); return; }
  vf_led[t] = 2; vf_led_live--; vf_led_retired++;
}

extern var Probe;

#define VF_P(v) $(Probe, (v), 0, NULL)

static void Probe_Take(struct Probe* p, var obj) {
  if (obj == NULL) { p->val = 0; return; }
  if (type_of(obj) is Probe) p->val = ((struct Probe*)obj)->val;
  else p->val = c_int(obj);
}

static void Probe_Ensure(struct Probe* p, const char* who) {
  if ((p->token & VF_PROBE_POISON) == VF_PROBE_POISON) {
    vf_led_fail("%s: writing into a finalised element that was not cleared (token %" PRIu64 ")", who, p->token & ~VF_PROBE_POISON);
    p->token = 0;
  }
  if (p->token == 0) {
    p->token = vf_led_issue();
    p->block = malloc(24);
    memset(p->block, 0x5a, 24);
  } else if (p->token >= vf_led_next || vf_led[p->token] != 1) {
    vf_led_fail("%s: writing into an element whose token %" PRIu64 " is not live", who, p->token);
  }
}

static void Probe_New(var self, var args) {
  struct Probe* p = self;
  Probe_Ensure(p, "construct");
  if (len(args) >= 1) Probe_Take(p, get(args, $I(0)));
}

static void Probe_Del(var self) {
  struct Probe* p = self;
  uint64_t t = p->token;
  vf_led_retire(t, "destruct");
  if (t != 0 && (t & VF_PROBE_POISON) != VF_PROBE_POISON && t < vf_led_next) {
    if (p->block) { if (p->block[0] != 0x5a) vf_led_fail("destruct: owned block corrupted"); free(p->block); }
    p->block = NULL;
    p->token = VF_PROBE_POISON | t;
  }
}

static void Probe_Assign(var self, var obj) {
  struct Probe* p = self;
  Probe_Ensure(p, "assign");
  Probe_Take(p, obj);
}

static int Probe_Cmp(var self, var obj) {
  int64_t a = ((struct Probe*)self)->val;
  int64_t b = type_of(obj) is Probe ? ((struct Probe*)obj)->val : c_int(obj);
  return a < b ? -1 : a > b ? 1 : 0;
}

static uint64_t Probe_Hash(var self) {
  return (uint64_t)((struct Probe*)self)->val;
}

static int64_t Probe_C_Int(var self) {
  return ((struct Probe*)self)->val;
}

static int Probe_Show(var self, var out, int pos) {
  return print_to(out, pos, "P%li", $I(((struct Probe*)self)->val));
}

var Probe = Cello(Probe,
  Instance(New,    Probe_New, Probe_Del),
  Instance(Assign, Probe_Assign),
  Instance(Cmp,    Probe_Cmp),
  Instance(Hash,   Probe_Hash),
  Instance(C_Int,  Probe_C_Int),
  Instance(Show,   Probe_Show, NULL));

/* is the memory at p a live, intact Probe? */
static int vf_probe_intact(var p_) {
  struct Probe* p = p_;
  uint64_t t = p->token;
  if (t == 0 || t >= vf_led_next) return 0;
  if (vf_led[t] != 1) return 0;
  if (!p->block || p->block[0] != 0x5a) return 0;
  return 1;
}

#endif
