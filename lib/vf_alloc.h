/*
** vf_alloc.h - allocator ledger for h_alloc.c (C19).
**
** The harness is linked with -Wl,--wrap=free -Wl,--wrap=realloc -Wl,--wrap=malloc
** -Wl,--wrap=calloc, so every call of free()/realloc() made by the library (and by the
** harness) arrives here first; malloc/calloc are wrapped only to tell temporaries that an
** operation allocates and frees itself from blocks that existed before it.
** While a *window* is open every pointer handed to free/realloc is recorded.  A
** window is opened around exactly one operation under test; afterwards the oracle
** asks:
**   - was a pointer inside a forbidden range (a stack / static / container-embedded
**     object, a string literal, a stack item array) given to free or realloc?
**   - how often was a tracked pointer (the header block of a heap object, the
**     buffer owned by a String / Tuple) given to free / realloc?
**
** In the gcc build a tracked pointer that is freed is *quarantined* (recorded, really
** freed only when the window is closed): its address cannot be reused inside the
** window and a second free of the same block is counted instead of corrupting the
** heap.  In the ASan build blocks are freed at once so that the sanitizer sees every
** use-after-free / double free itself.
**
** Nothing here enters a verdict by address value: only membership in ranges that the
** harness derived from the objects of the case.
*/

#ifndef VF_ALLOC_H
#define VF_ALLOC_H

#include "vf.h"

void* __real_realloc(void*, size_t);
void  __real_free(void*);
void* __real_malloc(size_t);
void* __real_calloc(size_t, size_t);

#define AL_MAXREC   512
#define AL_MAXTRACK 16

struct al_rec { char* p; int kind; };            /* kind 0 = free, 1 = realloc, 2 = free of a block that was allocated inside the window */

static struct al_rec al_recs[AL_MAXREC];
static int al_nrecs;
static int al_open;
static uint64_t al_dropped;                      /* records beyond AL_MAXREC (ranges are still checked) */
static uint64_t al_total_free, al_total_realloc; /* whole run, evidence only */

static char* al_track[AL_MAXTRACK]; static int al_ntrack;
static char* al_quar[AL_MAXTRACK];  static int al_nquar;

/* forbidden ranges of the window, checked on-line so that nothing is lost on overflow */
struct al_range { char* lo; char* hi; const char* what; };
static struct al_range al_forb[8]; static int al_nforb;
static int al_forb_hits; static const char* al_forb_what; static int al_forb_kind; static long al_forb_off;

/* blocks allocated while the window is open (temporaries of the operation, e.g. the format buffer of an exception message) */
#define AL_MAXNEW 256
static char* al_new[AL_MAXNEW]; static int al_nnew;

static void al_note_new(void* p) {
  if (!al_open || p == NULL) return;
  if (al_nnew < AL_MAXNEW) al_new[al_nnew++] = p;
}

void* __wrap_malloc(size_t n) { void* p = __real_malloc(n); al_note_new(p); return p; }
void* __wrap_calloc(size_t a, size_t b) { void* p = __real_calloc(a, b); al_note_new(p); return p; }

/* returns the forbidden range p lies in (or NULL) */
static struct al_range* al_note_ptr(char* p, int kind) {
  struct al_range* hit = NULL;
  if (!al_open || p == NULL) return NULL;
  if (kind == 0) {
    for (int i = 0; i < al_nnew; i++) if (al_new[i] == p) { al_new[i] = al_new[--al_nnew]; kind = 2; break; }
  }
  for (int i = 0; i < al_nforb; i++) {
    if (p >= al_forb[i].lo && p < al_forb[i].hi) {
      if (al_forb_hits++ == 0) { al_forb_what = al_forb[i].what; al_forb_kind = kind; al_forb_off = (long)(p - al_forb[i].lo); }
      hit = &al_forb[i];
    }
  }
  if (al_nrecs < AL_MAXREC) { al_recs[al_nrecs].p = p; al_recs[al_nrecs].kind = kind; al_nrecs++; }
  else al_dropped++;
  return hit;
}

void __wrap_free(void* p_) {
  char* p = p_;
  al_total_free++;
  /* a pointer into a stack / static / embedded object: recorded (hard violation), never really freed, so that the run goes on */
  if (al_note_ptr(p, 0)) return;
#ifndef VF_ASAN
  if (al_open && p) {
    for (int i = 0; i < al_nquar; i++) if (al_quar[i] == p) return;        /* second free: counted, not executed */
    for (int i = 0; i < al_ntrack; i++) {
      if (al_track[i] == p && al_nquar < AL_MAXTRACK) { al_quar[al_nquar++] = p; return; }
    }
  }
#endif
  __real_free(p_);
}

void* __wrap_realloc(void* p_, size_t n) {
  al_total_realloc++;
  struct al_range* hit = al_note_ptr((char*)p_, 1);
  if (hit) {
    /* realloc of non-heap memory: recorded (hard violation) and emulated by a fresh block holding a copy of what is there */
    size_t have = (size_t)(hit->hi - (char*)p_);
    char* q = __real_calloc(1, n ? n : 1);
    if (q) memcpy(q, p_, have < n ? have : n);
    return q;
  }
  void* q = __real_realloc(p_, n);
  if (q != p_) al_note_new(q);
  return q;
}

static void al_begin(void) {
  al_nrecs = 0; al_ntrack = 0; al_nquar = 0; al_nforb = 0; al_dropped = 0; al_nnew = 0;
  al_forb_hits = 0; al_forb_what = NULL; al_forb_kind = 0; al_forb_off = 0;
}

static void al_forbid(void* lo, size_t n, const char* what) {
  if (al_nforb < 8 && lo) { al_forb[al_nforb].lo = lo; al_forb[al_nforb].hi = (char*)lo + (n ? n : 1); al_forb[al_nforb].what = what; al_nforb++; }
}

static void al_tracked(void* p) { if (p && al_ntrack < AL_MAXTRACK) al_track[al_ntrack++] = p; }

static void al_start(void) { al_open = 1; }

static void al_stop(void) {
  al_open = 0;
  for (int i = 0; i < al_nquar; i++) __real_free(al_quar[i]);
  al_nquar = 0;
}

static int al_count(void* p, int kind) {
  int n = 0;
  for (int i = 0; i < al_nrecs; i++) if (al_recs[i].p == (char*)p && al_recs[i].kind == kind) n++;
  return n;
}

/* number of blocks that existed before the window and were freed inside it, not counting the block `exempt` */
static int al_nfree_preexisting(void* exempt) {
  int n = 0;
  for (int i = 0; i < al_nrecs; i++) if (al_recs[i].kind == 0 && al_recs[i].p != (char*)exempt) n++;
  return n;
}

/* did the operation reach the allocator at all? */
static int al_any(void) { return al_nrecs > 0; }

#endif
