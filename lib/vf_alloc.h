/*
** vf_alloc.h - allocator ledger for h_alloc.c (C19).
**
** The harness is linked with -Wl,--wrap=free -Wl,--wrap=realloc -Wl,--wrap=malloc
** -Wl,--wrap=calloc, so every call of free()/realloc() made by the library (and by the
** harness) arrives here first; malloc/calloc are wrapped only to tell temporaries that an
** operation allocates and frees itself from blocks that existed before it.
** While a *window* is open every pointer handed to free/realloc is recorded.  A
** window is opened around exactly one operation under test; afterwards the oracle
** asks:
**   - was a pointer inside a forbidden range (a stack / static / container-embedded
**     object, a string literal, a stack item array) given to free or realloc?
**   - how often was a tracked pointer (the header block of a heap object, the
**     buffer owned by a String / Tuple) given to free / realloc?
**
** In the gcc build a tracked pointer that is freed is *quarantined* (recorded, really
** freed only when the window is closed): its address cannot be reused inside the
** window and a second free of the same block is counted instead of corrupting the
** heap.  In the ASan build blocks are freed at once so that the sanitizer sees every
** use-after-free / double free itself.
**
** Nothing here enters a verdict by address value: only membership in ranges that the
** harness derived from the objects of the case.
**
** Also kept: the byte count of recent malloc/calloc/realloc requests by address (al_requested), and an optional
** forced-reuse stash (al_arm_reuse) for histories in which a freed block must be the one the next request receives.
*/

#ifndef VF_ALLOC_H
#define VF_ALLOC_H

#include "vf.h"

void* __real_realloc(void*, size_t);
void  __real_free(void*);
void* __real_malloc(size_t);
void* __real_calloc(size_t, size_t);

#define AL_MAXREC   512
#define AL_MAXTRACK 16

struct al_rec { char* p; int kind; };            /* kind 0 = free, 1 = realloc, 2 = free of a block that was allocated inside the window */

static struct al_rec al_recs[AL_MAXREC];
static int al_nrecs;
static int al_open;
static uint64_t al_dropped;                      /* records beyond AL_MAXREC (ranges are still checked) */
static uint64_t al_total_free, al_total_realloc; /* whole run, evidence only */

static char* al_track[AL_MAXTRACK]; static int al_ntrack;
static char* al_quar[AL_MAXTRACK];  static int al_nquar;

/* forbidden ranges of the window, checked on-line so that nothing is lost on overflow */
struct al_range { char* lo; char* hi; const char* what; };
static struct al_range al_forb[8]; static int al_nforb;
static int al_forb_hits; static const char* al_forb_what; static int al_forb_kind; static long al_forb_off;

/* blocks allocated while the window is open (temporaries of the operation, e.g. the format buffer of an exception message) */
#define AL_MAXNEW 256
static char* al_new[AL_MAXNEW]; static int al_nnew;

static void al_note_new(void* p) {
  if (!al_open || p == NULL) return;
  if (al_nnew < AL_MAXNEW) al_new[al_nnew++] = p;
}

/*
** Requested sizes: the byte count of the last AL_RING malloc/calloc requests by address (newest wins), whether a window is
** open or not.  "Does the block the library asked for cover header + size(type)?" is answered from here, not from what the
** allocator happened to round the request up to.
*/
#define AL_RING 512
static struct { char* p; size_t n; } al_ring[AL_RING];
static unsigned al_ringpos;
static void al_ring_note(void* p, size_t n) { if (p) { al_ring[al_ringpos % AL_RING].p = p; al_ring[al_ringpos % AL_RING].n = n; al_ringpos++; } }
static int al_requested(void* p, size_t* n) {
  for (unsigned k = 0; k < AL_RING && k < al_ringpos; k++) {
    unsigned i = (al_ringpos - 1 - k) % AL_RING;
    if (al_ring[i].p == (char*)p) { *n = al_ring[i].n; return 1; }
  }
  return 0;
}

/*
** Forced address reuse (an allocator policy, simulated): a block that was *armed* is not given back to the real allocator
** when the library frees it but kept in a small stash; the next calloc/malloc request of exactly the same byte count is
** answered with a stashed block (zeroed for calloc) - the most recently freed one (policy 0, what a LIFO free list does)
** or the least recently freed one (policy 1).  That is what "malloc hands the block straight back" looks like, made
** independent of the allocator the harness happens to be linked with (glibc bins, the sanitizer's quarantine).
*/
#define AL_STASH 4
static char* al_armed[AL_STASH]; static int al_narmed;
static struct { char* p; size_t n; } al_stash[AL_STASH]; static int al_nstash;
static int al_stash_policy;
static uint64_t al_reuse_forced;

static void al_arm_reuse(void* p) { if (p && al_narmed < AL_STASH) al_armed[al_narmed++] = p; }
static int al_stash_take_freed(char* p) {
  for (int i = 0; i < al_narmed; i++) if (al_armed[i] == p) {
    size_t n;
    al_armed[i] = al_armed[--al_narmed];
    if (al_nstash >= AL_STASH || !al_requested(p, &n)) return 0;
    al_stash[al_nstash].p = p; al_stash[al_nstash].n = n; al_nstash++;
    return 1;
  }
  return 0;
}
static void* al_stash_give(size_t n, int zero) {
  for (int k = 0; k < al_nstash; k++) {
    int i = al_stash_policy ? k : al_nstash - 1 - k;
    if (al_stash[i].n != n) continue;
    char* p = al_stash[i].p;
    for (int j = i; j < al_nstash - 1; j++) al_stash[j] = al_stash[j + 1];
    al_nstash--;
    if (zero) memset(p, 0, n);
    al_reuse_forced++;
    return p;
  }
  return NULL;
}
/* end of a case: nothing stays armed, blocks nobody asked for again go back to the allocator */
static void al_reuse_reset(void) {
  al_narmed = 0;
  while (al_nstash > 0) __real_free(al_stash[--al_nstash].p);
}

/*
** Slack (gcc build of part=recycle only): every block is really al_pad bytes longer than requested.  A library that asks for
** too few bytes and then writes size(type) bytes is convicted from the REQUESTED count (al_requested); the slack only keeps
** its overrun from destroying the allocator's own bookkeeping, so that the exploration can go on and report every case.
** The sanitizer build runs without slack and sees the overrun itself.
*/
static size_t al_pad;

void* __wrap_malloc(size_t n) {
  void* p = al_nstash ? al_stash_give(n, 0) : NULL;
  if (!p) p = __real_malloc(n + al_pad);
  al_ring_note(p, n); al_note_new(p); return p;
}
void* __wrap_calloc(size_t a, size_t b) {
  void* p = al_nstash ? al_stash_give(a * b, 1) : NULL;
  if (!p) p = al_pad ? __real_calloc(1, a * b + al_pad) : __real_calloc(a, b);
  al_ring_note(p, a * b); al_note_new(p); return p;
}

/* returns the forbidden range p lies in (or NULL) */
static struct al_range* al_note_ptr(char* p, int kind) {
  struct al_range* hit = NULL;
  if (!al_open || p == NULL) return NULL;
  if (kind == 0) {
    for (int i = 0; i < al_nnew; i++) if (al_new[i] == p) { al_new[i] = al_new[--al_nnew]; kind = 2; break; }
  }
  for (int i = 0; i < al_nforb; i++) {
    if (p >= al_forb[i].lo && p < al_forb[i].hi) {
      if (al_forb_hits++ == 0) { al_forb_what = al_forb[i].what; al_forb_kind = kind; al_forb_off = (long)(p - al_forb[i].lo); }
      hit = &al_forb[i];
    }
  }
  if (al_nrecs < AL_MAXREC) { al_recs[al_nrecs].p = p; al_recs[al_nrecs].kind = kind; al_nrecs++; }
  else al_dropped++;
  return hit;
}

void __wrap_free(void* p_) {
  char* p = p_;
  al_total_free++;
  /* a pointer into a stack / static / embedded object: recorded (hard violation), never really freed, so that the run goes on */
  if (al_note_ptr(p, 0)) return;
  if (al_narmed && p && al_stash_take_freed(p)) return;
#ifndef VF_ASAN
  if (al_open && p) {
    for (int i = 0; i < al_nquar; i++) if (al_quar[i] == p) return;        /* second free: counted, not executed */
    for (int i = 0; i < al_ntrack; i++) {
      if (al_track[i] == p && al_nquar < AL_MAXTRACK) { al_quar[al_nquar++] = p; return; }
    }
  }
#endif
  __real_free(p_);
}

void* __wrap_realloc(void* p_, size_t n) {
  al_total_realloc++;
  struct al_range* hit = al_note_ptr((char*)p_, 1);
  if (hit) {
    /* realloc of non-heap memory: recorded (hard violation) and emulated by a fresh block holding a copy of what is there */
    size_t have = (size_t)(hit->hi - (char*)p_);
    char* q = __real_calloc(1, n ? n : 1);
    if (q) memcpy(q, p_, have < n ? have : n);
    return q;
  }
  void* q = __real_realloc(p_, n + al_pad);
  if (q != p_) al_note_new(q);
  al_ring_note(q, n);
  return q;
}

static void al_begin(void) {
  al_nrecs = 0; al_ntrack = 0; al_nquar = 0; al_nforb = 0; al_dropped = 0; al_nnew = 0;
  al_forb_hits = 0; al_forb_what = NULL; al_forb_kind = 0; al_forb_off = 0;
}

static void al_forbid(void* lo, size_t n, const char* what) {
  if (al_nforb < 8 && lo) { al_forb[al_nforb].lo = lo; al_forb[al_nforb].hi = (char*)lo + (n ? n : 1); al_forb[al_nforb].what = what; al_nforb++; }
}

static void al_tracked(void* p) { if (p && al_ntrack < AL_MAXTRACK) al_track[al_ntrack++] = p; }

static void al_start(void) { al_open = 1; }

static void al_stop(void) {
  al_open = 0;
  for (int i = 0; i < al_nquar; i++) __real_free(al_quar[i]);
  al_nquar = 0;
}

static int al_count(void* p, int kind) {
  int n = 0;
  for (int i = 0; i < al_nrecs; i++) if (al_recs[i].p == (char*)p && al_recs[i].kind == kind) n++;
  return n;
}

/* number of blocks that existed before the window and were freed inside it, not counting the block `exempt` */
static int al_nfree_preexisting(void* exempt) {
  int n = 0;
  for (int i = 0; i < al_nrecs; i++) if (al_recs[i].kind == 0 && al_recs[i].p != (char*)exempt) n++;
  return n;
}

/* did the operation reach the allocator at all? */
static int al_any(void) { return al_nrecs > 0; }

#endif
