/*
** vf_bfs.h - explicit-state breadth-first search over histories of the real code.
**
** A state is identified by the canonical string the domain computes from the concrete
** object(s) it drives plus its reference model.  Live objects cannot be cloned, so a
** state is re-entered by replaying its shortest history on fresh objects; on replay
** the canonical string must equal the stored one (otherwise: nondeterminism, exit 2,
** never a verdict).  For every dequeued state every operation of the alphabet is
** applied; the domain's apply() runs the real operation and the reference model side
** by side and its oracles report through vf_violation().  A state in which an oracle
** failed is terminal (not expanded), so every violation is reported at its shortest
** history and a defect cannot make the space infinite.
**
** Case strings (replayable): "op,op,op" as decimal alphabet indices; pretty form is
** produced with the domain's opname().
*/

#ifndef VF_BFS_H
#define VF_BFS_H

#include "vf.h"

enum { VF_OK = 0, VF_SKIP = 1, VF_BAD = 2 };

struct vf_domain {
  const char* name;
  int nops;
  void (*reset)(void);                 /* fresh real object(s) + model; previous ones already cleaned */
  void (*cleanup)(void);               /* delete everything reset()/apply() created */
  int  (*apply)(int op);               /* VF_OK applied (maybe self-loop) / VF_SKIP not enabled / VF_BAD violation recorded */
  int  (*check)(void);                 /* oracle on the current state: 0 ok, else violation recorded */
  size_t (*canon)(char* buf, size_t cap);
  void (*opname)(int op, char* buf, size_t cap);
  int  (*nontrivial)(void);            /* is the current state non-trivial by the domain's rule (may be NULL) */
  size_t max_depth;                    /* 0 = to fixpoint */
  size_t max_states;                   /* 0 = unlimited; hitting it => exhaustive:false */
};

struct vf_bfs_state { uint32_t parent; int32_t op; uint32_t depth; uint8_t terminal; };

static struct vf_bfs_state* vf_bfs_states;
static size_t vf_bfs_n, vf_bfs_cap;
static struct vf_set vf_bfs_seen;
static char vf_bfs_canon[1 << 16];
static char vf_bfs_canon2[1 << 16];

static size_t vf_bfs_history(uint32_t s, int* ops, size_t cap) {
  size_t d = vf_bfs_states[s].depth;
  if (d > cap) { fprintf(stderr, "vf_bfs: history too deep\n"); _exit(2); }
  size_t i = d;
  while (s != 0) { ops[--i] = vf_bfs_states[s].op; s = vf_bfs_states[s].parent; }
  return d;
}

static void vf_bfs_case(const int* ops, size_t n, int extra, char* buf, size_t cap) {
  size_t o = 0; buf[0] = 0;
  for (size_t i = 0; i < n && o + 16 < cap; i++) o += snprintf(buf + o, cap - o, "%s%d", i ? "," : "", ops[i]);
  if (extra >= 0 && o + 16 < cap) snprintf(buf + o, cap - o, "%s%d", n ? "," : "", extra);
}

static void vf_bfs_pretty(struct vf_domain* d, const int* ops, size_t n, int extra, char* buf, size_t cap) {
  size_t o = 0; buf[0] = 0; char nm[128];
  for (size_t i = 0; i < n + (extra >= 0 ? 1 : 0) && o + 140 < cap; i++) {
    int op = i < n ? ops[i] : extra;
    d->opname(op, nm, sizeof nm);
    o += snprintf(buf + o, cap - o, "%s%s", i ? " ; " : "", nm);
  }
}

/* set vf_cur to "<case> | <pretty>" for fault attribution */
static void vf_bfs_setcur(struct vf_domain* d, const int* ops, size_t n, int extra) {
  char a[2048], b[4096];
  vf_bfs_case(ops, n, extra, a, sizeof a);
  vf_bfs_pretty(d, ops, n, extra, b, sizeof b);
  vf_set_cur("%s | %s: %s", a, d->name, b);
}

/* suffix=K (a parameter every BFS harness understands): the indices of the last K operations of the history are part of the
** state key.  A key built from the concrete state cannot show state the harness does not know about (a memo, a cached
** threshold, a cursor a change to the library might add): two histories that end in the same visible state are then
** merged and only the shorter one is continued.  With the suffix, histories that reach one visible state through
** different last operations - growth or assignment, removal or clearing, a query in between - stay apart, and self-loops
** (queries, refused operations) are continued from like any other transition. */
static int vf_bfs_suffix;
static void vf_bfs_addsuffix(char* canon, size_t cap, const int* ops, size_t n, int extra) {
  if (vf_bfs_suffix <= 0) return;
  size_t total = n + (extra >= 0 ? 1 : 0);
  size_t from = total > (size_t)vf_bfs_suffix ? total - (size_t)vf_bfs_suffix : 0;
  size_t o = strlen(canon);
  if (total > from && o + 4 < cap) o += snprintf(canon + o, cap - o, " ~");
  for (size_t i = from; i < total && o + 16 < cap; i++) o += snprintf(canon + o, cap - o, "%d,", i < n ? ops[i] : extra);
}

/* replay ops on a fresh object; returns VF_OK, or VF_BAD if some step reported a violation */
static int vf_bfs_replay(struct vf_domain* d, const int* ops, size_t n) {
  d->reset();
  for (size_t i = 0; i < n; i++) {
    int r = d->apply(ops[i]);
    if (r == VF_BAD) return VF_BAD;
    if (r == VF_SKIP) {
      fprintf(stderr, "vf_bfs[%s]: replay diverged: op %d not enabled at step %zu (nondeterminism)\n", d->name, ops[i], i);
      _exit(2);
    }
  }
  return VF_OK;
}

static void vf_bfs_run(struct vf_domain* d) {
  vf.phase = d->name;
  vf_bfs_cap = 1 << 16; vf_bfs_n = 0;
  vf_bfs_states = malloc(vf_bfs_cap * sizeof *vf_bfs_states);
  vf_bfs_suffix = (int)vf_param_i("suffix", 0);
  if (vf_bfs_suffix) vf_note("%s: the last %d operation(s) of the history are part of the state key", d->name, vf_bfs_suffix);
  vf_set_init(&vf_bfs_seen, 1 << 17);
  int ops[4096];

  /* initial state */
  vf_set_cur("(initial) | %s", d->name);
  d->reset();
  int bad0 = d->check();
  d->canon(vf_bfs_canon, sizeof vf_bfs_canon);
  vf_set_put(&vf_bfs_seen, vf_bfs_canon, 0);
  vf_bfs_states[0] = (struct vf_bfs_state){ 0, -1, 0, (uint8_t)(bad0 ? 1 : 0) };
  vf_bfs_n = 1; vf.states++;
  if (d->nontrivial && d->nontrivial()) vf.nontrivial++;
  d->cleanup();

  for (size_t s = 0; s < vf_bfs_n; s++) {
    if (vf_bfs_states[s].terminal) continue;
    if (d->max_depth && vf_bfs_states[s].depth >= d->max_depth) { continue; }
    if ((s & 255) == 0 && vf_deadline_hit()) { vf_note("%s: global deadline hit at state %zu of %zu discovered", d->name, s, vf_bfs_n); break; }
    size_t n = vf_bfs_history((uint32_t)s, ops, 4096);
    int verified = 0;
    int intact = 0;   /* the live objects are still untouched in state s: the last operation was not enabled */
    for (int op = 0; op < d->nops; op++) {
      vf_watchdog(60);
      vf_bfs_setcur(d, ops, n, op);
      if (!intact && vf_bfs_replay(d, ops, n) != VF_OK) {
        fprintf(stderr, "vf_bfs[%s]: replay of a stored clean state reported a violation (nondeterminism): %s\n", d->name, vf_cur);
        _exit(2);
      }
      intact = 0;
      if (!verified) {
        d->canon(vf_bfs_canon2, sizeof vf_bfs_canon2);
        vf_bfs_addsuffix(vf_bfs_canon2, sizeof vf_bfs_canon2, ops, n, -1);
        long idx = vf_set_get(&vf_bfs_seen, vf_bfs_canon2);
        if (idx != (long)s) {
          fprintf(stderr, "vf_bfs[%s]: replay reached a different state than stored (nondeterminism): %s\n  got %s\n", d->name, vf_cur, vf_bfs_canon2);
          _exit(2);
        }
        verified = 1;
      }
      int r = d->apply(op);
      if (r == VF_SKIP) { intact = 1; continue; }   /* nothing happened: the next operation starts from the same live state */
      vf.transitions++;
      vf.executions++;
      int bad = (r == VF_BAD);
      if (!bad) bad = d->check() != 0;
      if (bad) {
        /* terminal: record as a state so the count is honest, do not expand */
        d->cleanup();
        continue;
      }
      d->canon(vf_bfs_canon, sizeof vf_bfs_canon);
      vf_bfs_addsuffix(vf_bfs_canon, sizeof vf_bfs_canon, ops, n, op);
      long idx = vf_set_put(&vf_bfs_seen, vf_bfs_canon, (uint32_t)vf_bfs_n);
      /* a self-loop (a query, a refused operation) is NOT continued from: the real operation ran, and whatever the
      ** canonical string does not show (allocator state, stream bookkeeping, a seeded static) may differ from what a
      ** replay of the shortest history reaches */
      if (idx < 0) {
        if (vf_bfs_n == vf_bfs_cap) { vf_bfs_cap *= 2; vf_bfs_states = realloc(vf_bfs_states, vf_bfs_cap * sizeof *vf_bfs_states); }
        uint32_t depth = vf_bfs_states[s].depth + 1;
        vf_bfs_states[vf_bfs_n++] = (struct vf_bfs_state){ (uint32_t)s, op, depth, 0 };
        vf.states++;
        if (depth > vf.max_depth) vf.max_depth = depth;
        if (d->nontrivial && d->nontrivial()) vf.nontrivial++;
        if (vf_want_sample()) {
          char b[4096]; vf_bfs_pretty(d, ops, n, op, b, sizeof b);
          vf_sample("%s: %s  =>  %s", d->name, b, vf_bfs_canon);
        }
      }
      d->cleanup();
      if (d->max_states && vf_bfs_n >= d->max_states) break;
    }
    if (intact) d->cleanup();
    if (d->max_states && vf_bfs_n >= d->max_states) {
      vf.exhaustive = 0;
      vf_note("%s: state cap %zu hit; states up to BFS index %zu fully expanded", d->name, d->max_states, s);
      break;
    }
  }
  if (d->max_depth) {
    /* depth-bounded: exhaustive for the bound; note if frontier remained */
    size_t frontier = 0;
    for (size_t s = 0; s < vf_bfs_n; s++) if (!vf_bfs_states[s].terminal && vf_bfs_states[s].depth >= d->max_depth) frontier++;
    if (frontier) vf_note("%s: depth bound %zu reached with %zu unexpanded frontier states (all histories up to that depth were explored)", d->name, d->max_depth, frontier);
    else vf_note("%s: fixpoint reached below depth bound %zu", d->name, d->max_depth);
  } else if (vf.exhaustive) {
    vf_note("%s: fixpoint reached: %zu states, deepest shortest history %" PRIu64, d->name, vf_bfs_n, vf.max_depth);
  }
  vf_watchdog(0);
  /* free the visited set (several domains may run in one process) */
  for (size_t i = 0; i < vf_bfs_seen.cap; i++) free(vf_bfs_seen.keys[i]);
  free(vf_bfs_seen.keys); free(vf_bfs_seen.vals); free(vf_bfs_states);
  vf_cur_valid = 0;
}

/* replay a case string "3,1,4" linearly, with all oracles, without the explorer */
static void vf_bfs_replay_case(struct vf_domain* d, const char* kase) {
  int ops[4096]; size_t n = 0;
  const char* p = kase;
  while (*p && *p != '|' && n < 4096) {
    while (*p == ' ' || *p == ',') p++;
    if (!isdigit((unsigned char)*p)) break;
    ops[n++] = (int)strtol(p, (char**)&p, 10);
  }
  vf.phase = d->name;
  vf_bfs_setcur(d, ops, n, -1);
  d->reset();
  char nm[128];
  for (size_t i = 0; i < n; i++) {
    if (ops[i] < 0 || ops[i] >= d->nops) { fprintf(stderr, "replay: op %d out of range\n", ops[i]); _exit(2); }
    d->opname(ops[i], nm, sizeof nm);
    int r = d->apply(ops[i]);
    int bad = (r == VF_BAD);
    if (r == VF_OK) bad = d->check() != 0;
    d->canon(vf_bfs_canon, sizeof vf_bfs_canon);
    printf("  step %zu: %-28s -> %s  state %s\n", i, nm, r == VF_OK ? (bad ? "ORACLE FAILED" : "ok") : r == VF_SKIP ? "not enabled" : "VIOLATION", vf_bfs_canon);
    vf.transitions++;
    if (bad) break;
  }
  vf.states = 1; vf.executions = 1;
  d->cleanup();
}

#endif
