/*
** vf_cmp.h - boundary-value grids shared by h_cmp.c (C09) and h_hash.c (C10), and Raw8,
** a Cello type of 8 raw bytes that has NO Cmp / Hash / Assign / Swap instance of its own
** (so the library's default byte-wise cmp, hash_data, memcpy assign, memswap apply).
**
** Every grid is ordered simplest-first.  `vfg_large` selects the thorough-tier grids.
**   int     iv[ni]     float  fv[fn]     string  sv[sn]     type  tobj[tn]/tname[tn]
**   raw*    rawdoms[] / RW (the selected one): RW->v[RW->n], RW->size, RW->type
** <dom>_ref(i,j) is the C reference sign, <dom>_feat(i,j) the input feature for labels,
** <dom>_desc() a printable form.
*/

#ifndef VF_CMP_H
#define VF_CMP_H

#include "vf.h"
#include <float.h>
#include <math.h>

#define SIGN(x) ((x) > 0 ? 1 : (x) < 0 ? -1 : 0)
#define MAXN 400

/* ---- a plain struct type without its own Cmp / Hash / Assign ------------------------ */

struct Raw8 { unsigned char b[8]; };
var Raw8 = Cello(Raw8);
struct Raw1  { unsigned char b[1]; };   var Raw1  = Cello(Raw1);
struct Raw3  { unsigned char b[3]; };   var Raw3  = Cello(Raw3);
struct Raw4  { unsigned char b[4]; };   var Raw4  = Cello(Raw4);
struct Raw7  { unsigned char b[7]; };   var Raw7  = Cello(Raw7);
struct Raw9  { unsigned char b[9]; };   var Raw9  = Cello(Raw9);
struct Raw12 { int32_t x, y, z; };      var Raw12 = Cello(Raw12);
struct Raw16 { unsigned char b[16]; };  var Raw16 = Cello(Raw16);
struct Raw20 { unsigned char b[20]; };  var Raw20 = Cello(Raw20);
struct Raw21 { unsigned char b[21]; };  var Raw21 = Cello(Raw21);
/* larger than / around the 64- and 128-byte blocks a block-wise memcpy/memswap would use */
struct Raw63  { unsigned char b[63]; };   var Raw63  = Cello(Raw63);
struct Raw64  { unsigned char b[64]; };   var Raw64  = Cello(Raw64);
struct Raw65  { unsigned char b[65]; };   var Raw65  = Cello(Raw65);
struct Raw72  { unsigned char b[72]; };   var Raw72  = Cello(Raw72);
struct Raw100 { unsigned char b[100]; };  var Raw100 = Cello(Raw100);
struct Raw127 { unsigned char b[127]; };  var Raw127 = Cello(Raw127);
struct Raw128 { unsigned char b[128]; };  var Raw128 = Cello(Raw128);
struct Raw129 { unsigned char b[129]; };  var Raw129 = Cello(Raw129);
struct Raw200 { unsigned char b[200]; };  var Raw200 = Cello(Raw200);
struct Raw300 { unsigned char b[300]; };  var Raw300 = Cello(Raw300);

static int vfg_large;

/* -- int -- */
static int64_t iv[MAXN]; static int ni;

static uint64_t imag(int64_t v) { return v < 0 ? (uint64_t)0 - (uint64_t)v : (uint64_t)v; }

static void int_add(int64_t v) {
  for (int i = 0; i < ni; i++) if (iv[i] == v) return;
  iv[ni++] = v;
}
static void int_addpm(int64_t v) { int_add(v); int_add(-v); }

static void int_grid(void) {
  const int64_t P16 = 1LL << 16, P31 = 1LL << 31, P32 = 1LL << 32, P62 = 1LL << 62;
  int_add(0);
  int_addpm(1); int_addpm(2); int_addpm(127); int_addpm(255); int_addpm(128); int_addpm(32768); int_addpm(P16);
  int_addpm(P31 - 1); int_addpm(P31); int_addpm(P31 + 1);
  int_addpm(P32 - 1); int_addpm(P32); int_addpm(P32 + 1); int_addpm(P32 + P31);
  int_addpm(1LL << 33); int_addpm(1LL << 48);
  int_addpm(P62 - 1); int_addpm(P62); int_addpm(P62 + 1);
  int_add(INT64_MAX); int_add(INT64_MAX - 1); int_add(INT64_MAX - 2);
  int_add(INT64_MIN); int_add(INT64_MIN + 1); int_add(INT64_MIN + 2);
  if (vfg_large) {
    static const int ks[] = { 8, 15, 24, 30, 34, 40, 47, 53, 56, 61 };
    for (size_t q = 0; q < sizeof ks / sizeof ks[0]; q++) {
      int_addpm(1LL << ks[q]); int_addpm((1LL << ks[q]) - 1);
    }
    int_addpm(3); int_addpm(P31 + (1LL << 30)); int_addpm(P62 + P32);
  }
  /* simplest first: ascending magnitude, positive before negative */
  for (int i = 1; i < ni; i++) {
    int64_t v = iv[i]; int j = i;
    while (j > 0 && (imag(iv[j-1]) > imag(v) || (imag(iv[j-1]) == imag(v) && iv[j-1] < v))) { iv[j] = iv[j-1]; j--; }
    iv[j] = v;
  }
}
static int int_ref(int i, int j) { return iv[i] < iv[j] ? -1 : iv[i] > iv[j] ? 1 : 0; }
static const char* int_feat(int i, int j) {
  int64_t d;
  if (__builtin_sub_overflow(iv[i], iv[j], &d)) return "diff-overflows-int64";
  if (d > INT32_MAX || d < -(int64_t)INT32_MAX) return "diff-exceeds-int32";   /* d or -d does not fit in int */
  return "diff-fits-int32";
}
static void int_desc(int i, char* buf, size_t cap) { snprintf(buf, cap, "%" PRId64, iv[i]); }
static int int_stackcmp(int i, int j) { return cmp($I(iv[i]), $I(iv[j])); }

/* -- float -- */
static double fv[MAXN]; static int fn;
static void flt_addpm(double v) { fv[fn++] = v; fv[fn++] = -v; }
static void flt_grid(void) {
  const double dmin = 4.9406564584124654e-324;  /* smallest denormal */
  flt_addpm(0.0);
  flt_addpm(dmin); flt_addpm(2 * dmin); flt_addpm(DBL_MIN - dmin); flt_addpm(DBL_MIN); flt_addpm(DBL_MIN + dmin);
  flt_addpm(1e-300); flt_addpm(0.5); flt_addpm(1.0 - DBL_EPSILON / 2); flt_addpm(1.0); flt_addpm(1.0 + DBL_EPSILON);
  flt_addpm(2.0); flt_addpm(4294967296.0); flt_addpm(9007199254740992.0); flt_addpm(9007199254740994.0);
  flt_addpm(1e300); flt_addpm(DBL_MAX / 2); flt_addpm(nextafter(DBL_MAX, 0.0)); flt_addpm(DBL_MAX);
  flt_addpm(INFINITY);
  if (vfg_large) {
    flt_addpm(3 * dmin); flt_addpm(1e-310); flt_addpm(2 * DBL_MIN); flt_addpm(1e-100); flt_addpm(1.5); flt_addpm(3.0);
    flt_addpm(4294967297.0); flt_addpm(9223372036854775808.0); flt_addpm(1e100);
    flt_addpm(1e308); flt_addpm(0.1); flt_addpm(0.30000000000000004); flt_addpm(1e16); flt_addpm(1.7e308);
  }
  for (int i = 1; i < fn; i++) {
    double v = fv[i]; int j = i;
    while (j > 0 && (fabs(fv[j-1]) > fabs(v) || (fabs(fv[j-1]) == fabs(v) && signbit(fv[j-1]) && !signbit(v)))) { fv[j] = fv[j-1]; j--; }
    fv[j] = v;
  }
}
static int flt_ref(int i, int j) { return fv[i] < fv[j] ? -1 : fv[i] > fv[j] ? 1 : 0; }
static int flt_class(double v) { return v == 0.0 ? 0 : isinf(v) ? 1 : fabs(v) < DBL_MIN ? 2 : 3; }
static const char* flt_feat(int i, int j) {
  int a = flt_class(fv[i]), b = flt_class(fv[j]);
  if (a == 0 && b == 0) return "signed-zeros";
  if (a == 1 || b == 1) return "infinity";
  if (a == 2 || b == 2) return "denormal";
  if (a == 0 || b == 0) return "zero-vs-normal";
  return "normal";
}
static void flt_desc(int i, char* buf, size_t cap) { snprintf(buf, cap, "%a", fv[i]); }
static int flt_stackcmp(int i, int j) { return cmp($F(fv[i]), $F(fv[j])); }

/* -- string -- */
static char sv[MAXN][8]; static int sn;
static void str_grid(void) {
  static const unsigned char alpha[4] = { 'a', 'b', 0x80, 0xFF };
  int maxlen = vfg_large ? 4 : 3;
  for (int l = 0; l <= maxlen; l++) {
    int cnt = 1; for (int q = 0; q < l; q++) cnt *= 4;
    for (int c = 0; c < cnt; c++) {
      int x = c;
      for (int p = l - 1; p >= 0; p--) { sv[sn][p] = (char)alpha[x % 4]; x /= 4; }
      sv[sn][l] = 0; sn++;
    }
  }
}
static int str_ref(int i, int j) {
  const unsigned char* a = (const unsigned char*)sv[i], *b = (const unsigned char*)sv[j];
  size_t k = 0;
  while (a[k] && a[k] == b[k]) k++;
  return a[k] < b[k] ? -1 : a[k] > b[k] ? 1 : 0;
}
static const char* str_feat(int i, int j) {
  const unsigned char* a = (const unsigned char*)sv[i], *b = (const unsigned char*)sv[j];
  size_t k = 0;
  while (a[k] && a[k] == b[k]) k++;
  if (a[k] == 0 && b[k] == 0) return "equal";
  if (a[k] == 0 || b[k] == 0) return (a[k] | b[k]) >= 0x80 ? "prefix-highbyte" : "prefix";
  if (a[k] >= 0x80 && b[k] >= 0x80) return "highbyte-vs-highbyte";
  if (a[k] >= 0x80 || b[k] >= 0x80) return "highbyte-vs-ascii";
  return "ascii";
}
static void str_desc(int i, char* buf, size_t cap) {
  size_t o = 0; o += snprintf(buf + o, cap - o, "\"");
  for (const unsigned char* p = (const unsigned char*)sv[i]; *p; p++)
    o += *p < 0x80 ? snprintf(buf + o, cap - o, "%c", *p) : snprintf(buf + o, cap - o, "\\x%02X", *p);
  snprintf(buf + o, cap - o, "\"");
}
static int str_stackcmp(int i, int j) { return cmp($S(sv[i]), $S(sv[j])); }

/* -- type -- */
static const char* tname[MAXN]; static var tobj[MAXN]; static int tn;
#define TY(X) do { tname[tn] = #X; tobj[tn] = X; tn++; } while (0)
static void type_grid(void) {
  TY(Type); TY(Tuple); TY(Ref); TY(Box); TY(Int); TY(Float); TY(String); TY(Tree); TY(List); TY(Array); TY(Table);
  TY(Range); TY(Slice); TY(Zip); TY(Filter); TY(Map); TY(Terminal); TY(_); TY(File); TY(Mutex); TY(Thread);
  TY(Process); TY(Function); TY(Exception); TY(IOError); TY(KeyError); TY(BusyError); TY(TypeError); TY(ValueError);
  TY(ClassError); TY(FormatError); TY(ResourceError); TY(OutOfMemoryError); TY(IndexOutOfBoundsError);
  TY(SegmentationError); TY(ProgramAbortedError); TY(DivisionByZeroError); TY(IllegalInstructionError);
  TY(ProgramInterruptedError); TY(ProgramTerminationError);
  TY(Doc); TY(Help); TY(Cast); TY(Size); TY(Alloc); TY(New); TY(Copy); TY(Assign); TY(Swap); TY(Cmp); TY(Hash);
  TY(Len); TY(Iter); TY(Push); TY(Concat); TY(Get); TY(Sort); TY(Resize); TY(C_Str); TY(C_Int); TY(C_Float);
  TY(Stream); TY(Pointer); TY(Call); TY(Format); TY(Show); TY(Current); TY(Start); TY(Lock); TY(Mark);
#ifndef CELLO_NGC
  TY(GC);
#endif
  TY(Raw8);
}
static int name_ref(const char* a_, const char* b_) {
  const unsigned char* a = (const unsigned char*)a_, *b = (const unsigned char*)b_;
  size_t k = 0;
  while (a[k] && a[k] == b[k]) k++;
  return a[k] < b[k] ? -1 : a[k] > b[k] ? 1 : 0;
}
static int type_ref(int i, int j) { return name_ref(tname[i], tname[j]); }
static const char* type_feat(int i, int j) {
  const char* a = tname[i], *b = tname[j];
  size_t k = 0;
  while (a[k] && a[k] == b[k]) k++;
  if (!a[k] && !b[k]) return "same-name";
  if (!a[k] || !b[k]) return "name-prefix";
  return k ? "common-prefix" : "different-initial";
}
static void type_desc(int i, char* buf, size_t cap) { snprintf(buf, cap, "%s", tname[i]); }

/* -- plain structs of raw bytes (no Cmp / Hash / Assign / Swap instance) in several sizes --
**
** "raw" is Raw8; raw1, raw3, raw4, raw7, raw9, raw12, raw16, raw20, raw21 have sizes that are
** not multiples of 8 (tails of 1..7 bytes after the last whole word, a size below one word,
** exactly two words) so that word-wise implementations of the default cmp / hash / assign /
** swap must get their remainder handling right.  None has padding (unsigned char arrays;
** Raw12 is three int32).  Grid of a size: the bytes at 3 (large: up to 4) positions - always
** the first and the LAST byte, the first byte after the last whole 8-byte word (or the middle)
** - each from {00, 01, 80, FF}, all other bytes 0x55.
** raw63, raw64, raw65, raw72, raw100, raw127, raw128, raw129, raw200, raw300: see raw_grid_big.
*/
#define RAWMAX 304
#define NRAWDOMS 20
struct rawdom { const char* name; size_t size; var type; int n; unsigned char v[MAXN][RAWMAX]; };
static struct rawdom rawdoms[NRAWDOMS]; static int nrawdoms;
static struct rawdom* RW;               /* the raw domain currently selected */

static struct rawdom* raw_find(const char* name) {
  for (int q = 0; q < nrawdoms; q++) if (!strcmp(rawdoms[q].name, name)) return &rawdoms[q];
  return NULL;
}

static void raw_grid_one(const char* name, size_t size, var type) {
  static const unsigned char vals[4] = { 0x00, 0x01, 0x80, 0xFF };
  struct rawdom* r = &rawdoms[nrawdoms++];
  r->name = name; r->size = size; r->type = type; r->n = 0;
  size_t cand[5], pos[4]; int np = 0, maxp = vfg_large ? 4 : 3;
  size_t mid = size & ~(size_t)7;
  if (mid == 0 || mid >= size - 1) mid = size / 2;
  cand[0] = 0; cand[1] = size - 1; cand[2] = mid; cand[3] = size / 2; cand[4] = size >= 2 ? size - 2 : 0;
  if (size == 8) { cand[2] = 3; cand[3] = 1; }          /* Raw8 keeps its historical positions {0,3,7} / {0,1,3,7} */
  for (int c = 0; c < 5 && np < maxp; c++) {
    int dup = 0; for (int q = 0; q < np; q++) if (pos[q] == cand[c]) dup = 1;
    if (!dup) pos[np++] = cand[c];
  }
  for (int x = 1; x < np; x++) { size_t v = pos[x]; int y = x; while (y > 0 && pos[y-1] > v) { pos[y] = pos[y-1]; y--; } pos[y] = v; }
  int cnt = 1; for (int q = 0; q < np; q++) cnt *= 4;
  for (int c = 0; c < cnt; c++) {
    memset(r->v[r->n], 0x55, RAWMAX);
    int x = c;
    for (int q = np - 1; q >= 0; q--) { r->v[r->n][pos[q]] = vals[x % 4]; x /= 4; }
    r->n++;
  }
}
/* the byte every position of a big struct holds unless the grid varies it: position dependent
** (period 61, so no two 64-byte blocks look alike) and below 0x80 */
static unsigned char raw_big_filler(size_t k) { return (unsigned char)(0x20 + k % 61); }

/*
** Big sizes (63..300): varied positions are the first byte, the LAST byte, and around every
** 64-byte boundary inside the struct the byte just before it and the byte just after it.
** Grid (reduced, the product over up to 10 positions is too large): the base pattern; every
** single position set to each of {00, 01, 80, FF}; large grid in addition: every pair of
** neighbouring varied positions set to the four combinations of {00, FF}.
*/
static void raw_grid_big(const char* name, size_t size, var type) {
  static const unsigned char vals[4] = { 0x00, 0x01, 0x80, 0xFF };
  struct rawdom* r = &rawdoms[nrawdoms++];
  r->name = name; r->size = size; r->type = type; r->n = 0;
  size_t pos[16]; int np = 0;
  pos[np++] = 0;
  for (size_t b = 64; b <= size; b += 64) {
    if (b - 1 > 0 && b - 1 < size - 1) pos[np++] = b - 1;
    if (b < size - 1) pos[np++] = b;
  }
  pos[np++] = size - 1;
  #define RAW_BASE(dst) do { for (size_t k = 0; k < RAWMAX; k++) (dst)[k] = k < size ? raw_big_filler(k) : 0x55; } while (0)
  RAW_BASE(r->v[r->n]); r->n++;
  for (int q = 0; q < np; q++) for (int x = 0; x < 4; x++) { RAW_BASE(r->v[r->n]); r->v[r->n][pos[q]] = vals[x]; r->n++; }
  if (vfg_large) for (int q = 0; q + 1 < np; q++) for (int x = 0; x < 4; x++) {
    RAW_BASE(r->v[r->n]); r->v[r->n][pos[q]] = (x & 2) ? 0xFF : 0x00; r->v[r->n][pos[q+1]] = (x & 1) ? 0xFF : 0x00; r->n++;
  }
  #undef RAW_BASE
}

static void raw_grid(void) {
  raw_grid_one("raw", 8, Raw8);
  raw_grid_one("raw1", 1, Raw1);   raw_grid_one("raw3", 3, Raw3);   raw_grid_one("raw4", 4, Raw4);
  raw_grid_one("raw7", 7, Raw7);   raw_grid_one("raw9", 9, Raw9);   raw_grid_one("raw12", 12, Raw12);
  raw_grid_one("raw16", 16, Raw16); raw_grid_one("raw20", 20, Raw20); raw_grid_one("raw21", 21, Raw21);
  raw_grid_big("raw63", 63, Raw63);    raw_grid_big("raw64", 64, Raw64);    raw_grid_big("raw65", 65, Raw65);
  raw_grid_big("raw72", 72, Raw72);    raw_grid_big("raw100", 100, Raw100); raw_grid_big("raw127", 127, Raw127);
  raw_grid_big("raw128", 128, Raw128); raw_grid_big("raw129", 129, Raw129); raw_grid_big("raw200", 200, Raw200);
  raw_grid_big("raw300", 300, Raw300);
  for (int q = 0; q < nrawdoms; q++) if (size(rawdoms[q].type) != rawdoms[q].size) {
    fprintf(stderr, "vf_cmp.h: struct %s has padding (size %zu, expected %zu)\n", rawdoms[q].name, size(rawdoms[q].type), rawdoms[q].size); _exit(2);
  }
  RW = &rawdoms[0];
}
static int raw_ref(int i, int j) {
  for (size_t k = 0; k < RW->size; k++) if (RW->v[i][k] != RW->v[j][k]) return RW->v[i][k] < RW->v[j][k] ? -1 : 1;
  return 0;
}
static const char* raw_feat(int i, int j) {
  for (size_t k = 0; k < RW->size; k++) if (RW->v[i][k] != RW->v[j][k]) {
    int high = (RW->v[i][k] | RW->v[j][k]) >= 0x80;
    if (k == RW->size - 1 && k > 0) return high ? "last-byte-high" : "last-byte-low";   /* differ ONLY in the last byte */
    if (k == 0) return high ? "first-byte-high" : "first-byte-low";
    return high ? "later-byte-high" : "later-byte-low";
  }
  return "equal";
}
static void raw_desc(int i, char* buf, size_t cap) {
  size_t o = 0;
  if (RW->size <= 21) { for (size_t k = 0; k < RW->size && o + 3 < cap; k++) o += snprintf(buf + o, cap - o, "%02X", RW->v[i][k]); return; }
  /* big struct: the positions that differ from the base pattern */
  o += snprintf(buf + o, cap - o, "{");
  for (size_t k = 0; k < RW->size && o + 10 < cap; k++) if (RW->v[i][k] != raw_big_filler(k)) o += snprintf(buf + o, cap - o, "%s%zu:%02X", o > 1 ? "," : "", k, RW->v[i][k]);
  snprintf(buf + o, cap - o, "}");
}
/* a stack-class object of the selected raw type in caller storage (what $(T, ...) builds) */
#define RAW_STACKBUF(name) char name[sizeof(struct Header) + RAWMAX + 8] __attribute__((aligned(16))) = {0}
static var raw_stack(char* buf, int i) {
  var x = header_init(buf, RW->type, AllocStack);
  memcpy(x, RW->v[i], RW->size);
  return x;
}
static int raw_stackcmp(int i, int j) {
  RAW_STACKBUF(ba); RAW_STACKBUF(bb);
  return cmp(raw_stack(ba, i), raw_stack(bb, j));
}

/* ---- recycled run-time types --------------------------------------------------------------
**
** A run-time record type (new_raw(Type, name, size), no instances at all) is created, used,
** and deleted; the next one has another size and - the Type block has a fixed size, so malloc
** normally hands the same block back - very often the SAME ADDRESS.  Anything the library
** remembers per type pointer (sizes, instance lookups) must not survive into the new type.
** Sizes cycle 8, 32, 16, 64, 4, 24, 12, 100 (growing and shrinking steps).
** Values of a size: 0 base pattern; 1,2 first byte 00/FF; 3,4 middle byte; 5,6 LAST byte.
** Objects live in caller blocks (header_init: no library lookup happens while they are
** built) with a canary zone behind them, stack class or heap class.
*/
static const size_t vfr_sizes[] = { 8, 32, 16, 64, 4, 24, 12, 100 };
#define VFR_NSIZES 8
#define VFR_NVALS 7
#define VFR_MAXSIZE 104
#define VFR_CANARY 72
#define VFR_BLOCK (sizeof(struct Header) + VFR_MAXSIZE + VFR_CANARY)
static char vfr_names[VFR_NSIZES][16];

static void vfr_value(size_t size, int v, unsigned char* out) {
  for (size_t k = 0; k < size; k++) out[k] = raw_big_filler(k);
  if (v == 0) return;
  size_t pos = v <= 2 ? 0 : v <= 4 ? size / 2 : size - 1;
  out[pos] = (v & 1) ? 0x00 : 0xFF;
}
static int vfr_ref(size_t size, int i, int j) {
  unsigned char a[VFR_MAXSIZE], b[VFR_MAXSIZE];
  vfr_value(size, i, a); vfr_value(size, j, b);
  for (size_t k = 0; k < size; k++) if (a[k] != b[k]) return a[k] < b[k] ? -1 : 1;
  return 0;
}
static var vfr_type_new(int gen) {
  int q = gen % VFR_NSIZES;
  snprintf(vfr_names[q], sizeof vfr_names[q], "Rec%zu", vfr_sizes[q]);
  return new_raw(Type, $S(vfr_names[q]), $I((int64_t)vfr_sizes[q]));
}
/* an object of run-time type `type` holding value v in block `blk` (VFR_BLOCK bytes), canary byte c behind it */
static var vfr_obj(char* blk, var type, int heap_class, size_t size, int v, unsigned char c) {
  memset(blk, 0, VFR_BLOCK);
  var x = header_init(blk, type, heap_class ? AllocHeap : AllocStack);
  vfr_value(size, v, x);
  memset((char*)x + size, c, VFR_CANARY);
  return x;
}
static int vfr_holds(var x, size_t size, int v) {
  unsigned char w[VFR_MAXSIZE]; vfr_value(size, v, w);
  return memcmp(x, w, size) == 0;
}
static int vfr_canary_ok(var x, size_t size, unsigned char c) {
  const unsigned char* p = (const unsigned char*)x + size;
  for (int k = 0; k < VFR_CANARY; k++) if (p[k] != c) return 0;
  return 1;
}

/* is domain `name` selected by the comma list `list`?  "all" = everything; aliases: rawall = every raw*
** domain, rawbig = the raw domains of 63 bytes and more */
static int vfg_dom_selected(const char* list, const char* name) {
  if (!strcmp(list, "all")) return 1;
  size_t l = strlen(name);
  struct rawdom* r = raw_find(name);
  for (const char* p = list; p && *p; ) {
    if (!strncmp(p, name, l) && (p[l] == ',' || p[l] == 0)) return 1;
    if (r && !strncmp(p, "rawall", 6) && (p[6] == ',' || p[6] == 0)) return 1;
    if (r && r->size >= 63 && !strncmp(p, "rawbig", 6) && (p[6] == ',' || p[6] == 0)) return 1;
    p = strchr(p, ','); if (p) p++;
  }
  return 0;
}

static void vfg_build(int large_) {
  vfg_large = large_;
  int_grid(); flt_grid(); str_grid(); type_grid(); raw_grid();
}

#endif
