/*
** vf.h - shared plumbing for the /verif harnesses (header-only, C99 + GNU).
**
** A harness is one executable that enumerates a bounded space of executions of the
** real library and checks an oracle on every one.  This header gives it:
**   - parameters:   vf_init(argc, argv), vf_param(), vf_param_i()
**   - results:      counters, vf_sample(), vf_violation(), vf_finish()  (JSON to --out)
**   - "current case" tracking, so that a crash / hang / sanitizer report is attributed
**     to the execution that was in progress (signal handlers, __asan_on_error)
**   - exception capture around a statement:  var e = VF_CATCH(stmt);
**   - a string hash set
**
** Nothing here is random.  No clocks are read except for wall-time reporting and the
** optional global deadline.
*/

#ifndef VF_H
#define VF_H

#include "Cello.h"
#include <unistd.h>
#include <sys/wait.h>
#include <sys/time.h>
#include <sys/mman.h>
#include <fcntl.h>
#include <stdarg.h>
#include <ctype.h>
#include <inttypes.h>

#define VF_MAX_SAMPLES 12
#define VF_MAX_VIOLS   64
#define VF_MAX_NOTES   32
#define VF_CASE_MAX    8192

struct vf_viol { char* label; char* kase; char* detail; uint64_t count; };

static struct {
  const char* out;
  const char* tier;
  const char* replay;           /* case string to replay, or NULL */
  int argc; char** argv;
  uint64_t states, transitions, executions, evaluations, nontrivial, outcomes;
  uint64_t max_depth;
  int exhaustive;               /* 1 unless a cap was hit */
  int aborted;
  char* samples[VF_MAX_SAMPLES]; int nsamples; uint64_t sample_seen;
  struct vf_viol viols[VF_MAX_VIOLS]; int nviols; uint64_t viol_total;
  char* notes[VF_MAX_NOTES]; int nnotes;
  char* extras[VF_MAX_NOTES]; int nextras;  /* "key": value  fragments */
  double t0, deadline;          /* seconds; deadline 0 = none */
  const char* phase;
} vf;

/* description of the execution in progress; written before, read by fault handlers */
static char vf_cur[VF_CASE_MAX];
static volatile int vf_cur_valid = 0;

static double vf_now(void) {
  struct timeval tv; gettimeofday(&tv, NULL);
  return tv.tv_sec + tv.tv_usec / 1e6;
}

static const char* vf_param(const char* key, const char* def) {
  size_t n = strlen(key);
  for (int i = 1; i < vf.argc; i++) {
    if (strncmp(vf.argv[i], key, n) == 0 && vf.argv[i][n] == '=') return vf.argv[i] + n + 1;
  }
  return def;
}

static long vf_param_i(const char* key, long def) {
  const char* v = vf_param(key, NULL);
  return v ? strtol(v, NULL, 0) : def;
}

static int vf_param_is(const char* key, const char* val, const char* def) {
  return strcmp(vf_param(key, def), val) == 0;
}

static char* vf_vfmt(const char* fmt, va_list ap) {
  va_list ap2; va_copy(ap2, ap);
  int n = vsnprintf(NULL, 0, fmt, ap2); va_end(ap2);
  char* s = malloc(n + 1);
  vsnprintf(s, n + 1, fmt, ap);
  return s;
}

static char* vf_fmt(const char* fmt, ...) {
  va_list ap; va_start(ap, fmt); char* s = vf_vfmt(fmt, ap); va_end(ap); return s;
}

static void vf_set_cur(const char* fmt, ...) {
  va_list ap; va_start(ap, fmt);
  vsnprintf(vf_cur, sizeof vf_cur, fmt, ap);
  va_end(ap);
  vf_cur_valid = 1;
}

/* keep the first few samples and then exponentially sparser ones */
static void vf_sample(const char* fmt, ...) {
  vf.sample_seen++;
  uint64_t k = vf.sample_seen;
  int keep = 0;
  if (vf.nsamples < 4) keep = 1;
  else if ((k & (k - 1)) == 0 && k >= 64) keep = 1;     /* powers of two */
  if (!keep || vf.nsamples >= VF_MAX_SAMPLES) return;
  va_list ap; va_start(ap, fmt);
  vf.samples[vf.nsamples++] = vf_vfmt(fmt, ap);
  va_end(ap);
}

static int vf_want_sample(void) {
  uint64_t k = vf.sample_seen + 1;
  if (vf.nsamples >= VF_MAX_SAMPLES) { vf.sample_seen++; return 0; }
  if (vf.nsamples < 4) return 1;
  if ((k & (k - 1)) == 0 && k >= 64) return 1;
  vf.sample_seen++;
  return 0;
}

static void vf_note(const char* fmt, ...) {
  if (vf.nnotes >= VF_MAX_NOTES) return;
  va_list ap; va_start(ap, fmt);
  vf.notes[vf.nnotes++] = vf_vfmt(fmt, ap);
  va_end(ap);
}

/* extra coverage key; val is emitted verbatim (number / true / "string") */
static void vf_extra(const char* key, const char* fmt, ...) {
  if (vf.nextras >= VF_MAX_NOTES) return;
  va_list ap; va_start(ap, fmt);
  char* v = vf_vfmt(fmt, ap);
  va_end(ap);
  vf.extras[vf.nextras++] = vf_fmt("\"%s\": %s", key, v);
  free(v);
}

/*
** Record a violation.  label: deterministic site label computed from the failing
** input's features and the symptom (matched against known_findings.json by the
** driver).  kase: replayable case string (NULL = vf_cur).  Per label the first
** (shortest, since enumeration is simplest-first) case is kept and later ones counted.
*/
static void vf_violation(const char* label, const char* kase, const char* fmt, ...) {
  vf.viol_total++;
  for (int i = 0; i < vf.nviols; i++) {
    if (strcmp(vf.viols[i].label, label) == 0) { vf.viols[i].count++; return; }
  }
  if (vf.nviols >= VF_MAX_VIOLS) return;
  va_list ap; va_start(ap, fmt);
  struct vf_viol* v = &vf.viols[vf.nviols++];
  v->label = strdup(label);
  v->kase = strdup(kase ? kase : vf_cur);
  v->detail = vf_vfmt(fmt, ap);
  v->count = 1;
  va_end(ap);
}

static void vf_json_str(FILE* f, const char* s) {
  fputc('"', f);
  for (; *s; s++) {
    unsigned char c = (unsigned char)*s;
    if (c == '"' || c == '\\') { fputc('\\', f); fputc(c, f); }
    else if (c == '\n') fputs("\\n", f);
    else if (c == '\t') fputs("\\t", f);
    else if (c < 0x20 || c >= 0x7f) fprintf(f, "\\u%04x", c);
    else fputc(c, f);
  }
  fputc('"', f);
}

static void vf_write(void) {
  FILE* f = vf.out ? fopen(vf.out, "w") : stdout;
  if (!f) { perror("vf: open out"); _exit(2); }
  fprintf(f, "{\n \"states\": %" PRIu64 ", \"transitions\": %" PRIu64
    ", \"executions\": %" PRIu64 ", \"evaluations\": %" PRIu64
    ", \"nontrivial\": %" PRIu64 ", \"outcomes\": %" PRIu64 ", \"max_depth\": %" PRIu64 ",\n",
    vf.states, vf.transitions, vf.executions, vf.evaluations,
    vf.nontrivial, vf.outcomes, vf.max_depth);
  fprintf(f, " \"exhaustive\": %s, \"aborted\": %s, \"wall_s\": %.3f,\n",
    (vf.exhaustive && !vf.aborted) ? "true" : "false", vf.aborted ? "true" : "false", vf_now() - vf.t0);
  for (int i = 0; i < vf.nextras; i++) fprintf(f, " %s,\n", vf.extras[i]);
  fprintf(f, " \"samples\": [");
  for (int i = 0; i < vf.nsamples; i++) { if (i) fputs(", ", f); vf_json_str(f, vf.samples[i]); }
  fprintf(f, "],\n \"notes\": [");
  for (int i = 0; i < vf.nnotes; i++) { if (i) fputs(", ", f); vf_json_str(f, vf.notes[i]); }
  fprintf(f, "],\n \"violation_total\": %" PRIu64 ",\n \"violations\": [", vf.viol_total);
  for (int i = 0; i < vf.nviols; i++) {
    if (i) fputs(",", f);
    fputs("\n  {\"label\": ", f); vf_json_str(f, vf.viols[i].label);
    fputs(", \"case\": ", f); vf_json_str(f, vf.viols[i].kase);
    fputs(", \"detail\": ", f); vf_json_str(f, vf.viols[i].detail);
    fprintf(f, ", \"count\": %" PRIu64 "}", vf.viols[i].count);
  }
  fprintf(f, "]\n}\n");
  if (f != stdout) fclose(f); else fflush(stdout);
}

static void vf_finish(void) {
  vf_write();
  fflush(NULL);
  _exit(0);
}

/* a fault in the middle of an execution: attribute it, write results, leave */
static void vf_fatal_sig(int sig) {
  static volatile int once = 0;
  if (once) _exit(3);
  once = 1;
  const char* nm = sig == SIGSEGV ? "SIGSEGV" : sig == SIGFPE ? "SIGFPE" :
                   sig == SIGBUS ? "SIGBUS" : sig == SIGABRT ? "SIGABRT" :
                   sig == SIGALRM ? "hang" : sig == SIGILL ? "SIGILL" : "signal";
  char label[128];
  snprintf(label, sizeof label, "%s/crash/%s", vf.phase ? vf.phase : "run", nm);
  vf.aborted = 1;
  vf_violation(label, vf_cur_valid ? vf_cur : "(no case in progress)",
    "%s while executing the case (exploration of this instance stopped here)", nm);
  vf_write();
  _exit(0);
}

#if defined(__has_feature)
# if __has_feature(address_sanitizer)
#  define VF_ASAN 1
# endif
#endif
#ifdef __SANITIZE_ADDRESS__
# define VF_ASAN 1
#endif

#ifdef VF_ASAN
/* called by the sanitizer run-time (ASan or UBSan) when it is about to die after a report */
void __sanitizer_set_death_callback(void (*)(void));
static volatile int vf_san_once = 0;
static void vf_san_death(void) {
  if (vf_san_once) return;
  vf_san_once = 1;
  char label[128];
  snprintf(label, sizeof label, "%s/sanitizer/report", vf.phase ? vf.phase : "run");
  vf.aborted = 1;
  vf_violation(label, vf_cur_valid ? vf_cur : "(no case in progress)",
    "AddressSanitizer/UBSan report while executing the case (see the instance log)");
  vf_write();
}
void __asan_on_error(void) { vf_san_death(); }
const char* __asan_default_options(void) {
  return "detect_stack_use_after_return=0:detect_leaks=0:abort_on_error=0:exitcode=0:allocator_may_return_null=1:handle_segv=0:handle_sigfpe=0:handle_abort=0:handle_sigbus=0";
}
const char* __ubsan_default_options(void) {
  return "print_stacktrace=1:halt_on_error=1:exitcode=0";
}
#endif

static char vf_altstack[1 << 16];

static void vf_install_handlers(void) {
  stack_t ss; ss.ss_sp = vf_altstack; ss.ss_size = sizeof vf_altstack; ss.ss_flags = 0;
  sigaltstack(&ss, NULL);
  struct sigaction sa; memset(&sa, 0, sizeof sa);
  sa.sa_handler = vf_fatal_sig; sa.sa_flags = SA_ONSTACK;
  sigemptyset(&sa.sa_mask);
  int sigs[] = { SIGSEGV, SIGFPE, SIGBUS, SIGABRT, SIGALRM, SIGILL };
  for (size_t i = 0; i < sizeof sigs / sizeof sigs[0]; i++) sigaction(sigs[i], &sa, NULL);
#ifdef VF_ASAN
  __sanitizer_set_death_callback(vf_san_death);
#endif
}

/* re-arm the per-case watchdog (seconds); a case that does not finish is a hang */
static void vf_watchdog(unsigned secs) { alarm(secs); }

static int vf_deadline_hit(void) {
  if (vf.deadline > 0 && vf_now() > vf.deadline) { vf.exhaustive = 0; return 1; }
  return 0;
}

static void vf_init(int argc, char** argv) {
  memset(&vf, 0, sizeof vf);
  vf.argc = argc; vf.argv = argv;
  vf.exhaustive = 1;
  vf.t0 = vf_now();
  vf.out = vf_param("out", NULL);
  vf.tier = vf_param("tier", "quick");
  vf.replay = vf_param("replay", NULL);
  long dl = vf_param_i("deadline", 0);
  vf.deadline = dl > 0 ? vf.t0 + dl : 0;
  vf_install_handlers();
  setvbuf(stdout, NULL, _IOLBF, 0);
}

/* ---- exception capture --------------------------------------------------------- */

/* run stmt; evaluate to the thrown exception object (a type such as KeyError) or NULL */
#define VF_CATCH(stmt) ({ \
  volatile var vf__e = NULL; \
  try { stmt; } catch (vf__x) { vf__e = vf__x; } \
  (var)vf__e; })

static const char* vf_exc_name(var e) {
  return e ? c_str(e) : "none";
}

/* ---- string hash set ----------------------------------------------------------- */

struct vf_set { char** keys; uint32_t* vals; size_t cap, n; };

static uint64_t vf_strhash(const char* s) {
  uint64_t h = 1469598103934665603ULL;
  for (; *s; s++) { h ^= (unsigned char)*s; h *= 1099511628211ULL; }
  return h;
}

static void vf_set_init(struct vf_set* s, size_t cap) {
  s->cap = 1; while (s->cap < cap) s->cap <<= 1;
  s->keys = calloc(s->cap, sizeof(char*));
  s->vals = calloc(s->cap, sizeof(uint32_t));
  s->n = 0;
}

static void vf_set_grow(struct vf_set* s);

/* returns index value stored for key, or inserts (key copied) with val and returns -1 */
static long vf_set_put(struct vf_set* s, const char* key, uint32_t val) {
  if ((s->n + 1) * 10 > s->cap * 7) vf_set_grow(s);
  size_t i = vf_strhash(key) & (s->cap - 1);
  while (s->keys[i]) {
    if (strcmp(s->keys[i], key) == 0) return s->vals[i];
    i = (i + 1) & (s->cap - 1);
  }
  s->keys[i] = strdup(key); s->vals[i] = val; s->n++;
  return -1;
}

static long vf_set_get(struct vf_set* s, const char* key) {
  size_t i = vf_strhash(key) & (s->cap - 1);
  while (s->keys[i]) {
    if (strcmp(s->keys[i], key) == 0) return s->vals[i];
    i = (i + 1) & (s->cap - 1);
  }
  return -1;
}

static void vf_set_grow(struct vf_set* s) {
  struct vf_set o = *s;
  s->cap = o.cap * 2;
  s->keys = calloc(s->cap, sizeof(char*));
  s->vals = calloc(s->cap, sizeof(uint32_t));
  for (size_t i = 0; i < o.cap; i++) {
    if (!o.keys[i]) continue;
    size_t j = vf_strhash(o.keys[i]) & (s->cap - 1);
    while (s->keys[j]) j = (j + 1) & (s->cap - 1);
    s->keys[j] = o.keys[i]; s->vals[j] = o.vals[i];
  }
  free(o.keys); free(o.vals);
}

/* ---- run one case in a forked child (for executions that may legitimately die) -- */

struct vf_child { int exited; int status; int signaled; int sig; int timed_out; };

static struct vf_child vf_fork_run(void (*fn)(void*), void* arg, int timeout_s) {
  struct vf_child r; memset(&r, 0, sizeof r);
  fflush(NULL);
  pid_t pid = fork();
  if (pid == 0) {
    signal(SIGSEGV, SIG_DFL); signal(SIGFPE, SIG_DFL); signal(SIGBUS, SIG_DFL);
    signal(SIGABRT, SIG_DFL); signal(SIGILL, SIG_DFL);
    signal(SIGALRM, SIG_DFL);
    alarm(timeout_s);
    fn(arg);
    fflush(NULL);
    _exit(0);
  }
  int st = 0;
  waitpid(pid, &st, 0);
  if (WIFEXITED(st)) { r.exited = 1; r.status = WEXITSTATUS(st); }
  if (WIFSIGNALED(st)) { r.signaled = 1; r.sig = WTERMSIG(st); if (r.sig == SIGALRM) r.timed_out = 1; }
  return r;
}

#endif
